#!/usr/bin/env python3
"""Run scripted operation files (NDJSON, one trace per 'reset' line) through the driver and the trace validator.
usage: scen.py file.ndjson [...]"""
import sys, json, os, collections
sys.path.insert(0, os.environ.get("VERIF_ROOT", "/verif"))
from vlib import common as C, tracecheck as T
C.build()
kf = C.known_findings()
res = T.run("SCEN", [""], [], "quick", 1, kf, ["steps"], max_replays=50, extra_ops=[os.path.abspath(f) for f in sys.argv[1:]])
print(json.dumps({k: res[k] for k in ("failing_checks", "kf_obs", "traces", "steps")}, indent=1))
for v in res["violations"]:
    print(v)
