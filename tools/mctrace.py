#!/usr/bin/env python3
"""Print the environment history (hist) and the final ask/node state of a TLC counterexample. usage: mctrace.py out.txt"""
import re, sys
t = open(sys.argv[1]).read()
states = t.split("State ")
last = states[-1]
m = re.search(r"/\\ hist = (<<.*?>>)\n/\\", last, re.S)
print("violated:", re.findall(r"Invariant (\w+) is violated", t))
if m:
    for r in re.findall(r"\[[^\[\]]*op \|-> \"(\w+)\"[^\[\]]*\]|\[ op \|-> \"(\w+)\"", m.group(1)):
        pass
    print(re.sub(r"\s+", " ", m.group(1))[:3000])
for name in ("ask", "node", "resv", "sv", "pend", "qal", "app", "bad"):
    mm = re.search(r"/\\ %s = (.*?)(?=\n/\\ |\n\n|\Z)" % name, last, re.S)
    if mm: print(name, "=", re.sub(r"\s+", " ", mm.group(1))[:1500])
