#!/usr/bin/env python3
"""Show failing (check,line) pairs of a TLC validation output next to the trace.
usage: inspect.py trace.ndjson tlc.out [check] [max]"""
import re, json, sys, collections, bisect
tr, out = sys.argv[1], sys.argv[2]
want = sys.argv[3] if len(sys.argv) > 3 else None
mx = int(sys.argv[4]) if len(sys.argv) > 4 else 4
lines = open(tr).read().splitlines()
resets = [i + 1 for i, l in enumerate(lines) if '"op":"reset"' in l]
fails = collections.defaultdict(list)
for m in re.finditer(r'<<"FAIL", "(\w+)", (\d+)', open(out).read()):
    name, l = m.group(1), int(m.group(2))
    t = bisect.bisect_right(resets, l) - 1
    fails[(name, t)].append(l)
by = collections.defaultdict(list)
for (name, t), ls in fails.items():
    by[name].append(min(ls))
def brief(d):
    return {k: v for k, v in d.items() if k not in ('state', 'msgs', 'pred', 'conf', 'stack')}
for name, v in sorted(by.items()):
    if want and name != want: continue
    v.sort()
    print('==', name, 'traces failing:', len(v))
    for l in v[:mx]:
        start = max(r for r in resets if r <= l)
        print('  -- first failing line', l, '(trace starts', start, ')')
        for i in range(max(start, l - 6), l + 1):
            d = json.loads(lines[i - 1])
            print('     ', i, json.dumps(brief(d))[:230], json.dumps(d['msgs'])[:300], ('PRED ' + json.dumps(d['pred'])) if d['pred'] else '')
