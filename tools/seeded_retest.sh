#!/bin/bash
# tools/seeded_retest.sh <ID>: re-run the pinned tests that did not pass in seeded/<ID>/confirm.log (timing and port based
# tests fail under load), three separate runs, on a worktree with the patch applied; a test counts as passing when it
# passes in all three runs. pkg/webservice tests are run with their whole package (they share one server). Appends to confirm.log.
ID=$1; V=/verif; W=/tmp/sr-$ID; L=${SEEDED_DIR:-$V/seeded}/$ID/confirm.log
export GOFLAGS=-mod=mod GOPROXY=off; unset GOSUMDB
grep "NOT PASSING" $L | sed 's/.*NOT PASSING: //; s/ [a-zA-Z]*$//' | sort -u > /tmp/sr-$ID.tests
[ -s /tmp/sr-$ID.tests ] || exit 0
git -C /repo worktree remove --force $W 2>/dev/null; git -C /repo worktree add --detach $W HEAD >/dev/null 2>&1 || exit 2
git -C $W apply ${SEEDED_DIR:-$V/seeded}/$ID/patch.diff || exit 2
sed -i '/^retest/,$d' $L
echo "retest (3 separate runs; a test passes when it passes in all of them):" >> $L
python3 - $W /tmp/sr-$ID.tests >> $L <<'PY'
import sys, json, subprocess, collections
w, f = sys.argv[1], sys.argv[2]
tests = [l.strip() for l in open(f) if l.strip()]
bypkg = collections.defaultdict(list)
for t in tests:
    pkg, name = t.split("::", 1)
    bypkg[pkg].append(name)
allok = True
for pkg, names in bypkg.items():
    rel = pkg.replace("github.com/apache/yunikorn-core/", "")
    runs = []
    for i in range(3):
        if rel == "pkg/webservice":
            cmd = "go test -vet=off -count=1 -json ./%s/" % rel
        else:
            parents = sorted(set(n.split("/")[0] for n in names))
            cmd = "go test -vet=off -count=1 -json -run '^(%s)$' ./%s/" % ("|".join(parents), rel)
        p = subprocess.run(cmd, shell=True, cwd=w, stdout=subprocess.PIPE, stderr=subprocess.DEVNULL, text=True)
        res = {}
        for line in p.stdout.splitlines():
            try:
                e = json.loads(line)
            except ValueError:
                continue
            if e.get("Test") and e.get("Action") in ("pass", "fail", "skip"):
                res[e["Test"]] = e["Action"]
        runs.append(res)
    for n in names:
        r = [x.get(n) for x in runs]
        ok = all(v == "pass" for v in r)
        allok = allok and ok
        print("  %s %s %s -> %s" % (rel, n, r, "pass" if ok else "NOT PASSING"))
print("retest verdict: %s" % ("all pinned tests pass" if allok else "SOME PINNED TESTS DO NOT PASS"))
PY
tail -1 $L
git -C /repo worktree remove --force $W
