#!/bin/bash
# usage: mc.sh <cfg> [workers] : run a bounded model of YuniKorn.tla in a scratch dir, print summary
d=$(mktemp -d); cp /verif/spec/*.tla /verif/spec/*.cfg $d/; cd $d
timeout ${T:-1200} java -Xmx${HEAP:-8g} -XX:+UseParallelGC -cp /opt/veriftools/tla/tla2tools.jar:/opt/veriftools/tla/CommunityModules-deps.jar tlc2.TLC -workers ${2:-8} -metadir $d/meta -config $1 ${M:-MC_YK.tla} > out.txt 2>&1
grep -A2 "Error:\|is violated\|states generated\|Finished in" out.txt | grep -v "^/\\\\\|^--" | head -${N:-12}
echo "output: $d/out.txt"
