#!/bin/bash
# tools/seeded_eval.sh <ID> [tier] [seeds...]: run the check of property <ID> against a scratch worktree of /repo with
# seeded/<ID>/patch.diff applied (same machinery, VERIF_REPO/VERIF_ROOT point at scratch copies so /repo and /verif stay
# untouched and several evaluations can run side by side). Prints one line per seed: rc and the VIOLATION lines.
ID=$1; TIER=${2:-quick}; shift; shift; SEEDS=${@:-1 2 3}
P=${PROP:-$ID}
W=/tmp/se${TAG}-$ID; K=/tmp/wk${TAG}-$ID
git -C /repo worktree remove --force $W 2>/dev/null; rm -rf $K
git -C /repo worktree add --detach $W HEAD >/dev/null 2>&1 || exit 2
git -C $W apply ${SEEDED_DIR:-/verif/seeded}/$ID/patch.diff || exit 2
mkdir -p $K; rsync -a --exclude .git --exclude .build --exclude replays --exclude seeded ${SRC:-/verif}/ $K/
for s in $SEEDS; do
  VERIF_ROOT=$K VERIF_REPO=$W VERIF_SEED=$s $K/bin/check $P $TIER > $K/out_$s.log 2>&1; rc=$?
  echo "seeded=$ID prop=$P tier=$TIER seed=$s rc=$rc $(grep -c '^VIOLATION' $K/out_$s.log) violations: $(grep '^VIOLATION' $K/out_$s.log | sed 's/.*replay=.*replays\///' | tr '\n' ' ' | head -c 300) $(grep '^INFRA' $K/out_$s.log | head -c 300)"
done
mkdir -p /verif/replays/seeded-$ID; cp $K/replays/* /verif/replays/seeded-$ID/ 2>/dev/null
git -C /repo worktree remove --force $W; rm -rf $K
