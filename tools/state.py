#!/usr/bin/env python3
"""Print the projected state of a trace line compactly. usage: state.py trace.ndjson line [app]"""
import json, sys
lines = open(sys.argv[1]).read().splitlines()
n = int(sys.argv[2]); d = json.loads(lines[n - 1]); s = d['state']
print({k: v for k, v in d.items() if k not in ('state', 'conf')})
for nn, nd in s['nodes'].items():
    print(' node', nn, nd)
for q, qd in s['queues'].items():
    print(' queue', q, {k: qd[k] for k in ('alloc', 'pending', 'max', 'guar', 'preempting', 'running', 'allocating', 'maxApps', 'status', 'managed', 'reservedApps', 'headroom')})
for a, ad in s['apps'].items():
    print(' app', a, {k: ad[k] for k in ('state', 'queue', 'user', 'alloc', 'phAlloc', 'pending', 'resv', 'phd', 'newlog')})
    for k, r in ad['asks'].items(): print('     ask', k, {x: r[x] for x in ('allocated', 'node', 'res', 'ph', 'tg', 'released', 'preempted', 'rel', 'reqNode')})
    for k, r in ad['allocs'].items(): print('     alloc', k, {x: r[x] for x in ('allocated', 'node', 'res', 'ph', 'tg', 'released', 'preempted', 'rel')})
print(' users', s['users']); print(' groups', s['groups']); print(' counters', s['counters'], 'done', s['done'], 'rejected', s['rejected'])
