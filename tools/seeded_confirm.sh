#!/bin/bash
# tools/seeded_confirm.sh <ID>: confirm a seeded change in a scratch worktree: (1) the demonstration passes on the unchanged
# tree, (2) the patch applies and builds, (3) the demonstration fails with it, (4) the project's pinned tests still pass.
# Output: seeded/<ID>/confirm.log. The worktree is removed at the end.
ID=$1; V=${VERIF_ROOT:-/verif}; W=/tmp/sd-$ID
export GOFLAGS=-mod=mod GOPROXY=off; unset GOSUMDB
S=${SEEDED_DIR:-$V/seeded}/$ID; L=$S/confirm.log; : > $L
git -C /repo worktree remove --force $W 2>/dev/null; git -C /repo worktree add --detach $W HEAD >/dev/null 2>&1 || { echo "worktree failed" >> $L; exit 2; }
demo=$(ls $S/zz_seeded_*_test.go)
case $(grep -m1 '^package ' $demo | awk '{print $2}') in
  scheduler) pkg=pkg/scheduler;; objects) pkg=pkg/scheduler/objects;; tests) pkg=pkg/scheduler/tests;; ugm) pkg=pkg/scheduler/ugm;;
  placement) pkg=pkg/scheduler/placement;; events) pkg=pkg/events;; configs) pkg=pkg/common/configs;; resources) pkg=pkg/common/resources;;
  webservice) pkg=pkg/webservice;; security) pkg=pkg/common/security;; *) pkg=$(grep -m1 -o 'pkg/[a-z/]*/' $S/notes.md);;
esac
echo "demo package: $pkg" >> $L
cp $demo $W/$pkg/
run=$(basename $demo .go | sed 's/zz_seeded_\(.*\)_test/TestSeeded\1/')
(cd $W && go test -vet=off -count=1 -run $run ./$pkg/ >> $L 2>&1); echo "demo-unchanged rc=$?" >> $L
git -C $W apply $S/patch.diff >> $L 2>&1; echo "apply rc=$?" >> $L
(cd $W && go build ./... >> $L 2>&1); echo "build rc=$?" >> $L
(cd $W && go test -vet=off -count=1 -run $run ./$pkg/ 2>&1 | tail -25 >> $L); echo "demo-patched rc=${PIPESTATUS[0]}" >> $L
rm -f $W/$pkg/$(basename $demo)
VERIF_REPO=$W $V/bin/baseline_off >> $L 2>&1; echo "suite-patched rc=$?" >> $L
git -C /repo worktree remove --force $W
grep "rc=" $L | tr '\n' ' '; echo
