#!/usr/bin/env python3
"""Generate MANIFEST.json from the property tables (single place to edit)."""
import json, os, subprocess, sys
sys.path.insert(0, os.environ.get("VERIF_ROOT", "/verif"))
hooks = subprocess.check_output(["git", "-C", "/repo", "log", "--format=%h %s"]).decode().splitlines()
hook_commits = [l.split()[0] for l in hooks if l.split(" ", 1)[1].startswith("verif hooks")]
TRACE = {
 "C01": "every scheduler decision and every quiescent node state of seeded and model-generated histories of the REAL core is validated by TLC against the node-capacity guards (fit in capacity-occupied-allocated, schedulable, required node, predicate table, reservation) and the node ledger invariants of the TLA+ specification",
 "C02": "every scheduler decision is validated against QueueFit on the leaf and all ancestors (FitInMaxUndef, root FitIn) on the logged pre-state; head-room chain, root max = sum of node capacities and usage<=max (unless forced from outside) are state invariants",
 "C03": "the conservation invariants (application, queue tree, root vs nodes incl. cross-node swap halves, no orphans, preempting ledger, counters) are evaluated on every logged state; every trace ends with a release-everything epilogue on which all books must be exactly empty",
 "C04": "the shim's view (Protocol section of YKTrace.tla) is folded over the SI messages only; every announcement must be legal in that view",
 "C05": "(a) every scheduler decision of seeded histories (limit layouts with named and wildcard user/group limits, reloads) is validated against the limits the trackers carry (maximum resources on every queue of the path for the user and the resolved group; maximum applications at admission) and tracked usage / running-application lists are checked against the live allocations on every state; (b) spec/UGM.tla specifies the user/group manager as a deterministic state machine (UpdateConfig with the INTENDED meaning: the limits in force are those of the latest configuration; Increase/Decrease; Headroom/CanRunApp with named-else-wildcard lookup and group resolution); TLC generates behaviours (all ordered pairs of configurations from four families x a usage script, plus seeded simulations of up to 3 configurations and 14 API calls) with the expected Headroom/CanRunApp for a probe set after every step, replayed lock-step on the real manager",
 "C06": "replacement decision, confirmation and placeholder-timeout steps are validated against the gang rules; per task group replaced<=count is a state invariant",
 "C07": "every PREEMPTED_BY_SCHEDULER victim set is validated on the logged pre-state against the eligibility rules (bound, not released/preempted, no required node, fence root, policy, shared type, relative priority with offsets and fences; required-node variant)",
 "C08": "every queue-preemption step is validated: asker under a guarantee on its path, victims only from over-guarantee (hierarchical) queues evaluated sequentially, victims + free space of the reserved node cover the ask, nothing marked without victims; preempting ledger",
 "C09": "the three reservation views, the counter lower bound and the exclusivity of reserved nodes are checked on every state/step",
 "C10": "every state-log segment of every application must follow the documented transition table; completed/idle/terminated rules are state and step invariants",
 "C11": "max-applications gate on every first allocation of an Accepted application; running/allocating counts as state invariants",
 "C12": "a restart operation (fresh core in the same process, the shim replays what IT knows - nodes, force-created applications, foreign and bound allocations, outstanding asks - in a seed-chosen legal order) is injected at arbitrary points of seeded histories; nothing may be rejected, per node/application totals must equal what the shim's knowledge implies, and equal the old core's totals (nodes, applications, managed queues, users) when nothing was in flight; the history then continues under every other check",
 "C13": "every malformed-request class of the property statement (harness/drive/bad.go, 36 classes: unknown/duplicate/empty ids, unset sub-messages, zero/negative resources, releases of nothing or with an unexpected termination type, updates for unknown nodes / released allocations) is injected in states reached by seeded histories; no panic, no hang, the matching rejection, and for invalid items every ledger exactly unchanged; all ledger invariants keep being evaluated",
 "C16": "every reload step: rejected => nothing observable changes; accepted => nodes/applications/queue totals preserved, new limits/properties applied as the abstract configuration says, missing managed queues Draining, draining leaf rejects new applications, queues removed only when empty",
}
MODEL = {"C01", "C02", "C03", "C04", "C06", "C07", "C08", "C09", "C10", "C12"}
MODEL_CAT = MODEL | {"C05"}
MODEL_TXT = ". Design level: the generative specification spec/YuniKorn.tla (explicit node and queue ledgers, reservations, the placeholder swap pipeline, predicate refusals, release of single keys and of everything, the shim's protocol view, confirmations in any order) is model-checked exhaustively by TLC within the bounds of spec/MC_YK_intended*.cfg (cold start) and of the warm starts MC_YK_warm.cfg / MC_YK_warm2.cfg (a placeholder allocated / plus a smaller real task waiting) and MC_YK_full.cfg (both nodes full: the reservation regime) and MC_YK_pre.cfg (full nodes held by a queue without guarantee, a guaranteed queue asks: queue preemption with the preempting ledger), for C12 with the Restart action enabled (the core crashes at any point, the shim replays what it knows), against the invariants C01_*..C10_*; TLC-generated environment histories (all bounded behaviours from each start state + sampled long ones) are replayed on the real core"
checks = []
for p, txt in TRACE.items():
    checks.append({
        "property_id": p,
        "quick_cmd": "bin/check %s quick" % p,
        "thorough_cmd": "bin/check %s thorough" % p,
        "evidence_file": "/verif/evidence/%s.json" % p,
        "replay_cmd_template": "bin/check %s --replay {path}" % p,
        "engine": "model+trace-validation" if p in MODEL else "trace-validation",
        "technique": "TLA+ trace validation with TLC (spec/YKTrace.tla over spec/YKState.tla) of step-by-step executions of the real core",
        "level_claimed": {"category": "model_checking" if p in MODEL_CAT else "exploration", "text": txt + (MODEL_TXT if p in MODEL else "") + ". Conformance: histories are seeded samples (quick ~15k, thorough ~500k validated steps), every step of every history is judged by the specification.", "design_ref": "DESIGN.md section 6 (" + p + ")"},
        "level_note": "trusted: the projection harness/drive/project.go (exported getters, REST DAOs, build-tagged export shims), TLC's evaluation of YKTrace.tla, the sequential driver (one SI request or one scheduling cycle per step, quiescent after each step). Known findings are exempted only by the narrow shape predicates listed in KNOWN_FINDINGS.json.",
    })
OTHER = {
 "C18": dict(engine="lockstep-resarith", cat="model_checking", tech="TLA+ specification of the resource operators and the quantity grammar; TLC enumerates boundary inputs with expected results, lock-step replay on the real functions; Apalache proves the saturating int64 arithmetic for all inputs",
   text="spec/ResOps.tla specifies the 30 vector operators (the in-place AddTo and SubFrom included), spec/Int64Sat.tla transcribes addVal/subVal/mulVal as coded: Apalache proves Coded = Clamp(exact) for ALL int64 inputs, TLC enumerates all operator cases over key sets within {a,b} (nil and empty included) and boundary values (MinInt64..MaxInt64 in boundary-symbolic form) and every quantity string up to 4/5 symbols; each case is replayed on the real pkg/common/resources functions (result, panics, arguments unmodified)",
   note="trusted: TLC/Apalache, the 10-line math/big evaluator of the symbolic quantity value (the quantity half is a specification-derived differential test), the conversion of boundary-symbolic pairs to int64"),
 "C20": dict(engine="lockstep-events", cat="model_checking", tech="TLA+ specifications EventRing/EventStore/EventStream model-checked by TLC; every behaviour replayed lock-step on the real ring buffer / store, every interleaving of the stream protocol replayed on the real EventStreaming with gates",
   text="EventRing.tla (id-indexed history with Add/Resize/Query/Recent), EventStore.tla and EventStream.tla (publisher and subscriber split into the steps the code takes) are explored exhaustively by TLC for capacities 1..4, <=9 ids, all (start,count) in 0..10 x 0..10, 1-2 subscribers, <=4 events; all behaviours are replayed on the real objects (pointer identity of records), stream interleavings are forced on the real EventStreaming/EventSystemImpl through the verif gates",
   note="trusted: TLC, the gate-steered replayer (a blocked CreateEventStream / PublishEvent is released by the schedule), delivery time-outs of 10 s"),
}
OTHER["C19"] = dict(engine="sorting-conformance", cat="model_checking", tech="TLA+ specification of the documented sort orders (Sorting.tla) and of the node collection (NodeColl.tla); recorded permutation experiments on the real sorters validated by TLC (SortingTrace.tla), TLC-generated node-collection behaviours replayed lock-step",
   text="Sorting.tla gives each policy's documented strict weak order (TLC checks it IS a strict weak order over a finite key domain); real queues/applications/asks with keys from a small domain are presented to the real sorters in EVERY permutation and the records are validated by TLC: output is a permutation, no pair inverted, relative order of distinguished pairs independent of the input permutation; NodeColl.tla behaviours (add/remove/allocate/release/foreign/reserve/policy change, exhaustive to depth 5/6 plus simulation) are replayed on a real NodeCollection comparing both iterators after every step",
   note="trusted: TLC, the record format of ykh sortrec, explicit (never wall-clock) time keys")
OTHER["C15"] = dict(engine="lockstep-confvalid", cat="model_checking", tech="TLA+ specification of the documented configuration rules (ConfigValid.tla); TLC enumerates families of abstract configurations with the specification's verdict, the harness renders them to YAML and compares with the real validator, loader, reload and first placement",
   text="SOUNDNESS of validation: spec/ConfigValid.tla states 29 documented rules (queue structure and names, max/guaranteed hierarchy, max-applications, user/group/wildcard limits vs queue maximum and ancestors, placement rule paths) as SpecValid(c); TLC enumerates ten families of abstract configurations as initial states; every configuration the real validator ACCEPTS must satisfy SpecValid, must load into a new scheduler, reload into a running one and place a first application per leaf / rule shape without error or panic, and validation must give one verdict on repeated runs; rejected configurations are only counted (completeness is not claimed)",
   note="trusted: TLC, the YAML renderer, the abstract record <-> YAML correspondence; ambiguous sub-cases listed in the header of ConfigValid.tla are not judged")
OTHER["C17"] = dict(engine="lockstep-placement", cat="model_checking", tech="TLA+ specification of the placement rule chain and ACL semantics (Placement.tla) as a deterministic function; TLC enumerates rule chains x ACL layouts x applications with the expected outcome, lock-step replay through the real SI path",
   text="spec/Placement.tla defines Place(rules, tree, app) from the documented semantics (provided/user/tag/fixed rules, parent rules, filters, create flags, ACL inheritance, name validity, draining and leaf/parent rules, child templates, the implicit recovery rule); TLC checks the specification against the property (invariant Sane) and enumerates cases (exhaustive single-rule family x 12 ACL layouts x 612 applications, plus seeded chains of up to 3 rules with parents); every case is submitted to a real ClusterContext and the answer, the queue, created queues and their template limits are compared",
   note="trusted: TLC, the harness comparison, the rendering of layouts (the draining leaf is produced by a real reload); sub-cases left out on purpose are listed in the header of Placement.tla")
OTHER["C14"] = dict(engine="concurrency", cat="model_checking", tech="TLA+ refinement of the allocation pipeline into the implementation's critical sections (YKConc.tla) model-checked by TLC, its interleaving classes forced on the real code with gates and validated by YKTrace.tla; concurrent sessions of the real core under the Go race detector; recorded lock acquisition graph checked by TLC (LockOrder.tla)",
   text="(1) spec/YKConc.tla: scheduling cycle (Select / Commit1 / Commit2) against node removal (two steps), conservation at quiescence model-checked exhaustively; the interleaving classes (an RM event - node removal, re-registration, drain, application removal, release - running entirely inside one of the cycle's gaps, or the cycle inside the node removal) are replayed deterministically on the real core through the gates tryNode.beforeNodeAdd, partition.allocate.entry and removeNode.afterList, every line validated by YKTrace.tla; (2) seeded concurrent sessions (scheduling loop, 4 request streams, node churn, reloads, quota-preemption ticks, timers, late/duplicate confirmations, DAO and health-check readers) built with -race: every data race report, panic, goroutine left blocked in core code is a violation unless it matches a known finding by frame signature; quiescent final state validated (C02_Headroom/RootMax, C09_*, C10_Transitions as verdicts; the ledger invariants are observations there, see level_note); (3) spec/LockOrder.tla: the recorded lock acquisition edges (instance and class level) must be acyclic",
   note="Schedules are SAMPLED by the Go scheduler: absence of a race report is not a proof. The ledger invariants (C01/C03/C05) of a sampled session's final state are counted but not judged because the known defect family KF-C14-REMOVAL-DURING-CYCLE corrupts exactly those books and cannot be recognised from a final state; that family is decided by the deterministic gate scenarios. Sampled sessions do not remove nodes or applications for the same reason.")
NA = {


}
for p, o in OTHER.items():
    checks.append({"property_id": p, "quick_cmd": "bin/check %s quick" % p, "thorough_cmd": "bin/check %s thorough" % p, "evidence_file": "/verif/evidence/%s.json" % p,
        "replay_cmd_template": "bin/check %s --replay {path}" % p, "engine": o["engine"], "technique": o["tech"],
        "level_claimed": {"category": o["cat"], "text": o["text"], "design_ref": "DESIGN.md section 6 (" + p + ")"}, "level_note": o["note"]})
checks.sort(key=lambda c: c["property_id"])
m = {
 "version": 1,
 "setup_cmd": "bin/setup",
 "hooks": {"guard": "verif (Go build tag)", "enable": "go build -tags verif (bin/build builds the harness module against /repo's working tree with the tag on)",
           "baseline_off_cmd": "bin/baseline_off", "source_commits": hook_commits, "add_only": True},
 "engines": [
   {"name": "model+trace-validation", "path": "/verif/vlib/modelgen.py", "serves_properties": sorted(MODEL), "kind_free_text": "TLC exhaustive model checking of spec/YuniKorn.tla (MC_YK*.cfg) and TLC-generated tests replayed through the harness and validated step by step"},
   {"name": "lockstep-resarith", "path": "/verif/vlib/resarith.py", "serves_properties": ["C18"], "kind_free_text": "TLC/Apalache on spec/ResOps.tla, Int64Sat.tla, Quantity.tla + ykh resarith lock-step replay"},
   {"name": "lockstep-events", "path": "/verif/vlib/events.py", "serves_properties": ["C20"], "kind_free_text": "TLC on spec/EventRing.tla, EventStore.tla, EventStream.tla + ykh events replay (ring/store lock-step, stream interleavings with gates)"},
   {"name": "sorting-conformance", "path": "/verif/vlib/sorting.py", "serves_properties": ["C19"], "kind_free_text": "ykh sortrec records permutation experiments on the real sorters, TLC validates them against spec/Sorting.tla; ykh nodecoll replays spec/NodeColl.tla behaviours"},
   {"name": "lockstep-confvalid", "path": "/verif/vlib/confvalid.py", "serves_properties": ["C15"], "kind_free_text": "TLC on spec/ConfigValid.tla (MC_ConfigValid) + ykh confvalid"},
   {"name": "lockstep-placement", "path": "/verif/vlib/placement.py", "serves_properties": ["C17"], "kind_free_text": "TLC on spec/Placement.tla (MC_Placement) + ykh placement"},
   {"name": "concurrency", "path": "/verif/vlib/conc.py", "serves_properties": ["C14"], "kind_free_text": "TLC on spec/YKConc.tla + gate replay (ykh gate), ykh-race conc sessions, TLC on spec/LockOrder.tla"},
   {"name": "trace-validation", "path": "/verif/vlib/tracecheck.py", "serves_properties": sorted(TRACE), "kind_free_text": "Go harness (harness/) drives the real ClusterContext synchronously and logs NDJSON; TLC validates every step against spec/YKTrace.tla"},
 ],
 "checks": checks,
 "not_applicable": [{"property_id": k, "reason": v} for k, v in sorted(NA.items())],
 "notes": "See DESIGN.md. KNOWN_FINDINGS.json lists genuine defects (known / fixed). bin/check <id> [quick|thorough] [--replay file].",
}
json.dump(m, open(os.environ.get("VERIF_ROOT", "/verif") + "/MANIFEST.json", "w"), indent=1)
print("checks:", len(checks), "n/a:", len(NA))
