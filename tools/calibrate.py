#!/usr/bin/env python3
"""Run profiles with several seeds and list every failing check (all properties) with example replay files.
usage: calibrate.py profile[,profile..] [seeds] [traces] [steps]"""
import sys, json, os, collections
sys.path.insert(0, os.environ.get("VERIF_ROOT", "/verif"))
from vlib import common as C, tracecheck as T
profiles = sys.argv[1].split(",")
seeds = int(sys.argv[2]) if len(sys.argv) > 2 else 2
traces = int(sys.argv[3]) if len(sys.argv) > 3 else 40
steps = int(sys.argv[4]) if len(sys.argv) > 4 else 80
C.build()
kf = C.known_findings()
runs = [dict(profile=p, traces=traces, steps=steps, procs=seeds) for p in profiles]
from vlib import props as P
res = T.run("CAL", [""], runs, "quick", int(os.environ.get("VERIF_SEED", "7")), kf, ["steps"], max_replays=400, gen=P.model_stage("quick", int(os.environ.get("VERIF_SEED", "7")), mc=False) if os.environ.get("GEN") else None)
print(json.dumps({k: res[k] for k in ("failing_checks", "kf_obs", "counters", "traces", "steps", "wall")}, indent=1))
by = collections.defaultdict(list)
for v in res["violations"]:
    by[os.path.basename(v).split("-")[1]].append(v)
for k, v in sorted(by.items()):
    print(k, len(v), v[:3])
