#!/usr/bin/env python3
"""usage: showreplay.py replay.json [lastN] [app]"""
import json, sys
d = json.load(open(sys.argv[1])); tr = d['trace']
n = int(sys.argv[2]) if len(sys.argv) > 2 else 8
app = sys.argv[3] if len(sys.argv) > 3 else None
print('=====', sys.argv[1], d['check'], 'len', len(tr))
def brief(r): return {k: v for k, v in r.items() if k not in ('state', 'conf', 'stack', 'dpanic', 'pred', 'msgs') and v not in ("", False, 0) or k == 'op'}
for i, r in enumerate(tr):
    if app:
        rel = r.get('app') == app or any(m.get('app') == app for m in r['msgs'])
        if not rel and i < len(tr) - n: continue
    elif i < len(tr) - n: continue
    print(i, json.dumps(brief(r)), json.dumps(r['msgs']), ('PRED' + json.dumps(r['pred'])) if r['pred'] else '')
for tag, s in (('pre', tr[-2]['state']), ('post', tr[-1]['state'])):
    print('---', tag)
    for nn, nd in s['nodes'].items(): print('  node', nn, nd)
    for q, qd in s['queues'].items(): print('  queue', q, {k: qd[k] for k in ('alloc', 'pending', 'max', 'running', 'allocating', 'maxApps', 'status', 'reservedApps') if qd[k] not in ({}, [], 0)})
    for a, ad in s['apps'].items():
        if app and a != app: continue
        print('  app', a, ad['state'], ad['queue'], 'alloc', ad['alloc'], 'ph', ad['phAlloc'], 'pend', ad['pending'], 'resv', ad['resv'], ad['phd'], ad['newlog'])
        for k, r in ad['asks'].items(): print('      ask', k, {x: r[x] for x in ('allocated', 'node', 'res', 'ph', 'tg', 'released', 'preempted', 'rel', 'reqNode') if r[x] not in ("", False)})
        for k, r in ad['allocs'].items(): print('      alloc', k, {x: r[x] for x in ('node', 'res', 'ph', 'tg', 'released', 'preempted', 'rel') if r[x] not in ("", False)})
    print('  users', json.dumps(s['users'])[:300]); print('  counters', s['counters'], 'done', s['done'])
