\* template: the pipeline writes its own copy with the tier's MaxLen
CONSTANTS
  MaxLen = 3
INIT Init
NEXT Next
INVARIANT Emit
CHECK_DEADLOCK FALSE
