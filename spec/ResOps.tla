------------------------------- MODULE ResOps -------------------------------
(* The vector operators of pkg/common/resources/resources.go, one for one, with their DOCUMENTED meaning *)
(* (property C18).  It extends the operator set of Res.tla (which the trace validator uses on plain       *)
(* integers) in two directions: every operator is nil-aware, and the scalar arithmetic is a parameter,   *)
(* so that the same text is instantiated                                                                 *)
(*   - with the exact-or-saturate boundary-symbolic integers of Int64Sat.tla (MC_ResOps.tla: the cases   *)
(*     replayed in lock step against the real functions), and                                            *)
(*   - with small plain integers (MC_ResOpsInt.tla: agreement with Res.tla wherever nothing saturates).  *)
(*                                                                                                       *)
(* A resource is Nil (the nil *Resource) or a function from a finite set of type names to scalars;       *)
(* "undefined" (type not in the DOMAIN) is not the same as 0.  Unless an operator documents otherwise a  *)
(* nil resource is a resource with no types defined and an undefined type reads as zero ("Resources are  *)
(* sparse objects in all cases an undefined quantity is assumed zero").                                  *)
(*                                                                                                       *)
(* Where the Go documentation does not determine a result the specification says so instead of copying   *)
(* the code:                                                                                             *)
(*   NoTypes   a result with no types defined; nil or an empty resource are both accepted                *)
(*   Unspec    a predicate value the documentation leaves open; any boolean is accepted                  *)
(* Operators always return values; "never modifies its arguments" is checked by the harness.             *)
EXTENDS FiniteSets

CONSTANTS Nil,                 \* the nil *Resource
          NoTypes, Unspec,     \* see above
          Z,                   \* scalar zero
          SAdd(_, _),          \* exact-or-saturate scalar addition        (addVal)
          SSub(_, _),          \* exact-or-saturate scalar subtraction     (subVal)
          SMul(_, _),          \* exact-or-saturate scalar multiplication  (mulVal)
          SLt(_, _)            \* strict order of the scalars

Empty == [t \in {} |-> Z]
N(r) == IF r = Nil THEN Empty ELSE r                    \* "a nil resource is considered an empty resource"
Get(r, t) == IF t \in DOMAIN r THEN r[t] ELSE Z         \* an undefined quantity is assumed zero
SLe(x, y) == ~SLt(y, x)
SMin(x, y) == IF SLt(y, x) THEN y ELSE x
SMax(x, y) == IF SLt(x, y) THEN y ELSE x
Pos(x) == IF SLt(x, Z) THEN Z ELSE x                    \* max(0, x)
Types(l, r) == DOMAIN l \cup DOMAIN r

-----------------------------------------------------------------------------
(* arithmetic *)

\* "Add resources returning a new resource with the result. A nil resource is considered an empty resource";
\* "all operations that take more than one resource return a union of resource entries"
Add(left, right) == LET l == N(left) r == N(right) IN [t \in Types(l, r) |-> SAdd(Get(l, t), Get(r, t))]

\* "Subtract resource returning a new resource ... This might return negative values"
Sub(left, right) == LET l == N(left) r == N(right) IN [t \in Types(l, r) |-> SSub(Get(l, t), Get(r, t))]
\* AddTo / SubFrom update the receiver in place (the running totals of partition, nodes, trackers are kept with them):
\* "A nil base resource does not change. A nil passed in resource is treated as a zero valued resource and leaves base unchanged"
\* only the types of the argument are touched, with the same saturating arithmetic as Add / Sub
AddTo(r, add) == IF r = Nil THEN Nil ELSE IF add = Nil THEN r
                 ELSE [t \in Types(r, add) |-> IF t \in DOMAIN add THEN SAdd(Get(r, t), add[t]) ELSE r[t]]
SubFrom(r, sub) == IF r = Nil THEN Nil ELSE IF sub = Nil THEN r
                   ELSE [t \in Types(r, sub) |-> IF t \in DOMAIN sub THEN SSub(Get(r, t), sub[t]) ELSE r[t]]

\* "subtracts delta from base resource, ignoring any type not defined in the base resource" (nil base: undocumented)
SubOnlyExisting(base, delta) ==
    IF base = Nil THEN NoTypes ELSE [t \in DOMAIN base |-> SSub(base[t], Get(N(delta), t))]

\* "adds delta to base resource, ignoring any type not defined in the base resource" (nil base: undocumented)
AddOnlyExisting(base, delta) ==
    IF base = Nil THEN NoTypes ELSE [t \in DOMAIN base |-> SAdd(base[t], Get(N(delta), t))]

\* "This will return 0 values for negative values" / "All negative values are reset to 0" (subNonNegative)
SubEliminateNegative(left, right) ==
    LET l == N(left) r == N(right) IN [t \in Types(l, r) |-> Pos(SSub(Get(l, t), Get(r, t)))]

\* "This will return an error if any value in the result is negative ... The returned resource is valid and has
\* all negative values reset to 0"
SubErrorNegative(left, right) ==
    LET l == N(left) r == N(right) IN
    [res |-> SubEliminateNegative(left, right),
     err |-> \E t \in Types(l, r) : SLt(SSub(Get(l, t), Get(r, t)), Z)]

\* "Multiply the resource by the integer ratio returning a new resource. Result is protected from overflow
\* (positive and negative). A nil resource passed in returns a new empty resource (zero)".
\* For ratio = 0 the documentation does not say whether the zero-valued types are kept: the harness compares
\* that result as a sparse vector (MultiplyIsSparse).
Multiply(base, ratio) == IF base = Nil THEN Empty ELSE [t \in DOMAIN base |-> SMul(base[t], ratio)]
MultiplyIsSparse(base, ratio) == base # Nil /\ ratio = Z

\* "Clone returns a clone (copy) ... deep copy of the object with the exact same member set" (nil: undocumented)
Clone(r) == IF r = Nil THEN NoTypes ELSE r

\* "Prune removes any resource type that has a zero value set" (in place; the value is the receiver afterwards)
Prune(r) == IF r = Nil THEN Nil ELSE [t \in {u \in DOMAIN r : r[u] # Z} |-> r[t]]

-----------------------------------------------------------------------------
(* component-wise minimum / maximum / merge *)

\* "If either Resource passed in is nil the other Resource is returned. If a Resource type is missing from one of
\* the Resource, it is considered empty and the quantity from the other Resource is returned"
ComponentWiseMin(left, right) ==
    IF left = Nil THEN right
    ELSE IF right = Nil THEN left
    ELSE [t \in Types(left, right) |->
            IF t \in DOMAIN left /\ t \in DOMAIN right THEN SMin(left[t], right[t])
            ELSE IF t \in DOMAIN left THEN left[t] ELSE right[t]]

\* "the smallest value for resource type existing only in left but not vice versa" (nil left: undocumented)
ComponentWiseMinOnlyExisting(left, right) ==
    IF left = Nil THEN NoTypes
    ELSE IF right = Nil THEN left
    ELSE [t \in DOMAIN left |-> IF t \in DOMAIN right THEN SMin(left[t], right[t]) ELSE left[t]]

\* "the largest value for each quantity ... If either resource passed in is nil a zero resource is returned"
ComponentWiseMax(left, right) ==
    IF left = Nil \/ right = Nil THEN Empty
    ELSE [t \in Types(left, right) |-> SMax(Get(left, t), Get(right, t))]

\* "merging resource type values present in right with left only if resource type not present in left. If either
\* Resource passed in is nil the other Resource is returned"
MergeIfNotPresent(left, right) ==
    IF left = Nil THEN right
    ELSE IF right = Nil THEN left
    ELSE [t \in Types(left, right) |-> IF t \in DOMAIN left THEN left[t] ELSE right[t]]

-----------------------------------------------------------------------------
(* fit predicates: larger.FitIn*(smaller) *)

\* "Types not defined in resource this is called against are considered 0"; negative values of larger count as 0
FitIn(larger, smaller) ==
    LET L == N(larger) s == N(smaller) IN \A t \in DOMAIN s : SLe(s[t], Pos(Get(L, t)))

\* "Types not defined in resource this is called against are considered the maximum value for Quantity"
FitInMaxUndef(larger, smaller) ==
    LET L == N(larger) s == N(smaller) IN \A t \in DOMAIN s : t \in DOMAIN L => SLe(s[t], Pos(L[t]))

\* "based on the actual values. Negative values too are compared as is. Types not defined ... are skipped"
FitInActual(larger, smaller) ==
    LET L == N(larger) s == N(smaller) IN \A t \in DOMAIN s : t \in DOMAIN L => SLe(s[t], L[t])

-----------------------------------------------------------------------------
(* comparisons *)

EqSparse(l, r) == \A t \in Types(l, r) : Get(l, t) = Get(r, t)
GeAll(l, s) == \A t \in Types(l, s) : SLe(Get(s, t), Get(l, t))

\* Sparse-vector equality.  The package rule (an undefined quantity is zero) and the upstream unit tests fix the
\* meaning; the function's own comment ("resource type available in left but not in right ... is not taken into
\* account") contradicts both and is taken to be stale.  "False in case anyone of the resources is nil"; whether
\* that includes two nils is left open.
Equals(left, right) ==
    IF left = Nil /\ right = Nil THEN Unspec
    ELSE IF left = Nil \/ right = Nil THEN FALSE
    ELSE EqSparse(left, right)

\* "based on resource type existence and its values as well"
DeepEquals(left, right) ==
    IF left = Nil /\ right = Nil THEN Unspec
    ELSE IF left = Nil \/ right = Nil THEN FALSE
    ELSE DOMAIN left = DOMAIN right /\ \A t \in DOMAIN left : left[t] = right[t]

IsZero(r) == r = Nil \/ \A t \in DOMAIN r : r[t] = Z                  \* "A nil or empty resource is zero"
IsEmpty(r) == r = Nil \/ DOMAIN r = {}                               \* "nil or has no component resources"
HasNegativeValue(r) == r # Nil /\ \E t \in DOMAIN r : SLt(r[t], Z)

\* the documented table: nil/nil true, nil/<set> false, nil/zero true, <set>/<set> by the values
EqualsOrEmpty(left, right) ==
    IF IsZero(left) /\ IsZero(right) THEN TRUE
    ELSE IF left = Nil \/ right = Nil THEN FALSE
    ELSE EqSparse(left, right)

\* "true if at least one type in the defined resource exists in the other resource ... A nil resource ... returns
\* false. Values are not considered"
MatchAny(r, other) == r # Nil /\ other # Nil /\ DOMAIN r \cap DOMAIN other # {}

\* The strict part of the component-wise order of sparse vectors: no quantity smaller, and not equal
\* ("Two resources that are equal are not considered strictly larger than each other").
StrictlyGreaterThan(larger, smaller) ==
    LET l == N(larger) s == N(smaller) IN GeAll(l, s) /\ ~EqSparse(l, s)

\* the component-wise order itself
StrictlyGreaterThanOrEquals(larger, smaller) == GeAll(N(larger), N(smaller))

\* "Have at least one quantity > 0, and no quantities < 0. A nil resource is not strictly greater than zero."
StrictlyGreaterThanZero(r) ==
    r # Nil /\ (\A t \in DOMAIN r : ~SLt(r[t], Z)) /\ (\E t \in DOMAIN r : SLt(Z, r[t]))

\* r.StrictlyGreaterThanOnlyExisting(smaller): "true if all quantities for types in the defined resource are
\* greater than the quantity for the same type in smaller. Types defined in smaller that are not in the defined
\* resource are ignored. Two resources that are equal are not considered strictly larger than each other."
\* The text does not say how a type of r that smaller does not define is read, whether "all greater" tolerates
\* equal components, nor what an empty r yields.  Only what every reading agrees on is specified:
\*   TRUE   r defines a type and every type of r is strictly greater than smaller's value (undefined read as 0)
\*   FALSE  some common type is smaller in r, or both define exactly the same types with the same values
StrictlyGreaterThanOnlyExisting(r0, s0) ==
    LET r == N(r0) s == N(s0) IN
    IF DOMAIN r # {} /\ \A t \in DOMAIN r : SLt(Get(s, t), r[t]) THEN TRUE
    ELSE IF \E t \in DOMAIN r \cap DOMAIN s : SLt(r[t], s[t]) THEN FALSE
    ELSE IF DOMAIN r = DOMAIN s /\ \A t \in DOMAIN r : r[t] = s[t] THEN FALSE
    ELSE Unspec

\* r.StrictlyGreaterThanOrEqualsOnlyExisting(smaller): "... greater than or equals the quantity for the same type
\* in smaller. Types defined in smaller that are not in the defined resource are ignored."  Specified likewise:
\*   TRUE   r defines a type, every common type is >= and every type smaller does not define is > 0
\*   FALSE  some common type is smaller in r
StrictlyGreaterThanOrEqualsOnlyExisting(r0, s0) ==
    LET r == N(r0) s == N(s0) IN
    IF \E t \in DOMAIN r \cap DOMAIN s : SLt(r[t], s[t]) THEN FALSE
    ELSE IF DOMAIN r # {} /\ \A t \in DOMAIN r : IF t \in DOMAIN s THEN SLe(s[t], r[t]) ELSE SLt(Z, r[t]) THEN TRUE
    ELSE Unspec
=============================================================================
