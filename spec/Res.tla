------------------------------- MODULE Res -------------------------------
(* Sparse resource vectors: a resource is a function from a finite set of type names to integers.        *)
(* "undefined" (type not in the DOMAIN) is NOT the same as 0: the fit predicates differ exactly in how   *)
(* they read an undefined type, mirroring pkg/common/resources/resources.go one operator for one.        *)
EXTENDS Integers, FiniteSets, FiniteSetsExt, Sequences

EmptyRes == [t \in {} |-> 0]
Get(r, t) == IF t \in DOMAIN r THEN r[t] ELSE 0
Pos(x) == IF x < 0 THEN 0 ELSE x
MinI(a, b) == IF a < b THEN a ELSE b
MaxI(a, b) == IF a > b THEN a ELSE b

REq(a, b) == \A t \in DOMAIN a \cup DOMAIN b : Get(a, t) = Get(b, t)          \* Equals (missing = 0)
RDeepEq(a, b) == DOMAIN a = DOMAIN b /\ \A t \in DOMAIN a : a[t] = b[t]         \* DeepEquals
RAdd(a, b) == [t \in DOMAIN a \cup DOMAIN b |-> Get(a, t) + Get(b, t)]
RSub(a, b) == [t \in DOMAIN a \cup DOMAIN b |-> Get(a, t) - Get(b, t)]
RSubOnlyExisting(base, delta) == [t \in DOMAIN base |-> base[t] - Get(delta, t)]
RSubElimNeg(a, b) == [t \in DOMAIN a \cup DOMAIN b |-> Pos(Get(a, t) - Get(b, t))]
RMin(a, b) == [t \in DOMAIN a \cup DOMAIN b |->                                  \* ComponentWiseMin: all types
                 IF t \in DOMAIN a /\ t \in DOMAIN b THEN MinI(a[t], b[t])
                 ELSE IF t \in DOMAIN a THEN MinI(a[t], 0) ELSE MinI(b[t], 0)]
RMinOnlyExisting(a, b) == [t \in DOMAIN a |-> IF t \in DOMAIN b THEN MinI(a[t], b[t]) ELSE a[t]]
RZero(r) == \A t \in DOMAIN r : r[t] = 0                                         \* IsZero
RGE0(r) == \A t \in DOMAIN r : r[t] >= 0
RSumSet(S, f(_)) == LET T == UNION {DOMAIN f(x) : x \in S} IN
                    [t \in T |-> FoldSet(LAMBDA x, acc : acc + Get(f(x), t), 0, S)]

\* larger.FitIn(smaller): a type missing from larger counts as 0, negative values in larger count as 0
FitIn(larger, smaller) == \A t \in DOMAIN smaller : smaller[t] <= Pos(Get(larger, t))
\* larger.FitInMaxUndef(smaller): a type missing from larger is unlimited
FitInMaxUndef(larger, smaller) == \A t \in DOMAIN smaller : t \in DOMAIN larger => smaller[t] <= Pos(larger[t])
\* component-wise <= on the types of b that a defines ("a within b where b speaks")
LeqOnDefined(a, b) == \A t \in DOMAIN b : Get(a, t) <= b[t]
=============================================================================
