----------------------------- MODULE ConfigValid -----------------------------
(* Property C15: the DOCUMENTED hierarchy rules of a yunikorn-core scheduler configuration (one partition), as a      *)
(* predicate SpecValid(c) over an abstract configuration record.  Every rule is written from its documented meaning   *)
(* (comments and error messages of pkg/common/configs/configvalidator.go, the comments of config.go and of the        *)
(* placement rules), not from the validator's control flow:                                                           *)
(*   - "exactly 1 root queue, added if missing"; "root queue must not have resource limits set";                      *)
(*   - "no duplicate names at each branched level in the tree" (names compare case-insensitively: queue names are     *)
(*     lower-cased when the tree is built); a name has 1..64 characters out of a-z A-Z 0-9 _ : # / @ -;               *)
(*   - a resource type missing from a maximum is unlimited; "guaranteed resource ... larger than maximum resource";    *)
(*     "max resource of parent ... smaller than maximum resource ... for queue"; "guaranteed resource of parent ...    *)
(*     smaller than sum of guaranteed resources ... of the children"; "max resource ... smaller than sum of            *)
(*     guaranteed resources ... of the children";                                                                     *)
(*   - "parent maxApplications must be larger than child maxApplications"; "maxApplications is either undefined or    *)
(*     zero, which is not allowed when parent queue's maxApplications is defined" (0 = not limited);                  *)
(*   - limits: "empty user and group lists", "duplicated user name", "should not set no wildcard user ... after       *)
(*     wildcard user limit", "should not specify only one group limit that is using the wildcard", "all resource      *)
(*     limits are null", "MaxResources should be greater than zero", "exceed current the queue MaxApplications",      *)
(*     "exeecd current the queue MaxResources", "user ... max resource ... is greater than immediate or ancestor       *)
(*     parent maximum resource", "... is greater than wildcard maximum resource ... of immediate or ancestor parent    *)
(*     queue" and the four max-applications counterparts;                                                             *)
(*   - placement rules: a rule name is one of provided, user, tag, fixed; "a fixed queue rule must have a queue name  *)
(*     set"; a fixed value is fully qualified when it starts with "root." (its first path element IS root), then it   *)
(*     cannot have a parent rule; the filter type is '', allow or deny; a single filter entry is a name or a regular  *)
(*     expression; the longest static path of a rule chain must reference "a queue which is a leaf" (a parent when a  *)
(*     dynamic part follows), and "non-existing queues" need create and a deepest existing queue that is not a leaf.  *)
(*                                                                                                                    *)
(* ABSTRACT RECORD  c = [queues |-> <<q1, ..>>, rules |-> <<chain1, ..>>]                                             *)
(*   q     = [name : Seq(Char), up : 0..(own index - 1), parent : BOOLEAN, max, guar : Res, maxApps : Nat,            *)
(*            limits : Seq(limit), tmpl : [max, guar : Res, maxApps : Nat]]                                           *)
(*           the queues in document order, parents before children; up = index of the parent, 0 = top level of the    *)
(*           document (several top level queues, or one that is not called root, are legal: the root is implied)       *)
(*   Res   = function from a set of resource type names to Int (a type outside the domain is NOT DEFINED, not 0)       *)
(*   limit = [users, groups : Seq(STRING) ("*" = wildcard), max : Res, maxApps : Nat]                                 *)
(*   chain = <<r1, .., rn>>: one top level placement rule rn with its parent rules, outermost parent r1 first         *)
(*   r     = [name : STRING, create : BOOLEAN, value : Seq(Seq(Char)) (the value split at the dots),                  *)
(*            ftype : STRING, fusers, fgroups : Seq([text : STRING, kind : {"name", "regexp", "broken"}])]            *)
(* Characters are one-character strings, so that the name rules can be stated inside the specification.              *)
(*                                                                                                                    *)
(* SUB-CASES WHOSE DOCUMENTED MEANING IS AMBIGUOUS are not judged.  Either the rule is stated so that the sub-case    *)
(* cannot violate it, or Ambiguities(c) names the sub-case and the pipeline ignores the rules it makes uncertain:     *)
(*   GuaranteedTypeMissingInParent  the children guarantee a type that the parent's non-empty guaranteed resource     *)
(*                                  does not define ("not defined" could mean "nothing guaranteed" or "no bound"):    *)
(*                                  ChildGuaranteedSumWithinParentGuaranteed speaks about the defined types only      *)
(*   CreateFlagsDifferInChain       the static path does not exist and the rules of the chain disagree on create:     *)
(*                                  MissingPathCreatable (stated with the flag of the top level rule) is ignored      *)
(*   DottedUnqualifiedValue         an unqualified fixed value with a dot whose first element exists below the        *)
(*                                  parent (the dots could be replaced or read as a relative path): the three path    *)
(*                                  rules are ignored                                                                 *)
(*   zero quantities, "the queue maximum" of a limit read as the inherited maximum, the children's guaranteed sum against  *)
(*   an inherited maximum, guaranteed sums over grand-children: the weaker reading is specified (configured maximum,  *)
(*   direct children), the families generate no zero quantities.                                                      *)
EXTENDS Integers, Sequences, FiniteSets

Range(s) == {s[i] : i \in DOMAIN s}
NoRes == <<>>                                   \* the resource that defines no type

-----------------------------------------------------------------------------
(* names *)
LowerCase == <<"a","b","c","d","e","f","g","h","i","j","k","l","m","n","o","p","q","r","s","t","u","v","w","x","y","z">>
UpperCase == <<"A","B","C","D","E","F","G","H","I","J","K","L","M","N","O","P","Q","R","S","T","U","V","W","X","Y","Z">>
Digits    == {"0","1","2","3","4","5","6","7","8","9"}
NameChars == Range(LowerCase) \cup Range(UpperCase) \cup Digits \cup {"_", ":", "#", "/", "@", "-"}

LowerChar(ch) == IF \E i \in 1..26 : UpperCase[i] = ch THEN LowerCase[CHOOSE i \in 1..26 : UpperCase[i] = ch] ELSE ch
LowerName(n)  == [i \in 1..Len(n) |-> LowerChar(n[i])]
SameName(a, b) == LowerName(a) = LowerName(b)
RootName      == <<"r", "o", "o", "t">>
ValidName(n)  == Len(n) >= 1 /\ Len(n) <= 64 /\ \A i \in 1..Len(n) : n[i] \in NameChars

-----------------------------------------------------------------------------
(* the tree: "exactly 1 root queue, added if missing" *)
TopLevel(c) == {i \in DOMAIN c.queues : c.queues[i].up = 0}
HasExplicitRoot(c) == Cardinality(TopLevel(c)) = 1 /\ \A i \in TopLevel(c) : SameName(c.queues[i].name, RootName)
ImpliedRoot == [name |-> RootName, up |-> 0, parent |-> TRUE, max |-> NoRes, guar |-> NoRes, maxApps |-> 0, limits |-> <<>>,
                tmpl |-> [max |-> NoRes, guar |-> NoRes, maxApps |-> 0]]
\* the queue sequence with the root at index 1 and every other queue below it
Tree(c) == IF HasExplicitRoot(c) THEN c.queues
           ELSE <<ImpliedRoot>> \o [i \in DOMAIN c.queues |-> [c.queues[i] EXCEPT !.up = @ + 1]]

Kids(T, i) == {j \in DOMAIN T : T[j].up = i}
RECURSIVE Anc(_, _)
Anc(T, i) == IF T[i].up = 0 THEN {} ELSE {T[i].up} \cup Anc(T, T[i].up)          \* proper ancestors
IsParentQ(T, i) == i = 1 \/ T[i].parent \/ Kids(T, i) # {}                       \* the parent flag is implied by children
IsLeafQ(T, i) == ~IsParentQ(T, i)

-----------------------------------------------------------------------------
(* resources *)
\* small fits in big; "a type missing from a max is unlimited"; a type missing from small asks for nothing
Within(small, big) == \A t \in DOMAIN small \cap DOMAIN big : small[t] <= big[t]
RECURSIVE KidSum(_, _, _, _)
KidSum(T, i, t, k) == IF k = 0 THEN 0      \* sum over the children of i of their own guaranteed quantity of type t (not defined = 0)
                      ELSE KidSum(T, i, t, k - 1) + (IF T[k].up = i /\ t \in DOMAIN T[k].guar THEN T[k].guar[t] ELSE 0)
KidGuar(T, i, t) == KidSum(T, i, t, Len(T))
AppsWithin(small, big) == big = 0 \/ (small # 0 /\ small <= big)                  \* queues: 0 = not limited ("undefined or zero ... not allowed")
\* limits: an entry without an application bound (0) below a bounded one is not judged (the messages only say "greater than")
\* limits: an entry without an application bound is unbounded, so it is not within a bounded entry of the same subject (all four
\* branches of checkLimitMaxApplications say so: "... || limitMaxApplications == 0")
LimitAppsWithin(small, big) == big = 0 \/ (small # 0 /\ small <= big)

-----------------------------------------------------------------------------
(* limits *)
Names(l, kind) == IF kind = "user" THEN l.users ELSE l.groups
Naming(T, a, kind, n) == {k \in DOMAIN T[a].limits : n \in Range(Names(T[a].limits[k], kind))}
\* the limit entries of queue a in force for the user / group n: its own entry, otherwise the wildcard entry
InForceNamed(T, a, kind, n)    == Naming(T, a, kind, n)
InForceWildcard(T, a, kind, n) == IF n # "*" /\ Naming(T, a, kind, n) = {} THEN Naming(T, a, kind, "*") ELSE {}
Subjects(T, i) == UNION {UNION {{<<kind, k, p>> : p \in DOMAIN Names(T[i].limits[k], kind)} : k \in DOMAIN T[i].limits} : kind \in {"user", "group"}}
Subject(T, i, s) == Names(T[i].limits[s[2]], s[1])[s[3]]
Before(s1, s2) == s1[2] < s2[2] \/ (s1[2] = s2[2] /\ s1[3] < s2[3])             \* document order inside one queue

LimitAncestorRule(T, resource, wildcard) ==      \* one of the four "within the limit in force on every ancestor" rules
    \A i \in DOMAIN T : \A s \in Subjects(T, i) : \A a \in Anc(T, i) :
        LET l == T[i].limits[s[2]]
            E == IF wildcard THEN InForceWildcard(T, a, s[1], Subject(T, i, s)) ELSE InForceNamed(T, a, s[1], Subject(T, i, s))
        IN \A k \in E : IF resource THEN Within(l.max, T[a].limits[k].max) ELSE LimitAppsWithin(l.maxApps, T[a].limits[k].maxApps)

-----------------------------------------------------------------------------
(* placement rules *)
KnownRules == {"provided", "user", "tag", "fixed"}
FilterTypes == {"", "allow", "deny"}
Qualified(v) == Len(v) >= 1 /\ SameName(v[1], RootName)          \* "starts with root." : the first path element is root
FilterOK(r) == /\ r.ftype \in FilterTypes
               /\ Len(r.fusers) = 1 => r.fusers[1].kind # "broken"
               /\ Len(r.fgroups) = 1 => r.fgroups[1].kind # "broken"

\* the leading fixed rules of a chain give the static path; Static(ch) = number of leading fixed rules that take part
RECURSIVE Static(_, _)
Static(ch, k) == IF k > Len(ch) \/ ch[k].name # "fixed" \/ (k > 1 /\ Qualified(ch[k].value)) THEN k - 1 ELSE Static(ch, k + 1)
RECURSIVE PathUpTo(_, _)
PathUpTo(ch, k) == IF k = 0 THEN <<>>
                   ELSE IF k = 1 THEN (IF Qualified(ch[1].value) THEN ch[1].value ELSE <<RootName>> \o ch[1].value)
                   ELSE PathUpTo(ch, k - 1) \o ch[k].value
StaticPath(ch) == PathUpTo(ch, Static(ch, 1))
Dynamic(ch) == Static(ch, 1) < Len(ch)                            \* a rule that yields a run-time name follows the static path
\* walk the path from the root: [at |-> deepest existing queue, missing |-> number of path elements that do not exist]
RECURSIVE Walk(_, _, _, _)
Walk(T, cur, path, k) ==
    IF k > Len(path) THEN [at |-> cur, missing |-> 0]
    ELSE LET S == {j \in Kids(T, cur) : SameName(T[j].name, path[k])}
         IN IF S = {} THEN [at |-> cur, missing |-> Len(path) - k + 1] ELSE Walk(T, CHOOSE j \in S : TRUE, path, k + 1)
Resolve(T, ch) == Walk(T, 1, StaticPath(ch), 2)

\* what the construction of the rule objects checks; the path rules below speak about chains that pass it
ChainWellFormed(ch) ==
    /\ \A k \in DOMAIN ch : ch[k].name \in KnownRules
    /\ \A k \in DOMAIN ch : ch[k].name \in {"fixed", "tag"} => Len(ch[k].value) >= 1
    /\ \A k \in DOMAIN ch : ch[k].name = "fixed" => \A p \in DOMAIN ch[k].value : ValidName(ch[k].value[p])
    /\ \A k \in DOMAIN ch : (k > 1 /\ ch[k].name = "fixed") => ~Qualified(ch[k].value)

ChainRule(T, ch, rule) ==
    LET n == Static(ch, 1)
        w == Resolve(T, ch)
        ok == ChainWellFormed(ch) /\ n >= 1
    IN CASE rule = "RuleNameKnown"        -> \A k \in DOMAIN ch : ch[k].name \in KnownRules
         [] rule = "RuleHasValue"         -> \A k \in DOMAIN ch : ch[k].name \in {"fixed", "tag"} => Len(ch[k].value) >= 1
         [] rule = "FixedValueNames"      -> \A k \in DOMAIN ch : ch[k].name = "fixed" => \A p \in DOMAIN ch[k].value : ValidName(ch[k].value[p])
         [] rule = "QualifiedFixedHasNoParent" -> \A k \in DOMAIN ch : (k > 1 /\ ch[k].name = "fixed") => ~Qualified(ch[k].value)
         [] rule = "FilterWellFormed"     -> \A k \in DOMAIN ch : FilterOK(ch[k])
         [] rule = "StaticPathTargetIsLeaf"   -> (ok /\ w.missing = 0 /\ ~Dynamic(ch)) => IsLeafQ(T, w.at)
         [] rule = "StaticPathTargetIsParent" -> (ok /\ w.missing = 0 /\ Dynamic(ch)) => IsParentQ(T, w.at)
         [] rule = "MissingPathCreatable"     -> (ok /\ w.missing > 0) => (ch[Len(ch)].create /\ IsParentQ(T, w.at))

\* witness for the pipeline's narrow matching of known findings: where the static path of every chain ends (index into Tree(c))
PathInfo(c) == [r \in DOMAIN c.rules |-> LET ch == c.rules[r]  w == Resolve(Tree(c), ch) IN
                   [static |-> Static(ch, 1), at |-> w.at, missing |-> w.missing, dynamic |-> Dynamic(ch), wellformed |-> ChainWellFormed(ch)]]

-----------------------------------------------------------------------------
(* the rules *)
Rule(c, rule) ==
    LET T == Tree(c) IN
    CASE rule = "QueueNameValid" -> \A i \in DOMAIN T : i > 1 => ValidName(T[i].name)
      [] rule = "SiblingNamesUnique" -> \A i, j \in DOMAIN T : (i # j /\ T[i].up = T[j].up) => ~SameName(T[i].name, T[j].name)
      [] rule = "RootWithoutResources" -> DOMAIN T[1].max = {} /\ DOMAIN T[1].guar = {}
      [] rule = "GuaranteedWithinMax" -> \A i \in DOMAIN T : Within(T[i].guar, T[i].max)
      [] rule = "MaxWithinParentMax" -> \A i \in DOMAIN T : i > 1 => Within(T[i].max, T[T[i].up].max)
      [] rule = "MaxWithinAncestorMax" -> \A i \in DOMAIN T : \A a \in Anc(T, i) : Within(T[i].max, T[a].max)
      [] rule = "ChildGuaranteedSumWithinParentGuaranteed" -> \A i \in DOMAIN T : \A t \in DOMAIN T[i].guar : KidGuar(T, i, t) <= T[i].guar[t]
      [] rule = "ChildGuaranteedSumWithinParentMax" -> \A i \in DOMAIN T : \A t \in DOMAIN T[i].max : KidGuar(T, i, t) <= T[i].max[t]
      [] rule = "MaxApplicationsNonIncreasing" -> \A i \in DOMAIN T : \A a \in Anc(T, i) : AppsWithin(T[i].maxApps, T[a].maxApps)
      [] rule = "LimitHasSubject" -> \A i \in DOMAIN T : \A k \in DOMAIN T[i].limits : Len(T[i].limits[k].users) + Len(T[i].limits[k].groups) > 0
      [] rule = "LimitHasBound" -> \A i \in DOMAIN T : \A k \in DOMAIN T[i].limits : T[i].limits[k].maxApps # 0 \/ DOMAIN T[i].limits[k].max # {}
      [] rule = "LimitResourcePositive" -> \A i \in DOMAIN T : \A k \in DOMAIN T[i].limits : LET m == T[i].limits[k].max IN
                                              DOMAIN m # {} => ((\A t \in DOMAIN m : m[t] >= 0) /\ (\E t \in DOMAIN m : m[t] > 0))
      [] rule = "LimitSubjectUnique" -> \A i \in DOMAIN T : \A s1, s2 \in Subjects(T, i) : (s1 # s2 /\ s1[1] = s2[1]) => Subject(T, i, s1) # Subject(T, i, s2)
      [] rule = "LimitWildcardLast" -> \A i \in DOMAIN T : \A s1, s2 \in Subjects(T, i) :
                                              (s1[1] = s2[1] /\ Subject(T, i, s1) = "*" /\ Subject(T, i, s2) # "*") => ~Before(s1, s2)
      [] rule = "LimitWildcardGroupNotAlone" -> \A i \in DOMAIN T : Naming(T, i, "group", "*") # {} => \E s \in Subjects(T, i) : s[1] = "group" /\ Subject(T, i, s) # "*"
      [] rule = "LimitResourceWithinQueueMax" -> \A i \in DOMAIN T : \A k \in DOMAIN T[i].limits : Within(T[i].limits[k].max, T[i].max)
      [] rule = "LimitApplicationsWithinQueueMax" -> \A i \in DOMAIN T : \A k \in DOMAIN T[i].limits : T[i].maxApps = 0 \/ T[i].limits[k].maxApps <= T[i].maxApps
      [] rule = "LimitResourceWithinAncestorNamed" -> LimitAncestorRule(T, TRUE, FALSE)
      [] rule = "LimitResourceWithinAncestorWildcard" -> LimitAncestorRule(T, TRUE, TRUE)
      [] rule = "LimitApplicationsWithinAncestorNamed" -> LimitAncestorRule(T, FALSE, FALSE)
      [] rule = "LimitApplicationsWithinAncestorWildcard" -> LimitAncestorRule(T, FALSE, TRUE)
      [] OTHER -> \A r \in DOMAIN c.rules : ChainRule(T, c.rules[r], rule)

QueueRules == {"QueueNameValid", "SiblingNamesUnique", "RootWithoutResources", "GuaranteedWithinMax", "MaxWithinParentMax", "MaxWithinAncestorMax",
               "ChildGuaranteedSumWithinParentGuaranteed", "ChildGuaranteedSumWithinParentMax", "MaxApplicationsNonIncreasing"}
LimitRules == {"LimitHasSubject", "LimitHasBound", "LimitResourcePositive", "LimitSubjectUnique", "LimitWildcardLast", "LimitWildcardGroupNotAlone",
               "LimitResourceWithinQueueMax", "LimitApplicationsWithinQueueMax", "LimitResourceWithinAncestorNamed", "LimitResourceWithinAncestorWildcard",
               "LimitApplicationsWithinAncestorNamed", "LimitApplicationsWithinAncestorWildcard"}
PlacementRules == {"RuleNameKnown", "RuleHasValue", "FixedValueNames", "QualifiedFixedHasNoParent", "FilterWellFormed",
                   "StaticPathTargetIsLeaf", "StaticPathTargetIsParent", "MissingPathCreatable"}
AllRules == QueueRules \cup LimitRules \cup PlacementRules

Violated(c) == {r \in AllRules : ~Rule(c, r)}
SpecValid(c) == Violated(c) = {}

-----------------------------------------------------------------------------
(* ambiguous sub-cases (see the head of the module) *)
Ambiguities(c) ==
    LET T == Tree(c)
        Types == UNION {DOMAIN T[i].guar : i \in DOMAIN T}
    IN {a \in {"GuaranteedTypeMissingInParent", "CreateFlagsDifferInChain", "DottedUnqualifiedValue"} :
          CASE a = "GuaranteedTypeMissingInParent" ->
                  \E i \in DOMAIN T : DOMAIN T[i].guar # {} /\ \E t \in Types \ DOMAIN T[i].guar : KidGuar(T, i, t) > 0
            [] a = "CreateFlagsDifferInChain" ->
                  \E r \in DOMAIN c.rules : LET ch == c.rules[r] IN
                      Static(ch, 1) >= 1 /\ Resolve(T, ch).missing > 0 /\ \E k \in DOMAIN ch : ch[k].create # ch[Len(ch)].create
            [] a = "DottedUnqualifiedValue" ->
                  \E r \in DOMAIN c.rules : LET ch == c.rules[r] IN
                      \E k \in 1..Static(ch, 1) : ~Qualified(ch[k].value) /\ Len(ch[k].value) > 1 /\
                          LET w == Walk(T, 1, PathUpTo(ch, k - 1) \o (IF k = 1 THEN <<RootName>> ELSE <<>>) \o <<ch[k].value[1]>>, 2) IN w.missing = 0}
=============================================================================
