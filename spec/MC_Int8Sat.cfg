INIT Init
NEXT Next
INVARIANT Obligations
