\* exhaustive: every ordered pair of configurations of a family x the fixed usage script
SPECIFICATION PairSpec
CONSTANTS
 Paths <- MCPaths
 Parent <- MCParent
 Leaves <- MCLeaves
 Users <- MCUsers
 Groups <- MCGroups
 UserGroups <- MCUserGroups
 Types <- MCTypes
 Apps <- MCApps
 ResChoices <- MCResChoices
 MaxAppsLimit = 2
 MaxConf = 2
 MaxSteps = 9
 MaxEdits = 0
 MaxMem = 6
 Clean = FALSE
 MixedCase = TRUE
 FamValues <- FamValues3
 Family = "user"
INVARIANT MCTypeOK
INVARIANT AdmittedStaysWithin
INVARIANT EmitBeh
CHECK_DEADLOCK FALSE
