------------------------------ MODULE YuniKorn ------------------------------
(* Generative specification of the yunikorn-core scheduling pipeline (one partition).                         *)
(*                                                                                                          *)
(* One action per critical section of the implementation, environment (shim) actions and scheduler outcomes  *)
(* separate, multi-step events as several actions:                                                          *)
(*   environment : AddNode RemoveNode Drain Undrain AddApp RemoveApp AddAsk ReleaseKey ReleaseAll Confirm(i)  *)
(*                 FirePhTimer FireStateTimer Deny (the shim's predicates refuse an ask on a node)            *)
(*   scheduler   : Allocate (tryAllocate/tryReservedAllocate + partition.allocate)  Reserve  Unreserve       *)
(*                 ReplaceSame / ReplaceCross (tryPlaceholderAllocate)  -> ConfirmReplace (shim confirmation) *)
(* The scheduler is nondeterministic: any decision the guards (NodeFit, QueueFit, ReservedForOther, gang      *)
(* rules) permit may be taken.  The books (node ledger, queue ledger) are explicit variables updated by each  *)
(* action the way the code updates them, so conservation is a real invariant, not a definition.              *)
(*                                                                                                          *)
(* AsCoded = TRUE models what the code does in the corners that are genuine, unrepaired defects              *)
(* (KNOWN_FINDINGS.json); TLC then produces the counter-examples that the conformance harness replays on the *)
(* real code.  AsCoded = FALSE models the intended behaviour: all invariants hold.                            *)
(* hist records the ENVIRONMENT operations only ("schedule" = run one cycle): it is the test the harness     *)
(* replays against the real core (pipeline B), every step of which is then validated by YKTrace.tla.         *)
EXTENDS Integers, Sequences, FiniteSets, FiniteSetsExt, TLC, Json

CONSTANTS Nodes, Apps, Keys,       \* identifiers (strings)
          Caps, Sizes,             \* node capacities / ask sizes to choose from (single resource type "memory")
          Leaves, QMax,            \* leaf queue paths and their configured maximum (0 = none)
          AppLeaf,                 \* [Apps -> Leaves]
          TaskGroups,              \* task group names for gang applications
          GangApps,                \* subset of Apps submitted as gang applications (Soft style)
          Guar,                    \* [Leaves -> Nat] guaranteed resource of the leaf queues (0 = none)
          PreemptOn,               \* BOOLEAN: queue preemption enabled (the Preempt action)
          WithRestart,             \* BOOLEAN: the core may crash and be restarted (the Restart action)
          AsCoded,                 \* BOOLEAN, see above
          MaxHist                  \* bound on the recorded history

VARIABLES node,   \* [Nodes -> [reg, sched : BOOLEAN, cap : Nat, keys : SUBSET Keys]]   keys = allocations held by the node object
          ask,    \* [Keys -> [st, app, size, ph, tg, node, rel, released, listed]]
                  \*   st: "none" | "pend" (in requests, not allocated) | "alloc" (in requests, allocated flag set)
                  \*       | "ghost" (removed from requests while another object still points at it)
                  \*   listed: in the application's allocations map;  rel: key of the swap partner or ""
          app,    \* [Apps -> [st : app state, known : BOOLEAN]]
          qal,    \* [Leaves -> Nat]  allocated ledger of the leaf queues
          resv,   \* SUBSET (Keys \X Nodes)
          sv,     \* [Keys -> {"none","out","bound","relAnn"}]  the shim's view of each key
          pend,   \* sequence of core initiated releases [key, term] the shim has not confirmed yet
          bad,    \* set of illegal announcements made so far (C04)
          den,    \* SUBSET (Keys \X Nodes): the shim's predicates refuse this ask on this node (kept for the life of the key name)
          pq,     \* [Leaves -> Nat]  "preempting" ledger of the leaf queues: allocations marked as preemption victims, not yet released
          hist
vars == <<node, ask, app, qal, resv, sv, pend, bad, den, pq, hist>>
view == <<node, ask, app, qal, resv, sv, pend, bad, den, pq>>

NoNode == "-"
NoAsk == [st |-> "none", app |-> CHOOSE a \in Apps : TRUE, size |-> 0, ph |-> FALSE, tg |-> "", node |-> NoNode, rel |-> "", released |-> FALSE, listed |-> FALSE, pre |-> FALSE, trig |-> FALSE]
Sum(S, f(_)) == FoldSet(LAMBDA x, acc : acc + f(x), 0, S)
HH(r) == hist' = IF Len(hist) < MaxHist THEN Append(hist, r) ELSE hist
HQ(r) == HH(r) /\ UNCHANGED den       \* every action but Deny leaves the predicate outcomes alone
H(r) == HQ(r) /\ UNCHANGED pq         \* ... and only the actions that mark or remove preemption victims touch the preempting ledger
\* the preempting ledger after the listed allocations K have gone
PqLess(K) == [q \in Leaves |-> pq[q] - Sum({k \in K : ask[k].listed /\ ask[k].pre /\ AppLeaf[ask[k].app] = q}, LAMBDA k : ask[k].size)]
Res(n) == [memory |-> n]

Init == /\ node = [n \in Nodes |-> [reg |-> FALSE, sched |-> FALSE, cap |-> 0, keys |-> {}]]
        /\ ask = [k \in Keys |-> NoAsk]
        /\ app = [a \in Apps |-> [st |-> "none", known |-> FALSE]]
        /\ qal = [q \in Leaves |-> 0]
        /\ resv = {} /\ sv = [k \in Keys |-> "none"] /\ pend = <<>> /\ bad = {} /\ den = {} /\ pq = [q \in Leaves |-> 0]
        /\ hist = <<>>

(* ------------------------------------------------------------------ derived *)
Live(a) == app[a].st \in {"New", "Accepted", "Running", "Completing", "Resuming"}
InReq(k) == ask[k].st \in {"pend", "alloc"}
NodeUsed(n) == Sum(node[n].keys, LAMBDA k : ask[k].size)
NodeAvail(n) == node[n].cap - NodeUsed(n)
Total == Sum({n \in Nodes : node[n].reg}, LAMBDA n : node[n].cap)
RootAlloc == Sum(Leaves, LAMBDA q : qal[q])
AppKeys(a) == {k \in Keys : ask[k].app = a /\ ask[k].st # "none"}
Listed(a) == {k \in AppKeys(a) : ask[k].listed}
Pending(a) == {k \in AppKeys(a) : ask[k].st = "pend"}
RealListed(a) == {k \in Listed(a) : ~ask[k].ph}
PhListed(a) == {k \in Listed(a) : ask[k].ph}
\* the real half of an in-flight swap
InFlight == {k \in Keys : ask[k].st \in {"alloc", "ghost"} /\ ~ask[k].ph /\ ask[k].rel # "" /\ ~ask[k].listed}

(* ------------------------------------------------------------------ guards (one per concern) *)
NodeFit(k, n) == node[n].reg /\ node[n].sched /\ ask[k].size <= NodeAvail(n)
ReservedForOther(k, n) == \E r \in resv : r[2] = n /\ r[1] # k
QueueFit(k) == LET q == AppLeaf[ask[k].app] IN
               /\ (QMax[q] > 0 => qal[q] + ask[k].size <= QMax[q])
               /\ RootAlloc + ask[k].size <= Total

(* ------------------------------------------------------------------ application life cycle (coarse) *)
\* state after the application lost an ask/allocation: Completing when nothing at all is left
AfterLoss(a, askF, st) ==
      LET mine == {k \in Keys : askF[k].app = a /\ askF[k].st \in {"pend", "alloc"}}
          pendingLeft == {k \in mine : askF[k].st = "pend"}
          realLeft == {k \in mine : askF[k].listed /\ ~askF[k].ph}
          phLeft == {k \in mine : askF[k].listed /\ askF[k].ph} IN
      IF st \in {"Accepted", "Running"} /\ pendingLeft = {} /\ realLeft = {} /\ phLeft = {} THEN "Completing" ELSE st

(* ------------------------------------------------------------------ protocol bookkeeping *)
Announce(k) == \* the core announces a new allocation for k
      /\ sv' = [sv EXCEPT ![k] = "bound"]
      /\ bad' = IF sv[k] = "out" /\ app[ask[k].app].known THEN bad ELSE bad \cup {<<"alloc", k>>}
AnnounceRelease(K, term) == \* the core announces releases for the keys K (sequence)
      /\ bad' = bad \cup {<<"release", K[i]>> : i \in {j \in 1..Len(K) : sv[K[j]] = "none"}}
      /\ IF term = "STOPPED_BY_RM"
         THEN sv' = [k \in Keys |-> IF \E i \in 1..Len(K) : K[i] = k THEN "none" ELSE sv[k]] /\ UNCHANGED pend
         ELSE /\ sv' = [k \in Keys |-> IF \E i \in 1..Len(K) : K[i] = k /\ sv[k] # "none" THEN "relAnn" ELSE sv[k]]
              /\ pend' = pend \o [i \in 1..Len(K) |-> [key |-> K[i], term |-> term]]
SetToSeq(S) == CHOOSE s \in [1..Cardinality(S) -> S] : \A i, j \in 1..Cardinality(S) : i # j => s[i] # s[j]

(* ================================================================== environment actions *)
AddNode(n, c) == /\ ~node[n].reg
                 /\ node' = [node EXCEPT ![n] = [reg |-> TRUE, sched |-> TRUE, cap |-> c, keys |-> {}]]
                 /\ UNCHANGED <<ask, app, qal, resv, sv, pend, bad>>
                 /\ H([op |-> "addNode", node |-> n, cap |-> Res(c), drained |-> FALSE])
Drain(n) == /\ node[n].reg /\ node[n].sched
            /\ node' = [node EXCEPT ![n].sched = FALSE]
            /\ UNCHANGED <<ask, app, qal, resv, sv, pend, bad>> /\ H([op |-> "drain", node |-> n])
Undrain(n) == /\ node[n].reg /\ ~node[n].sched
              /\ node' = [node EXCEPT ![n].sched = TRUE]
              /\ UNCHANGED <<ask, app, qal, resv, sv, pend, bad>> /\ H([op |-> "undrain", node |-> n])

\* the shim's predicates (affinity, taints, ...) refuse the ask on the node from now on
Deny(k, n) == /\ ask[k].st = "pend" /\ ~ask[k].ph /\ <<k, n>> \notin den
              /\ den' = den \cup {<<k, n>>}
              /\ UNCHANGED <<node, ask, app, qal, resv, sv, pend, bad, pq>> /\ HH([op |-> "deny", key |-> k, node |-> n])

\* removeNode / removeNodeAllocations: every allocation held by the node object is removed from its application
\* and queue; an in-flight swap touching the node is confirmed (placeholder here, real elsewhere) or reversed.
RemoveNode(n) ==
   /\ node[n].reg
   /\ LET onNode == node[n].keys
          \* placeholders on this node whose real half sits on ANOTHER node: the swap is confirmed right away
          crossPh == {k \in onNode : ask[k].ph /\ ask[k].rel # "" /\ ask[k].listed /\ ask[ask[k].rel].node # n}
          confirmedReal == {ask[k].rel : k \in crossPh}
          \* swaps that are reversed: placeholder here with real on the same node, or the real half (cross) sits here
          revPh == {k \in onNode : ask[k].ph /\ ask[k].rel # "" /\ ask[k].listed /\ ask[ask[k].rel].node = n}
          revRealHere == {k \in onNode : ~ask[k].ph /\ ask[k].rel # "" /\ ~ask[k].listed}
          realsReversed == {ask[k].rel : k \in revPh} \cup revRealHere
          removedListed == {k \in onNode : ask[k].listed}                  \* released to the shim (STOPPED_BY_RM)
          askF == [k \in Keys |->
                     IF k \in crossPh THEN [ask[k] EXCEPT !.listed = FALSE, !.st = IF ask[k].st = "alloc" THEN "alloc" ELSE ask[k].st, !.rel = ""]
                     ELSE IF k \in confirmedReal THEN [ask[k] EXCEPT !.listed = TRUE, !.rel = ""]
                     ELSE IF k \in realsReversed THEN [ask[k] EXCEPT !.st = IF ask[k].st = "ghost" THEN "ghost" ELSE "pend", !.node = NoNode, !.rel = ""]
                     ELSE IF k \in onNode /\ ask[k].listed THEN [ask[k] EXCEPT !.listed = FALSE, !.rel = ""]   \* request stays, flagged allocated
                     ELSE IF ask[k].rel \in onNode /\ ask[k].rel # "" THEN [ask[k] EXCEPT !.rel = ""]
                     ELSE ask[k]]
          rel == SetToSeq(removedListed) IN
      /\ node' = [m \in Nodes |-> IF m = n THEN [reg |-> FALSE, sched |-> FALSE, cap |-> 0, keys |-> {}]
                                   ELSE node[m]]
      /\ ask' = askF
      \* queue ledger: every removed listed allocation is subtracted; a confirmed cross swap subtracts ph - real
      /\ qal' = [q \in Leaves |-> qal[q]
                    - Sum({k \in removedListed \ crossPh : AppLeaf[ask[k].app] = q}, LAMBDA k : ask[k].size)
                    - Sum({k \in crossPh : AppLeaf[ask[k].app] = q}, LAMBDA k : ask[k].size - ask[ask[k].rel].size)]
      /\ resv' = {r \in resv : r[2] # n}
      /\ app' = [a \in Apps |-> [app[a] EXCEPT !.st = AfterLoss(a, askF, app[a].st)]]
      \* announcements: releases for everything removed, new allocation for every confirmed real half
      /\ LET b1 == {<<"release", rel[i]>> : i \in {j \in 1..Len(rel) : sv[rel[j]] = "none"}}
             b2 == {<<"alloc", k>> : k \in {x \in confirmedReal : sv[x] # "out"}} IN
         bad' = bad \cup b1 \cup b2
      /\ sv' = [k \in Keys |-> IF k \in removedListed THEN "none" ELSE IF k \in confirmedReal THEN "bound" ELSE sv[k]]
      /\ pend' = SelectSeq(pend, LAMBDA p : p.key \notin removedListed)
      /\ pq' = PqLess(removedListed)
   /\ HQ([op |-> "removeNode", node |-> n])

AddApp(a) == /\ app[a].st = "none"
             /\ app' = [app EXCEPT ![a] = [st |-> "New", known |-> TRUE]]
             /\ UNCHANGED <<node, ask, qal, resv, sv, pend, bad>>
             /\ H([op |-> "addApp", app |-> a, queue |-> AppLeaf[a], user |-> "u0", groups |-> <<"g1">>, tags |-> [x \in {} |-> ""],
                   gang |-> a \in GangApps, style |-> IF a \in GangApps THEN "Soft" ELSE "", phAsk |-> Res(4), forced |-> FALSE])

\* removeApplication: asks gone, allocations removed from the nodes, queue ledger reduced by what was listed
RemoveApp(a) ==
   /\ Live(a)
   /\ LET mine == AppKeys(a)
          listed == Listed(a)
          rel == SetToSeq(listed) IN
      /\ ask' = [k \in Keys |-> IF k \in mine THEN NoAsk ELSE ask[k]]
      \* (the in-flight real half of a swap, not listed yet, leaves its node as well: repaired in the code, FX-C03-REMOVEAPP-INFLIGHT-REAL)
      /\ node' = [n \in Nodes |-> [node[n] EXCEPT !.keys = node[n].keys \ mine]]
      /\ qal' = [qal EXCEPT ![AppLeaf[a]] = qal[AppLeaf[a]] - Sum(listed, LAMBDA k : ask[k].size)]
      /\ resv' = {r \in resv : r[1] \notin mine}
      /\ app' = [app EXCEPT ![a] = [st |-> "none", known |-> FALSE]]
      /\ bad' = bad \cup {<<"release", rel[i]>> : i \in {j \in 1..Len(rel) : sv[rel[j]] = "none"}}
      /\ sv' = [k \in Keys |-> IF k \in mine THEN "none" ELSE sv[k]]
      /\ pend' = SelectSeq(pend, LAMBDA p : p.key \notin mine)
      /\ pq' = PqLess(listed)
   /\ HQ([op |-> "removeApp", app |-> a])

\* a release without an allocation key: every allocation and every ask of the application goes (the application stays);
\* an in-flight swap is undone with the placeholder, its real half leaves the node it was placed on
ReleaseAll(a) ==
   /\ Live(a) /\ AppKeys(a) # {}
   /\ LET mine == AppKeys(a)
          listed == Listed(a)
          rel == SetToSeq(listed) IN
      /\ ask' = [k \in Keys |-> IF k \in mine THEN NoAsk ELSE ask[k]]
      /\ node' = [n \in Nodes |-> [node[n] EXCEPT !.keys = node[n].keys \ mine]]
      /\ qal' = [qal EXCEPT ![AppLeaf[a]] = qal[AppLeaf[a]] - Sum(listed, LAMBDA k : ask[k].size)]
      /\ resv' = {r \in resv : r[1] \notin mine}
      /\ app' = [app EXCEPT ![a].st = IF @ \in {"Accepted", "Running"} THEN "Completing" ELSE @]
      /\ bad' = bad \cup {<<"release", rel[i]>> : i \in {j \in 1..Len(rel) : sv[rel[j]] = "none"}}
      /\ sv' = [k \in Keys |-> IF k \in mine THEN "none" ELSE sv[k]]
      /\ pend' = SelectSeq(pend, LAMBDA p : p.key \notin mine)
      /\ pq' = PqLess(listed)
   /\ HQ([op |-> "releaseAll", app |-> a])

\* key names are interchangeable: a new ask always takes the first free name (fewer equivalent histories, same behaviours)
KeyRank == CHOOSE f \in [Keys -> 1..Cardinality(Keys)] : \A x, y \in Keys : x # y => f[x] # f[y]
FreeKeys == {x \in Keys : ask[x].st = "none" /\ sv[x] = "none"}
AddAsk(k, a, s, ph, tg) ==
   /\ ask[k].st = "none" /\ sv[k] = "none" /\ Live(a)
   /\ \A x \in FreeKeys : KeyRank[k] <= KeyRank[x]
   /\ (ph => a \in GangApps /\ tg # "")
   /\ (tg # "" => a \in GangApps)
   /\ ask' = [ask EXCEPT ![k] = [st |-> "pend", app |-> a, size |-> s, ph |-> ph, tg |-> tg, node |-> NoNode, rel |-> "", released |-> FALSE, listed |-> FALSE, pre |-> FALSE, trig |-> FALSE]]
   /\ app' = [app EXCEPT ![a].st = IF app[a].st = "New" THEN "Accepted" ELSE IF app[a].st = "Completing" THEN "Running" ELSE app[a].st]
   /\ sv' = [sv EXCEPT ![k] = "out"]
   /\ UNCHANGED <<node, qal, resv, pend, bad>>
   /\ H([op |-> "addAsk", app |-> a, key |-> k, res |-> Res(s), ph |-> ph, tg |-> tg, aged |-> TRUE, reqNode |-> "", prio |-> 0,
         preemptOther |-> PreemptOn, preemptSelf |-> TRUE, originator |-> FALSE, node |-> ""])

\* shim initiated release of a key (STOPPED_BY_RM): removeAllocation + RemoveAllocationAsk
ReleaseKey(k) ==
   /\ sv[k] \in {"out", "bound"} /\ ask[k].st # "none"
   /\ LET a == ask[k].app
          wasListed == ask[k].listed
          linked == ask[k].rel # ""
          partner == ask[k].rel
          \* the swap partner: the swap is cancelled (the code used to leave the partner alone: repaired, FX-C04-RELEASE-LINKED-REAL
          \* and FX-C06-PH-RELEASED-INFLIGHT)
          askF == [x \in Keys |->
                     IF x = k THEN NoAsk
                     ELSE IF linked /\ x = partner
                          THEN (IF ask[x].ph THEN [ask[x] EXCEPT !.rel = "", !.released = FALSE]           \* placeholder free again
                                ELSE [ask[x] EXCEPT !.rel = "", !.st = "pend", !.node = NoNode])            \* real ask rescheduled
                     ELSE ask[x]] IN
      /\ ask' = askF
      /\ node' = [n \in Nodes |-> [node[n] EXCEPT !.keys =
                     IF wasListed THEN (IF linked /\ ask[k].ph THEN (node[n].keys \ {k}) \ {partner} ELSE node[n].keys \ {k})
                     ELSE node[n].keys \ {k}]]
      /\ qal' = IF wasListed THEN [qal EXCEPT ![AppLeaf[a]] = qal[AppLeaf[a]] - ask[k].size] ELSE qal
      /\ resv' = {r \in resv : r[1] # k}
      /\ app' = [app EXCEPT ![a].st = AfterLoss(a, askF, app[a].st)]
      /\ IF wasListed THEN AnnounceRelease(<<k>>, "STOPPED_BY_RM") ELSE (sv' = [sv EXCEPT ![k] = "none"] /\ UNCHANGED <<pend, bad>>)
   /\ pq' = PqLess({k})
   /\ HQ([op |-> "release", app |-> ask[k].app, key |-> k, term |-> "STOPPED_BY_RM"])

\* the shim confirms the i-th outstanding core initiated release
ConfirmReplace(ph) ==
   LET real == ask[ph].rel
       a == ask[ph].app
       sameNode == ask[real].node = ask[ph].node
       askF == [x \in Keys |-> IF x = ph THEN NoAsk
                               ELSE IF x = real THEN [ask[x] EXCEPT !.listed = TRUE, !.rel = "", !.st = "alloc"]
                               ELSE ask[x]] IN
   /\ ask' = askF
   /\ node' = [n \in Nodes |-> [node[n] EXCEPT !.keys =
                  IF n = ask[ph].node THEN (IF sameNode THEN (node[n].keys \ {ph}) \cup {real} ELSE node[n].keys \ {ph}) ELSE node[n].keys]]
   /\ qal' = [qal EXCEPT ![AppLeaf[a]] = qal[AppLeaf[a]] - (ask[ph].size - ask[real].size)]
   /\ app' = [app EXCEPT ![a].st = IF app[a].st \in {"Accepted", "Completing"} THEN "Running" ELSE app[a].st]
   /\ bad' = IF sv[real] = "out" THEN bad ELSE bad \cup {<<"alloc", real>>}
   /\ sv' = [sv EXCEPT ![ph] = "none", ![real] = "bound"]
   /\ UNCHANGED resv
ConfirmTimeout(k) ==   \* TIMEOUT confirmation: the placeholder allocation is removed for real
   LET a == ask[k].app
       askF == [ask EXCEPT ![k] = NoAsk] IN
   /\ ask' = askF
   /\ node' = [n \in Nodes |-> [node[n] EXCEPT !.keys = node[n].keys \ {k}]]
   /\ qal' = IF ask[k].listed THEN [qal EXCEPT ![AppLeaf[a]] = qal[AppLeaf[a]] - ask[k].size] ELSE qal
   /\ app' = [app EXCEPT ![a].st = IF app[a].st = "Resuming" /\ {x \in Keys : askF[x].app = a /\ askF[x].listed /\ askF[x].ph} = {} THEN "Accepted"
                                   ELSE AfterLoss(a, askF, app[a].st)]
   /\ sv' = [sv EXCEPT ![k] = "none"]
   /\ UNCHANGED <<resv, bad>>
Confirm(i) ==
   /\ i \in 1..Len(pend)
   /\ LET p == pend[i] IN
      /\ pend' = [j \in 1..(Len(pend) - 1) |-> IF j < i THEN pend[j] ELSE pend[j + 1]]
      /\ IF ask[p.key].st = "none" \/ ~ask[p.key].listed
         THEN /\ UNCHANGED <<node, ask, app, qal, resv, bad>>            \* late / duplicate confirmation: nothing left to do
              /\ sv' = [sv EXCEPT ![p.key] = IF sv[p.key] = "relAnn" THEN "none" ELSE sv[p.key]]
         ELSE IF p.term = "PLACEHOLDER_REPLACED" /\ ask[p.key].rel # "" THEN ConfirmReplace(p.key)
         ELSE IF p.term = "TIMEOUT" THEN ConfirmTimeout(p.key)
         ELSE IF p.term = "PREEMPTED_BY_SCHEDULER" THEN ConfirmTimeout(p.key)      \* the victim is removed for real, same bookkeeping
         ELSE UNCHANGED <<node, ask, app, qal, resv, sv, bad>>
      /\ pq' = IF ask[p.key].st # "none" /\ ask[p.key].listed /\ p.term = "PREEMPTED_BY_SCHEDULER" THEN PqLess({p.key}) ELSE pq
      /\ HQ([op |-> "confirm", i |-> i - 1, keep |-> FALSE])

\* placeholder timeout of a Soft gang application that has no real allocation yet
FirePhTimer(a) ==
   /\ a \in GangApps /\ app[a].st = "Accepted" /\ PhListed(a) # {} /\ RealListed(a) = {}
   /\ LET \* as coded every placeholder allocation is released with TIMEOUT, also one whose replacement is in flight
          \* (it is then announced twice, with two termination types); intended: an in-flight swap is left alone
          victims == IF AsCoded THEN {k \in PhListed(a) : ~ask[k].pre} ELSE {k \in PhListed(a) : ask[k].rel = "" /\ ~ask[k].pre}
          rel == SetToSeq(victims)
          askF == [k \in Keys |-> IF ask[k].app = a /\ ask[k].st = "pend" /\ ask[k].ph THEN NoAsk
                                  ELSE IF k \in victims THEN [ask[k] EXCEPT !.released = TRUE] ELSE ask[k]] IN
      /\ ask' = askF
      /\ app' = [app EXCEPT ![a].st = "Resuming"]
      /\ resv' = {r \in resv : askF[r[1]].st # "none"}
      /\ AnnounceRelease(rel, "TIMEOUT")
      /\ UNCHANGED <<node, qal>>
   /\ H([op |-> "firePhTimer", app |-> a])
FireStateTimer(a) ==
   /\ app[a].st = "Completing" /\ Listed(a) = {}
   /\ app' = [app EXCEPT ![a] = [st |-> "none", known |-> FALSE]]
   /\ ask' = [k \in Keys |-> IF ask[k].app = a /\ ask[k].st # "none" THEN NoAsk ELSE ask[k]]
   /\ sv' = [k \in Keys |-> IF ask[k].app = a /\ ask[k].st # "none" THEN "none" ELSE sv[k]]
   /\ UNCHANGED <<node, qal, resv, pend, bad>>
   /\ H([op |-> "fireStateTimer", app |-> a])

(* ================================================================== scheduler outcomes of one cycle *)
Sched == H([op |-> "schedule"])
Schedulable(a) == app[a].st \in {"Accepted", "Running", "Completing", "Resuming"}
Allocate(k, n) ==
   /\ ask[k].st = "pend" /\ Schedulable(ask[k].app)
   /\ NodeFit(k, n) /\ ~ReservedForOther(k, n) /\ QueueFit(k) /\ <<k, n>> \notin den
   /\ ask' = [ask EXCEPT ![k] = [@ EXCEPT !.st = "alloc", !.node = n, !.listed = TRUE]]
   /\ node' = [node EXCEPT ![n].keys = @ \cup {k}]
   /\ qal' = [qal EXCEPT ![AppLeaf[ask[k].app]] = @ + ask[k].size]
   /\ resv' = {r \in resv : r[1] # k}
   /\ app' = [app EXCEPT ![ask[k].app].st = IF ask[k].ph THEN @ ELSE "Running"]
   /\ Announce(k) /\ UNCHANGED pend /\ Sched
Reserve(k, n) ==
   /\ ask[k].st = "pend" /\ Schedulable(ask[k].app) /\ node[n].reg /\ node[n].sched /\ QueueFit(k)
   /\ ask[k].size <= node[n].cap /\ ~NodeFit(k, n) /\ <<k, n>> \notin den
   /\ \A r \in resv : r[1] # k /\ r[2] # n
   /\ resv' = resv \cup {<<k, n>>}
   /\ UNCHANGED <<node, ask, app, qal, sv, pend, bad>> /\ Sched
CanReplace(ph, real) ==
   /\ ask[ph].listed /\ ask[ph].ph /\ ~ask[ph].released /\ ~ask[ph].pre /\ ask[ph].rel = ""
   /\ ask[real].st = "pend" /\ ~ask[real].ph /\ ask[real].app = ask[ph].app /\ ask[real].tg = ask[ph].tg /\ ask[real].tg # ""
   /\ ask[real].size <= ask[ph].size /\ Schedulable(ask[ph].app)
ReplaceSame(ph, real) ==
   /\ CanReplace(ph, real) /\ node[ask[ph].node].reg /\ <<real, ask[ph].node>> \notin den
   /\ ask' = [ask EXCEPT ![real] = [@ EXCEPT !.st = "alloc", !.node = ask[ph].node, !.rel = ph],
                         ![ph] = [@ EXCEPT !.rel = real, !.released = TRUE]]
   /\ AnnounceRelease(<<ph>>, "PLACEHOLDER_REPLACED")
   \* as coded the real ask keeps a reservation it may hold until the next reserved-allocation cycle cleans it up
   /\ resv' = IF AsCoded THEN resv ELSE {r \in resv : r[1] # real}
   /\ UNCHANGED <<node, app, qal>> /\ Sched
ReplaceCross(ph, real, n) ==
   /\ CanReplace(ph, real) /\ n # ask[ph].node /\ NodeFit(real, n) /\ ~ReservedForOther(real, n) /\ <<real, n>> \notin den
   /\ ask' = [ask EXCEPT ![real] = [@ EXCEPT !.st = "alloc", !.node = n, !.rel = ph],
                         ![ph] = [@ EXCEPT !.rel = real, !.released = TRUE]]
   /\ node' = [node EXCEPT ![n].keys = @ \cup {real}]
   /\ AnnounceRelease(<<ph>>, "PLACEHOLDER_REPLACED")
   /\ resv' = IF AsCoded THEN resv ELSE {r \in resv : r[1] # real}
   /\ UNCHANGED <<app, qal>> /\ Sched
\* The core crashes and a new one is started: the shim replays what IT knows - its nodes, its applications (force-create), the
\* allocations it holds (bound, also those the old core had asked it to release without being answered yet) and its
\* outstanding asks.  Everything the old core knew beyond that is gone: swap links, victim marks, reservations, pending
\* confirmations; an in-flight real half of a swap is just an outstanding ask again.
Restart ==
   /\ \E n \in Nodes : node[n].reg
   /\ LET held == {k \in Keys : sv[k] \in {"bound", "relAnn"} /\ ask[k].st # "none" /\ ask[k].node \in Nodes /\ node[ask[k].node].reg /\ app[ask[k].app].known}
          out == {k \in Keys : sv[k] = "out" /\ ask[k].st # "none" /\ app[ask[k].app].known}
          askF == [k \in Keys |-> IF k \in held THEN [ask[k] EXCEPT !.st = "alloc", !.listed = TRUE, !.rel = "", !.released = FALSE, !.pre = FALSE, !.trig = FALSE]
                                  ELSE IF k \in out THEN [ask[k] EXCEPT !.st = "pend", !.listed = FALSE, !.node = NoNode, !.rel = "", !.released = FALSE, !.pre = FALSE, !.trig = FALSE]
                                  ELSE NoAsk] IN
      /\ ask' = askF
      /\ node' = [n \in Nodes |-> [node[n] EXCEPT !.keys = {k \in held : ask[k].node = n}]]
      /\ qal' = [q \in Leaves |-> Sum({k \in held : AppLeaf[ask[k].app] = q}, LAMBDA k : ask[k].size)]
      /\ pq' = [q \in Leaves |-> 0]
      /\ resv' = {} /\ pend' = <<>>
      /\ sv' = [k \in Keys |-> IF k \in held THEN "bound" ELSE IF k \in out THEN "out" ELSE "none"]
      /\ app' = [a \in Apps |-> IF ~app[a].known THEN app[a]
                                ELSE [app[a] EXCEPT !.st = IF \E k \in held : askF[k].app = a /\ ~askF[k].ph THEN "Running"
                                                           ELSE IF \E k \in held \cup out : askF[k].app = a THEN "Accepted" ELSE "New"]]
      /\ UNCHANGED bad
   /\ HQ([op |-> "restart", order |-> 0])

\* Queue preemption (tryAllocate -> tryPreemption): an ask of a queue below its guarantee that fits no node marks victims
\* on one node, all in other leaf queues that stay above their own guarantee, announces their release
\* (PREEMPTED_BY_SCHEDULER), counts them in the preempting ledger and reserves the node; it does so at most once.
Used(q) == qal[q] - pq[q]
MaxSize(S) == IF S = {} THEN 0 ELSE CHOOSE m \in {ask[v].size : v \in S} : \A v \in S : ask[v].size <= m
Preempt(k, n, V) ==
   /\ PreemptOn /\ ask[k].st = "pend" /\ ~ask[k].ph /\ ~ask[k].trig /\ Schedulable(ask[k].app)
   /\ LET lk == AppLeaf[ask[k].app] IN
      /\ Guar[lk] > 0 /\ Used(lk) < Guar[lk] /\ QueueFit(k)
      /\ node[n].reg /\ node[n].sched /\ ~NodeFit(k, n) /\ <<k, n>> \notin den
      /\ \A r \in resv : r[1] # k /\ r[2] # n
      /\ V # {} /\ V \subseteq node[n].keys
      /\ \A v \in V : ask[v].listed /\ ~ask[v].pre /\ ~ask[v].released /\ ask[v].rel = "" /\ AppLeaf[ask[v].app] # lk
      \* the victims cover the ask and none of them is superfluous
      /\ NodeAvail(n) + Sum(V, LAMBDA v : ask[v].size) >= ask[k].size
      /\ \A v \in V : NodeAvail(n) + Sum(V \ {v}, LAMBDA w : ask[w].size) < ask[k].size
      \* every victim is taken from a queue that is above its guarantee at that moment (largest victim last)
      /\ \A q \in {AppLeaf[ask[v].app] : v \in V} :
            LET tk == {v \in V : AppLeaf[ask[v].app] = q} IN Used(q) - (Sum(tk, LAMBDA v : ask[v].size) - MaxSize(tk)) > Guar[q]
      /\ ask' = [x \in Keys |-> IF x \in V THEN [ask[x] EXCEPT !.pre = TRUE] ELSE IF x = k THEN [ask[x] EXCEPT !.trig = TRUE] ELSE ask[x]]
      /\ pq' = [q \in Leaves |-> pq[q] + Sum({v \in V : AppLeaf[ask[v].app] = q}, LAMBDA v : ask[v].size)]
      /\ resv' = resv \cup {<<k, n>>}
      /\ AnnounceRelease(SetToSeq(V), "PREEMPTED_BY_SCHEDULER")
      /\ UNCHANGED <<node, app, qal>> /\ HQ([op |-> "schedule"])
Idle == UNCHANGED <<node, ask, app, qal, resv, sv, pend, bad>> /\ Sched

Next == \/ \E n \in Nodes, c \in Caps : AddNode(n, c)
        \/ \E n \in Nodes : Drain(n) \/ Undrain(n) \/ RemoveNode(n)
        \/ \E a \in Apps : AddApp(a) \/ RemoveApp(a) \/ ReleaseAll(a) \/ FirePhTimer(a) \/ FireStateTimer(a)
        \/ \E k \in Keys, n \in Nodes : Deny(k, n)
        \/ (WithRestart /\ Restart)
        \/ \E k \in Keys, a \in Apps, s \in Sizes : AddAsk(k, a, s, FALSE, "")
        \/ \E k \in Keys, a \in GangApps, tg \in TaskGroups : AddAsk(k, a, 2, TRUE, tg) \/ \E s \in Sizes : AddAsk(k, a, s, FALSE, tg)
        \/ \E k \in Keys : ReleaseKey(k)
        \/ \E i \in 1..Len(pend) : Confirm(i)
        \/ \E k \in Keys, n \in Nodes : Allocate(k, n) \/ Reserve(k, n)
        \/ \E p, r \in Keys : ReplaceSame(p, r) \/ \E n \in Nodes : ReplaceCross(p, r, n)
        \/ \E k \in Keys, n \in Nodes : \E V \in SUBSET node[n].keys : Preempt(k, n, V)
Spec == Init /\ [][Next]_vars

\* Warm start: the state after  addNode n, addNode m, addApp g, addAsk k (placeholder), schedule  with the placeholder
\* allocated. Bounded exploration from here reaches what happens around a placeholder swap (real task arrives, predicates
\* refuse it on some node, swap in place or across nodes, node/application removal, release, timers, confirmation in any
\* order) within a handful of steps; hist starts with the operations that lead here so each emitted history is replayable.
WarmCap == CHOOSE c \in Caps : \A d \in Caps : c >= d
WN1 == CHOOSE w \in Nodes : TRUE
WN2 == CHOOSE w \in Nodes \ {WN1} : TRUE
WG == CHOOSE w \in GangApps : TRUE
WK == CHOOSE w \in Keys : TRUE
WTG == CHOOSE w \in TaskGroups : TRUE
InitWarm ==
      /\ node = [w \in Nodes |-> IF w = WN1 THEN [reg |-> TRUE, sched |-> TRUE, cap |-> WarmCap, keys |-> {WK}]
                                  ELSE IF w = WN2 THEN [reg |-> TRUE, sched |-> TRUE, cap |-> WarmCap, keys |-> {}]
                                  ELSE [reg |-> FALSE, sched |-> FALSE, cap |-> 0, keys |-> {}]]
      /\ ask = [w \in Keys |-> IF w = WK THEN [st |-> "alloc", app |-> WG, size |-> 2, ph |-> TRUE, tg |-> WTG, node |-> WN1, rel |-> "", released |-> FALSE, listed |-> TRUE, pre |-> FALSE, trig |-> FALSE]
                                ELSE NoAsk]
      /\ app = [w \in Apps |-> IF w = WG THEN [st |-> "Accepted", known |-> TRUE] ELSE [st |-> "none", known |-> FALSE]]
      /\ qal = [q \in Leaves |-> IF q = AppLeaf[WG] THEN 2 ELSE 0]
      /\ resv = {} /\ sv = [w \in Keys |-> IF w = WK THEN "bound" ELSE "none"] /\ pend = <<>> /\ bad = {} /\ den = {} /\ pq = [q \in Leaves |-> 0]
      /\ hist = << [op |-> "addNode", node |-> WN1, cap |-> Res(WarmCap), drained |-> FALSE],
                   [op |-> "addNode", node |-> WN2, cap |-> Res(WarmCap), drained |-> FALSE],
                   [op |-> "addApp", app |-> WG, queue |-> AppLeaf[WG], user |-> "u0", groups |-> <<"g1">>, tags |-> [w \in {} |-> ""],
                    gang |-> TRUE, style |-> "Soft", phAsk |-> Res(2), forced |-> FALSE],
                   [op |-> "addAsk", app |-> WG, key |-> WK, res |-> Res(2), ph |-> TRUE, tg |-> WTG, aged |-> TRUE, reqNode |-> "", prio |-> 0,
                    preemptOther |-> FALSE, preemptSelf |-> TRUE, originator |-> FALSE, node |-> ""],
                   [op |-> "schedule"] >>
SpecWarm == InitWarm /\ [][Next]_vars
\* Warmer: in addition a real task of the group, smaller than the placeholder, is waiting; the application has announced a
\* placeholder total of two placeholders, so the real core keeps it Accepted (InitWarm announces one: Running there)
WK2 == CHOOSE w \in Keys \ {WK} : \A x \in Keys \ {WK} : KeyRank[w] <= KeyRank[x]
WarmAsk == [op |-> "addAsk", app |-> WG, key |-> WK2, res |-> Res(1), ph |-> FALSE, tg |-> WTG, aged |-> TRUE, reqNode |-> "", prio |-> 0,
            preemptOther |-> FALSE, preemptSelf |-> TRUE, originator |-> FALSE, node |-> ""]
InitWarm2 ==
      /\ node = [w \in Nodes |-> IF w = WN1 THEN [reg |-> TRUE, sched |-> TRUE, cap |-> WarmCap, keys |-> {WK}]
                                  ELSE IF w = WN2 THEN [reg |-> TRUE, sched |-> TRUE, cap |-> WarmCap, keys |-> {}]
                                  ELSE [reg |-> FALSE, sched |-> FALSE, cap |-> 0, keys |-> {}]]
      /\ ask = [w \in Keys |-> IF w = WK THEN [st |-> "alloc", app |-> WG, size |-> 2, ph |-> TRUE, tg |-> WTG, node |-> WN1, rel |-> "", released |-> FALSE, listed |-> TRUE, pre |-> FALSE, trig |-> FALSE]
                                ELSE IF w = WK2 THEN [st |-> "pend", app |-> WG, size |-> 1, ph |-> FALSE, tg |-> WTG, node |-> NoNode, rel |-> "", released |-> FALSE, listed |-> FALSE, pre |-> FALSE, trig |-> FALSE]
                                ELSE NoAsk]
      /\ app = [w \in Apps |-> IF w = WG THEN [st |-> "Accepted", known |-> TRUE] ELSE [st |-> "none", known |-> FALSE]]
      /\ qal = [q \in Leaves |-> IF q = AppLeaf[WG] THEN 2 ELSE 0]
      /\ resv = {} /\ sv = [w \in Keys |-> IF w = WK THEN "bound" ELSE IF w = WK2 THEN "out" ELSE "none"] /\ pend = <<>> /\ bad = {} /\ den = {} /\ pq = [q \in Leaves |-> 0]
      /\ hist = << [op |-> "addNode", node |-> WN1, cap |-> Res(WarmCap), drained |-> FALSE],
                   [op |-> "addNode", node |-> WN2, cap |-> Res(WarmCap), drained |-> FALSE],
                   [op |-> "addApp", app |-> WG, queue |-> AppLeaf[WG], user |-> "u0", groups |-> <<"g1">>, tags |-> [w \in {} |-> ""],
                    gang |-> TRUE, style |-> "Soft", phAsk |-> Res(4), forced |-> FALSE],
                   [op |-> "addAsk", app |-> WG, key |-> WK, res |-> Res(2), ph |-> TRUE, tg |-> WTG, aged |-> TRUE, reqNode |-> "", prio |-> 0,
                    preemptOther |-> FALSE, preemptSelf |-> TRUE, originator |-> FALSE, node |-> ""],
                   [op |-> "schedule"], WarmAsk >>
SpecWarm2 == InitWarm2 /\ [][Next]_vars
\* Warm start "full": both nodes registered and filled by one plain allocation each of one application.  A handful of further steps reaches reservations (an aged ask that fits no node), their release when the
\* node or the application goes, allocation of the reserved ask when room appears on the reserved or on the other node.
FullCap == CHOOSE c \in Caps : \A d \in Caps : c <= d
FA == WG        \* (its leaf queue has no maximum in the MC layouts; the asks are plain ones without task group)
FK1 == CHOOSE w \in Keys : \A x \in Keys : KeyRank[w] <= KeyRank[x]
FK2 == CHOOSE w \in Keys \ {FK1} : \A x \in Keys \ {FK1} : KeyRank[w] <= KeyRank[x]
FullAsk(k) == [op |-> "addAsk", app |-> FA, key |-> k, res |-> Res(FullCap), ph |-> FALSE, tg |-> "", aged |-> TRUE, reqNode |-> "", prio |-> 0,
               preemptOther |-> FALSE, preemptSelf |-> TRUE, originator |-> FALSE, node |-> ""]
InitFull ==
      /\ node = [w \in Nodes |-> IF w = WN1 THEN [reg |-> TRUE, sched |-> TRUE, cap |-> FullCap, keys |-> {FK1}]
                                  ELSE IF w = WN2 THEN [reg |-> TRUE, sched |-> TRUE, cap |-> FullCap, keys |-> {FK2}]
                                  ELSE [reg |-> FALSE, sched |-> FALSE, cap |-> 0, keys |-> {}]]
      /\ ask = [w \in Keys |-> IF w \in {FK1, FK2}
                                THEN [st |-> "alloc", app |-> FA, size |-> FullCap, ph |-> FALSE, tg |-> "", node |-> IF w = FK1 THEN WN1 ELSE WN2, rel |-> "", released |-> FALSE, listed |-> TRUE, pre |-> FALSE, trig |-> FALSE]
                                ELSE NoAsk]
      /\ app = [w \in Apps |-> IF w = FA THEN [st |-> "Running", known |-> TRUE] ELSE [st |-> "none", known |-> FALSE]]
      /\ qal = [q \in Leaves |-> IF q = AppLeaf[FA] THEN 2 * FullCap ELSE 0]
      /\ resv = {} /\ sv = [w \in Keys |-> IF w \in {FK1, FK2} THEN "bound" ELSE "none"] /\ pend = <<>> /\ bad = {} /\ den = {} /\ pq = [q \in Leaves |-> 0]
      /\ hist = << [op |-> "addNode", node |-> WN1, cap |-> Res(FullCap), drained |-> FALSE],
                   [op |-> "addNode", node |-> WN2, cap |-> Res(FullCap), drained |-> FALSE],
                   [op |-> "addApp", app |-> FA, queue |-> AppLeaf[FA], user |-> "u0", groups |-> <<"g1">>, tags |-> [w \in {} |-> ""],
                    gang |-> TRUE, style |-> "Soft", phAsk |-> Res(4), forced |-> FALSE],
                   FullAsk(FK1), FullAsk(FK2), [op |-> "schedule"], [op |-> "schedule"] >>
SpecFull == InitFull /\ [][Next]_vars
\* Warm start "pre": both nodes (capacity 2) are full with allocations of an application in a queue without guarantee
\* (one of size 2 on the first node, two of size 1 on the second), a second application in the guaranteed queue is
\* submitted.  A few further steps reach queue preemption and what can happen while victims are marked but not yet
\* released (confirmations in any order, release by the shim, node / application removal, a second asking ask).
PV == CHOOSE w \in Apps : Guar[AppLeaf[w]] = 0
PA == CHOOSE w \in Apps : Guar[AppLeaf[w]] > 0
PK(i) == CHOOSE w \in Keys : KeyRank[w] = i
PreAsk(k, sz) == [op |-> "addAsk", app |-> PV, key |-> k, res |-> Res(sz), ph |-> FALSE, tg |-> "", aged |-> TRUE, reqNode |-> "", prio |-> 0,
                  preemptOther |-> TRUE, preemptSelf |-> TRUE, originator |-> FALSE, node |-> ""]
PreApp(a) == [op |-> "addApp", app |-> a, queue |-> AppLeaf[a], user |-> "u0", groups |-> <<"g1">>, tags |-> [w \in {} |-> ""],
              gang |-> FALSE, style |-> "", phAsk |-> Res(4), forced |-> FALSE]
InitPre ==
      /\ node = [w \in Nodes |-> IF w = WN1 THEN [reg |-> TRUE, sched |-> TRUE, cap |-> 2, keys |-> {PK(1)}]
                                  ELSE IF w = WN2 THEN [reg |-> TRUE, sched |-> TRUE, cap |-> 2, keys |-> {PK(2), PK(3)}]
                                  ELSE [reg |-> FALSE, sched |-> FALSE, cap |-> 0, keys |-> {}]]
      /\ ask = [w \in Keys |-> IF w \in {PK(1), PK(2), PK(3)}
                                THEN [st |-> "alloc", app |-> PV, size |-> IF w = PK(1) THEN 2 ELSE 1, ph |-> FALSE, tg |-> "", node |-> IF w = PK(1) THEN WN1 ELSE WN2,
                                      rel |-> "", released |-> FALSE, listed |-> TRUE, pre |-> FALSE, trig |-> FALSE]
                                ELSE NoAsk]
      /\ app = [w \in Apps |-> IF w = PV THEN [st |-> "Running", known |-> TRUE] ELSE IF w = PA THEN [st |-> "New", known |-> TRUE] ELSE [st |-> "none", known |-> FALSE]]
      /\ qal = [q \in Leaves |-> IF q = AppLeaf[PV] THEN 4 ELSE 0]
      /\ resv = {} /\ sv = [w \in Keys |-> IF w \in {PK(1), PK(2), PK(3)} THEN "bound" ELSE "none"] /\ pend = <<>> /\ bad = {} /\ den = {} /\ pq = [q \in Leaves |-> 0]
      /\ hist = << [op |-> "addNode", node |-> WN1, cap |-> Res(2), drained |-> FALSE],
                   [op |-> "addNode", node |-> WN2, cap |-> Res(2), drained |-> FALSE],
                   PreApp(PV), PreAsk(PK(1), 2), PreAsk(PK(2), 1), PreAsk(PK(3), 1),
                   [op |-> "schedule"], [op |-> "schedule"], [op |-> "schedule"], PreApp(PA) >>
SpecPre == InitPre /\ [][Next]_vars
\* ... and one step further: the guaranteed application has asked (size 2), the scheduler has marked the size 2 allocation on
\* the first node as victim, announced its release and reserved that node: a preemption is in flight
PAsk == [op |-> "addAsk", app |-> PA, key |-> PK(4), res |-> Res(2), ph |-> FALSE, tg |-> "", aged |-> TRUE, reqNode |-> "", prio |-> 0,
         preemptOther |-> TRUE, preemptSelf |-> TRUE, originator |-> FALSE, node |-> ""]
InitPre2 ==
      /\ node = [w \in Nodes |-> IF w = WN1 THEN [reg |-> TRUE, sched |-> TRUE, cap |-> 2, keys |-> {PK(1)}]
                                  ELSE IF w = WN2 THEN [reg |-> TRUE, sched |-> TRUE, cap |-> 2, keys |-> {PK(2), PK(3)}]
                                  ELSE [reg |-> FALSE, sched |-> FALSE, cap |-> 0, keys |-> {}]]
      /\ ask = [w \in Keys |-> IF w \in {PK(1), PK(2), PK(3)}
                                THEN [st |-> "alloc", app |-> PV, size |-> IF w = PK(1) THEN 2 ELSE 1, ph |-> FALSE, tg |-> "", node |-> IF w = PK(1) THEN WN1 ELSE WN2,
                                      rel |-> "", released |-> FALSE, listed |-> TRUE, pre |-> w = PK(1), trig |-> FALSE]
                                ELSE IF w = PK(4) THEN [st |-> "pend", app |-> PA, size |-> 2, ph |-> FALSE, tg |-> "", node |-> NoNode, rel |-> "", released |-> FALSE,
                                                        listed |-> FALSE, pre |-> FALSE, trig |-> TRUE]
                                ELSE NoAsk]
      /\ app = [w \in Apps |-> IF w = PV THEN [st |-> "Running", known |-> TRUE] ELSE IF w = PA THEN [st |-> "Accepted", known |-> TRUE] ELSE [st |-> "none", known |-> FALSE]]
      /\ qal = [q \in Leaves |-> IF q = AppLeaf[PV] THEN 4 ELSE 0]
      /\ resv = {<<PK(4), WN1>>}
      /\ sv = [w \in Keys |-> IF w = PK(1) THEN "relAnn" ELSE IF w \in {PK(2), PK(3)} THEN "bound" ELSE IF w = PK(4) THEN "out" ELSE "none"]
      /\ pend = <<[key |-> PK(1), term |-> "PREEMPTED_BY_SCHEDULER"]>> /\ bad = {} /\ den = {}
      /\ pq = [q \in Leaves |-> IF q = AppLeaf[PV] THEN 2 ELSE 0]
      /\ hist = << [op |-> "addNode", node |-> WN1, cap |-> Res(2), drained |-> FALSE],
                   [op |-> "addNode", node |-> WN2, cap |-> Res(2), drained |-> FALSE],
                   PreApp(PV), PreAsk(PK(1), 2), PreAsk(PK(2), 1), PreAsk(PK(3), 1),
                   [op |-> "schedule"], [op |-> "schedule"], [op |-> "schedule"], PreApp(PA), PAsk, [op |-> "schedule"] >>
SpecPre2 == InitPre2 /\ [][Next]_vars

(* ================================================================== invariants (the listed properties on the design) *)
TypeOK == /\ \A n \in Nodes : node[n].keys \subseteq Keys
          /\ \A q \in Leaves : qal[q] \in Int
C01_NoOvercommit == \A n \in Nodes : node[n].reg => NodeAvail(n) >= 0
C02_QueueWithinMax == /\ \A q \in Leaves : QMax[q] > 0 => qal[q] <= QMax[q]
                      /\ RootAlloc <= Total
\* conservation: the leaf ledger is the sum of the listed allocations of its applications; the root equals the
\* nodes once the real halves of cross-node swaps are added
C03_QueueLedger == \A q \in Leaves : qal[q] = Sum({k \in Keys : ask[k].listed /\ AppLeaf[ask[k].app] = q}, LAMBDA k : ask[k].size)
C03_RootVsNodes == RootAlloc + Sum({k \in InFlight : \E n \in Nodes : k \in node[n].keys}, LAMBDA k : ask[k].size)
                   = Sum(Nodes, LAMBDA n : NodeUsed(n))
C03_NoOrphans == /\ \A n \in Nodes : \A k \in node[n].keys : ask[k].node = n /\ (ask[k].listed \/ k \in InFlight)
                 /\ \A k \in Keys : ask[k].listed => ask[k].st = "alloc" /\ ask[k].node \in Nodes /\ k \in node[ask[k].node].keys /\ Live(ask[k].app)
                 /\ \A n \in Nodes : ~node[n].reg => node[n].keys = {}
C03_NonNegative == \A q \in Leaves : qal[q] >= 0
\* the preempting ledger is exactly the marked victims that are still there; nothing is marked without a triggering ask
C03_Preempting == \A q \in Leaves : pq[q] = Sum({k \in Keys : ask[k].listed /\ ask[k].pre /\ AppLeaf[ask[k].app] = q}, LAMBDA k : ask[k].size)
C08_GuaranteeKept == \A q \in Leaves : (Guar[q] > 0 /\ pq[q] > 0) => Used(q) >= Guar[q]
C04_Legal == bad = {}
C06_NoStrayPlaceholder == \A k \in Keys : (ask[k].listed /\ ask[k].ph) => Live(ask[k].app)
C06_SwapLinks == \A k \in Keys : ask[k].rel # "" => (ask[ask[k].rel].rel = k /\ ask[k].app = ask[ask[k].rel].app)
C09_Resv == /\ \A r \in resv : ask[r[1]].st = "pend" /\ node[r[2]].reg
            /\ \A r1, r2 \in resv : (r1[1] = r2[1] \/ r1[2] = r2[2]) => r1 = r2
C10_CompletingIdle == \A a \in Apps : app[a].st = "Completing" => RealListed(a) = {} /\ Pending(a) = {}

(* ================================================================== test emission (pipeline B) *)
\* with VIEW view the invariant below prints exactly one (shortest) environment history per distinct state
EmitTest == PrintT(<<"TEST", ToJson(hist)>>)
\* in simulation mode (-simulate, -depth MaxHist+1) print the history of each sampled behaviour once, when it is full
EmitFull == Len(hist) < MaxHist \/ PrintT(<<"TEST", ToJson(hist)>>)
=============================================================================
