---------------------------- MODULE MC_NodeColl ----------------------------
(* Small-scope instance of NodeColl: three nodes of different shape, two scheduler allocations and one  *)
(* foreign allocation per node. The weights are chosen by the configuration file (default 1:1 or 2:1).  *)
EXTENDS NodeColl

MCNodes == {"n1", "n2", "n3"}
MCCap == [n \in MCNodes |-> CASE n = "n1" -> [vcore |-> 4, memory |-> 4]
                              [] n = "n2" -> [vcore |-> 8, memory |-> 4]
                              [] OTHER    -> [vcore |-> 4, memory |-> 8, pods |-> 10]]
MCAllocIds == {"a1", "a2", "a3"}
MCForeignIds == {"f1"}
MCSize == [a \in MCAllocIds \cup MCForeignIds |->
              CASE a = "a1" -> [vcore |-> 1, memory |-> 1, pods |-> 1]
                [] a = "a2" -> [vcore |-> 2, memory |-> 1]
                [] a = "a3" -> [vcore |-> 1, memory |-> 1]         \* (no larger than a1 and a2: can replace them)
                [] OTHER    -> [vcore |-> 1, memory |-> 2]]
MCWDefault == [vcore |-> 1, memory |-> 1]
MCWSkewed == [vcore |-> 2, memory |-> 1]
MCPolicies == {"fair", "binpacking"}

\* the configuration the replay needs besides the behaviours
ASSUME PrintT(<<"CONF", ToJson([w |-> W])>>)
=============================================================================
