------------------------------ MODULE Quantity ------------------------------
(* Grammar and value semantics of the quantity strings of pkg/common/resources/quantity.go (property     *)
(* C18): ParseQuantity and ParseVCore.  Documented grammar:                                              *)
(*     <quantity> ::= <digits><suffix>          <digits> ::= one or more decimal digits                  *)
(*     <suffix>   ::= "" | k | M | G | T | P | E | Ki | Mi | Gi | Ti | Pi | Ei      ( | m for ParseVCore ) *)
(* Value: the decimal numeral times the multiplier of the suffix (k = 10^3 .. E = 10^18, Ki = 2^10 ..    *)
(* Ei = 2^60, m = 10^-3); ParseVCore returns milli-units, i.e. the value times 10^3.  The result is that  *)
(* value when it is an int64, otherwise an error ("never a truncated or overflowed number"); everything  *)
(* outside the grammar (sign, fraction, exponent, unknown or misplaced suffix, empty string) is an error. *)
(*                                                                                                       *)
(* A string is a sequence of tokens.  A token is a numeral (a non-empty string of decimal digits; the    *)
(* model says which tokens are numerals, the harness re-checks that they consist of digits), a one       *)
(* character token or the blank " ".  Because neither TLC (32 bit integers) nor this module can hold      *)
(* 10^18, the value is returned in SYMBOLIC form: the numeral (token sequence), a decimal exponent a and *)
(* a binary exponent b, meaning numeral * 10^a * 2^b.  The harness evaluates that form with math/big and  *)
(* applies the rule "an int64 => that value, else error": this half of C18 is a specification-derived     *)
(* differential test, not model checking of the parser.                                                  *)
(*                                                                                                       *)
(* Blanks: the grammar has none, the code trims the string and tolerates blanks between number and       *)
(* suffix.  The specification leaves that open (kind "lenient": an error, or the value of the string     *)
(* without those blanks); blanks anywhere else are an error.                                             *)
EXTENDS Integers, Sequences, TLC

CONSTANT Numerals        \* the tokens that are numerals

Blank == " "

\* suffix |-> <<decimal exponent, binary exponent>>
SuffixTable ==
    ( <<>> :> <<0, 0>> ) @@
    ( <<"k">> :> <<3, 0>> ) @@ ( <<"M">> :> <<6, 0>> ) @@ ( <<"G">> :> <<9, 0>> ) @@
    ( <<"T">> :> <<12, 0>> ) @@ ( <<"P">> :> <<15, 0>> ) @@ ( <<"E">> :> <<18, 0>> ) @@
    ( <<"K", "i">> :> <<0, 10>> ) @@ ( <<"M", "i">> :> <<0, 20>> ) @@ ( <<"G", "i">> :> <<0, 30>> ) @@
    ( <<"T", "i">> :> <<0, 40>> ) @@ ( <<"P", "i">> :> <<0, 50>> ) @@ ( <<"E", "i">> :> <<0, 60>> )
MilliSuffix == <<"m">>                 \* ParseVCore only: 10^-3

RECURSIVE LeadCount(_, _)
\* number of leading tokens of s that satisfy the class test
LeadCount(s, IsNum) ==
    IF s = <<>> THEN 0
    ELSE IF (IF IsNum THEN s[1] \in Numerals ELSE s[1] = Blank) THEN 1 + LeadCount(Tail(s), IsNum) ELSE 0
RECURSIVE TrailBlanks(_)
TrailBlanks(s) == IF s = <<>> THEN 0 ELSE IF s[Len(s)] = Blank THEN 1 + TrailBlanks(SubSeq(s, 1, Len(s) - 1)) ELSE 0

DigitValue(d) == CASE d = "0" -> 0 [] d = "1" -> 1 [] d = "2" -> 2 [] d = "3" -> 3 [] d = "4" -> 4
                   [] d = "5" -> 5 [] d = "6" -> 6 [] d = "7" -> 7 [] d = "8" -> 8 [] d = "9" -> 9
SingleDigits == {"0", "1", "2", "3", "4", "5", "6", "7", "8", "9"}
RECURSIVE DecVal(_)
DecVal(ds) == IF ds = <<>> THEN 0 ELSE 10 * DecVal(SubSeq(ds, 1, Len(ds) - 1)) + DigitValue(ds[Len(ds)])

Error == [kind |-> "error"]

\* milli = TRUE for ParseVCore
Parse(s, milli) ==
    LET lead == LeadCount(s, FALSE)
        t    == SubSeq(s, lead + 1, Len(s) - TrailBlanks(s))          \* without surrounding blanks
        n    == LeadCount(t, TRUE)
        ds   == SubSeq(t, 1, n)                                       \* <digits>
        rest == SubSeq(t, n + 1, Len(t))
        gap  == LeadCount(rest, FALSE)
        suf  == SubSeq(rest, gap + 1, Len(rest))                      \* <suffix>
        spaced == Len(t) # Len(s) \/ gap > 0
        small == Len(ds) <= 9 /\ \A i \in 1..Len(ds) : ds[i] \in SingleDigits
        ok(a, b) == [kind |-> IF spaced THEN "lenient" ELSE "exact", digits |-> ds, a |-> a, b |-> b,
                     mant |-> IF small THEN DecVal(ds) ELSE -1]     \* the numeral's value when TLC can hold it
    IN IF lead = Len(s) \/ n = 0 THEN Error
       ELSE IF suf \in DOMAIN SuffixTable
            THEN ok(SuffixTable[suf][1] + (IF milli THEN 3 ELSE 0), SuffixTable[suf][2])
       ELSE IF milli /\ suf = MilliSuffix THEN ok(0, 0)
       ELSE Error
=============================================================================
