------------------------------ MODULE YKState ------------------------------
(* State predicates of the scheduler specification, written over ONE record `s` that has the shape of the   *)
(* projection of the implementation (harness/drive/project.go):                                            *)
(*   s.nodes[n]  = [cap, occ, alloc, avail : Res, keys : Seq(Key), foreign : [Key -> Res], sched, resv]      *)
(*   s.queues[q] = [parent, leaf, managed, status, max, guar, alloc, pending, preempting, headroom, ...]    *)
(*   s.apps[a]   = [state, queue, user, groups, alloc, phAlloc, pending, asks, allocs, resv, phd, ...]      *)
(*   s.users[u][q], s.groups[g].q[q] = [usage, max, maxApps, apps]; s.counters; s.done; s.rejected          *)
(* The generative specification (YuniKorn.tla) builds the same record from its variables, the trace         *)
(* validator (YKTrace.tla) reads it from the log, so the invariants below are stated once.                  *)
EXTENDS Res, TLC, Functions, SequencesExt

AppsOf(s) == DOMAIN s.apps
NodesOf(s) == DOMAIN s.nodes
QueuesOf(s) == DOMAIN s.queues
KeysOn(s, n) == ToSet(s.nodes[n].keys)
\* every allocation / ask record known in state s: triples <<app, key, rec>>
AllocRecs(s) == UNION {{<<a, k, s.apps[a].allocs[k]>> : k \in DOMAIN s.apps[a].allocs} : a \in AppsOf(s)}
AskRecs(s) == UNION {{<<a, k, s.apps[a].asks[k]>> : k \in DOMAIN s.apps[a].asks} : a \in AppsOf(s)}
\* resource of a key found on a node: the application's allocation record, else its ask record
ResOfKey(s, k) == LET al == {x \in AllocRecs(s) : x[2] = k}
                      as == {x \in AskRecs(s) : x[2] = k} IN
                  IF al # {} THEN (CHOOSE x \in al : TRUE)[3].res
                  ELSE IF as # {} THEN (CHOOSE x \in as : TRUE)[3].res ELSE EmptyRes
\* The real half of an in-flight placeholder swap: an allocated ask linked to a placeholder that is not yet in
\* the application's allocation list (it is added when the shim confirms the placeholder release).
InFlightReal(s) == {x \in AskRecs(s) : x[3].allocated /\ x[3].rel # "" /\ ~x[3].ph /\ x[2] \notin DOMAIN s.apps[x[1]].allocs}
OnNode(s, x) == x[3].node \in NodesOf(s) /\ x[2] \in KeysOn(s, x[3].node)
RECURSIVE AncestorsR(_, _, _)
AncestorsR(s, q, fuel) == IF fuel = 0 \/ q = "" \/ q \notin QueuesOf(s) THEN {} ELSE {q} \cup AncestorsR(s, s.queues[q].parent, fuel - 1)
Ancestors(s, q) == AncestorsR(s, q, 8)                        \* q and all its ancestors up to the root
RECURSIVE PathUpR(_, _, _)
PathUpR(s, q, fuel) == IF fuel = 0 \/ q = "" \/ q \notin QueuesOf(s) THEN <<>> ELSE <<q>> \o PathUpR(s, s.queues[q].parent, fuel - 1)
PathUp(s, q) == PathUpR(s, q, 8)                              \* <<q, parent(q), ..., root>>
Below(s, q) == {a \in AppsOf(s) : q \in Ancestors(s, s.apps[a].queue)}
Kids(s, q) == {c \in QueuesOf(s) : s.queues[c].parent = q}

(* ------------------------------------------------------------------ C01: node ledger *)
NodeLedger(s) == \A n \in NodesOf(s) : LET nd == s.nodes[n] IN
      /\ REq(nd.avail, RSub(RSub(nd.cap, nd.alloc), nd.occ))
      /\ REq(nd.alloc, RSumSet(KeysOn(s, n), LAMBDA k : ResOfKey(s, k)))
      /\ REq(nd.occ, RSumSet(DOMAIN nd.foreign, LAMBDA k : nd.foreign[k]))
      /\ RGE0(nd.alloc) /\ RGE0(nd.occ) /\ RGE0(nd.cap)
      /\ Len(nd.keys) = Cardinality(KeysOn(s, n))
NodeAvailOK(s, forcedNodes) == \A n \in NodesOf(s) : n \in forcedNodes \/ RGE0(s.nodes[n].avail)

(* ------------------------------------------------------------------ C03: conservation *)
AppLedger(s) == \A a \in AppsOf(s) : LET ap == s.apps[a] IN
      /\ REq(ap.alloc, RSumSet({k \in DOMAIN ap.allocs : ~ap.allocs[k].ph}, LAMBDA k : ap.allocs[k].res))
      /\ REq(ap.phAlloc, RSumSet({k \in DOMAIN ap.allocs : ap.allocs[k].ph}, LAMBDA k : ap.allocs[k].res))
      /\ REq(ap.pending, RSumSet({k \in DOMAIN ap.asks : ~ap.asks[k].allocated}, LAMBDA k : ap.asks[k].res))
      /\ RGE0(ap.alloc) /\ RGE0(ap.phAlloc) /\ RGE0(ap.pending)
QueueLedger(s) == \A q \in QueuesOf(s) : LET qu == s.queues[q] IN
      /\ RGE0(qu.alloc) /\ RGE0(qu.pending) /\ RGE0(qu.preempting)
      /\ IF qu.leaf THEN
            LET mine == {a \in AppsOf(s) : s.apps[a].queue = q} IN
            /\ REq(qu.alloc, RSumSet(mine, LAMBDA a : RAdd(s.apps[a].alloc, s.apps[a].phAlloc)))
            /\ REq(qu.pending, RSumSet(mine, LAMBDA a : s.apps[a].pending))
         ELSE
            /\ REq(qu.alloc, RSumSet(Kids(s, q), LAMBDA c : s.queues[c].alloc))
            /\ REq(qu.pending, RSumSet(Kids(s, q), LAMBDA c : s.queues[c].pending))
\* root = sum of nodes, counting the real half of a swap only when it sits on ANOTHER node than its placeholder
\* (same-node swaps have not touched the node yet; the queue was charged for neither)
CrossHalves(s) == {x \in InFlightReal(s) : OnNode(s, x)}
RootVsNodes(s) == "root" \in QueuesOf(s) =>
      REq(RAdd(s.queues["root"].alloc, RSumSet(CrossHalves(s), LAMBDA x : x[3].res)),
          RSumSet(NodesOf(s), LAMBDA n : s.nodes[n].alloc))
NoOrphans(s) ==
      /\ \A n \in NodesOf(s) : \A k \in KeysOn(s, n) :
            \/ \E x \in AllocRecs(s) : x[2] = k /\ x[3].node = n
            \/ \E x \in InFlightReal(s) : x[2] = k /\ x[3].node = n
      /\ \A x \in AllocRecs(s) : x[3].node \in NodesOf(s) /\ x[2] \in KeysOn(s, x[3].node)
      /\ \A x \in AllocRecs(s) : x[3].allocated
Counters(s) == /\ s.counters.allocs = Cardinality(AllocRecs(s))
               /\ ({x \in AllocRecs(s) : x[3].ph} # {} => s.counters.ph > 0)
               /\ s.counters.ph >= 0 /\ s.counters.resv >= 0
PreemptingLedger(s) == \A q \in QueuesOf(s) : s.queues[q].leaf =>
      REq(s.queues[q].preempting,
          RSumSet({x \in AllocRecs(s) : s.apps[x[1]].queue = q /\ x[3].preempted}, LAMBDA x : x[3].res))
\* after "release everything, remove every application and node" all books are empty
Drained(s) ==
      /\ NodesOf(s) = {} /\ AppsOf(s) = {}
      /\ \A q \in QueuesOf(s) : LET qu == s.queues[q] IN
            /\ RZero(qu.alloc) /\ RZero(qu.pending) /\ RZero(qu.preempting)
            /\ qu.running = 0 /\ qu.allocating = <<>> /\ DOMAIN qu.reservedApps = {}
      /\ \A u \in DOMAIN s.users : \A q \in DOMAIN s.users[u] : RZero(s.users[u][q].usage)
      /\ \A g \in DOMAIN s.groups : \A q \in DOMAIN s.groups[g].q : RZero(s.groups[g].q[q].usage)
      /\ s.counters.allocs = 0

(* ------------------------------------------------------------------ C02: quota *)
\* the DAO head room is the effective limit: never looser than the parent's on a type the parent limits
HeadroomChain(s) == \A q \in QueuesOf(s) : LET p == s.queues[q].parent IN
      (p # "" /\ p \in QueuesOf(s) /\ s.queues[p].hasHeadroom) =>
          /\ s.queues[q].hasHeadroom
          /\ \A t \in DOMAIN s.queues[p].headroom :
                 t \in DOMAIN s.queues[q].headroom /\ s.queues[q].headroom[t] <= s.queues[p].headroom[t]
RootMax(s) == "root" \in QueuesOf(s) =>
      /\ REq(s.queues["root"].max, RSumSet(NodesOf(s), LAMBDA n : s.nodes[n].cap))
      /\ REq(s.total, s.queues["root"].max)
UsageWithinMax(s, forcedQueues) == \A q \in QueuesOf(s) :
      q \in forcedQueues \/ ~s.queues[q].hasMax \/
      (IF q = "root" THEN FitIn(s.queues[q].max, s.queues[q].alloc) ELSE FitInMaxUndef(s.queues[q].max, s.queues[q].alloc))

(* ------------------------------------------------------------------ C09: reservations *)
AppResv(s) == UNION {{<<a, k, s.apps[a].resv[k]>> : k \in DOMAIN s.apps[a].resv} : a \in AppsOf(s)}
NodeResv(s) == UNION {{<<k, n>> : k \in ToSet(s.nodes[n].resv)} : n \in NodesOf(s)}
ResvViews(s) ==
      /\ {<<x[2], x[3]>> : x \in AppResv(s)} = NodeResv(s)
      /\ \A x \in AppResv(s) : x[2] \in DOMAIN s.apps[x[1]].asks /\ ~s.apps[x[1]].asks[x[2]].allocated
      /\ \A n \in NodesOf(s) : Len(s.nodes[n].resv) > 1 =>
            \A k \in ToSet(s.nodes[n].resv) : \E x \in AskRecs(s) : x[2] = k /\ x[3].reqNode = n
      /\ \A n \in NodesOf(s) : Len(s.nodes[n].resv) = Cardinality(ToSet(s.nodes[n].resv))
      /\ \A a \in AppsOf(s) : LET q == s.apps[a].queue
                                  cnt == Cardinality(DOMAIN s.apps[a].resv) IN
            q \in QueuesOf(s) =>
               IF cnt = 0 THEN a \notin DOMAIN s.queues[q].reservedApps
               ELSE a \in DOMAIN s.queues[q].reservedApps /\ s.queues[q].reservedApps[a] = cnt
      /\ \A q \in QueuesOf(s) : \A a \in DOMAIN s.queues[q].reservedApps : a \in AppsOf(s) /\ s.apps[a].queue = q
      /\ (AppResv(s) # {} => s.counters.resv > 0)

(* ------------------------------------------------------------------ C10: life cycle *)
AllowedTransitions ==
    { <<"New","Accepted">>, <<"New","Rejected">>, <<"New","Failing">>, <<"New","Resuming">>,
      <<"Accepted","Running">>, <<"Accepted","Completing">>, <<"Accepted","Failing">>, <<"Accepted","Resuming">>,
      <<"Running","Completing">>, <<"Running","Failing">>, <<"Running","Running">>,
      <<"Completing","Running">>, <<"Completing","Completed">>,
      <<"Failing","Failed">>, <<"Resuming","Accepted">>,
      <<"Completed","Expired">>, <<"Failed","Expired">>, <<"Rejected","Expired">> }
AppStates == {"New", "Accepted", "Running", "Completing", "Completed", "Failing", "Failed", "Resuming", "Rejected", "Expired"}
CompletedClean(s) == \A a \in AppsOf(s) :
      s.apps[a].state \in {"Completed"} =>
         /\ {k \in DOMAIN s.apps[a].allocs : ~s.apps[a].allocs[k].ph} = {}
         /\ {k \in DOMAIN s.apps[a].asks : ~s.apps[a].asks[k].allocated} = {}
\* an application with a live real allocation is not Completing either (it would be Completed by the timer with the allocation
\* still bound)
CompletingHoldsNoReal(s) == \A a \in AppsOf(s) :
      s.apps[a].state = "Completing" => {k \in DOMAIN s.apps[a].allocs : ~s.apps[a].allocs[k].ph} = {}
InFlightRealOf(s, a) == {x \in InFlightReal(s) : x[1] = a}
\* an application with neither outstanding asks nor allocations of any kind has left Accepted/Running
IdleLeavesRunning(s) == \A a \in AppsOf(s) :
      (s.apps[a].state \in {"Accepted", "Running"}) =>
         ~(/\ DOMAIN s.apps[a].allocs = {}
           /\ {k \in DOMAIN s.apps[a].asks : ~s.apps[a].asks[k].allocated} = {}
           /\ InFlightRealOf(s, a) = {})
LiveAppsHaveQueue(s) == \A a \in AppsOf(s) :
      s.apps[a].state \in {"New", "Accepted", "Running", "Completing", "Failing", "Resuming"} =>
          s.apps[a].queue \in QueuesOf(s) /\ s.queues[s.apps[a].queue].leaf

(* ------------------------------------------------------------------ C11: max applications *)
MaxAppsCounts(s, lowered) == \A q \in QueuesOf(s) : LET qu == s.queues[q] IN
      /\ qu.running <= Cardinality({a \in Below(s, q) : s.apps[a].state = "Running"})
      /\ (qu.maxApps > 0 => (qu.running <= qu.maxApps \/ q \in lowered))
      /\ ToSet(qu.allocating) \subseteq Below(s, q)
      /\ (Below(s, q) = {} => qu.running = 0 /\ qu.allocating = <<>>)

(* ------------------------------------------------------------------ C05: tracked usage *)
UsageOf(s, A, qp) == RSumSet({x \in AllocRecs(s) : x[1] \in A /\ qp \in Ancestors(s, s.apps[x[1]].queue)}, LAMBDA x : x[3].res)
UserUsageOK(s) == \A u \in DOMAIN s.users : \A qp \in DOMAIN s.users[u] :
      qp \in QueuesOf(s) => REq(s.users[u][qp].usage, UsageOf(s, {a \in AppsOf(s) : s.apps[a].user = u}, qp))
GroupUsageOK(s) == \A g \in DOMAIN s.groups : \A qp \in DOMAIN s.groups[g].q :
      qp \in QueuesOf(s) => REq(s.groups[g].q[qp].usage, UsageOf(s, ToSet(s.groups[g].apps) \cap AppsOf(s), qp))
\* the applications a tracker counts against the maximum-applications limits are live applications of that user there
TrackerApps(s) ==
      /\ \A u \in DOMAIN s.users : \A qp \in DOMAIN s.users[u] : \A a \in ToSet(s.users[u][qp].apps) :
             a \in AppsOf(s) /\ s.apps[a].user = u /\ qp \in Ancestors(s, s.apps[a].queue)
      /\ \A g \in DOMAIN s.groups : \A qp \in DOMAIN s.groups[g].q : \A a \in ToSet(s.groups[g].q[qp].apps) :
             a \in AppsOf(s) /\ qp \in Ancestors(s, s.apps[a].queue)
NoGhostUser(s) == \A a \in AppsOf(s) : DOMAIN s.apps[a].allocs # {} =>
      (s.apps[a].user \in DOMAIN s.users /\ s.apps[a].queue \in DOMAIN s.users[s.apps[a].user])

(* ------------------------------------------------------------------ C06: gang counts *)
GangCounts(s) == \A a \in AppsOf(s) : \A tg \in DOMAIN s.apps[a].phd :
      LET d == s.apps[a].phd[tg] IN d.replaced <= d.count /\ d.replaced >= 0 /\ d.count >= 0
=============================================================================
