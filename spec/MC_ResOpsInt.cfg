CONSTANTS
  Nil = Nil
  NoTypes = NoTypes
  Unspec = Unspec
INIT Init
NEXT Next
INVARIANT Agree
