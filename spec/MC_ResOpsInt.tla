----------------------------- MODULE MC_ResOpsInt -----------------------------
(* Consistency of the two specifications of resource vectors: ResOps.tla (C18, nil-aware, scalar          *)
(* arithmetic a parameter) instantiated with plain integers must agree with Res.tla (the operators the    *)
(* trace validator YKTrace.tla uses) on every pair of non-nil resources over {a, b} with values -2..2.     *)
(* Not a verdict about the code: a disagreement means one of the two specifications is wrong.             *)
(* Known and intended difference, not compared: Res.tla's RMin reads a type missing on one side as 0      *)
(* (older semantics); the pinned ComponentWiseMin documents "the quantity from the other Resource is       *)
(* returned", which is what ResOps!ComponentWiseMin says.  RMin is not used by YKTrace.tla.                *)
EXTENDS Res, TLC

CONSTANTS Nil, NoTypes, Unspec

Plus(x, y) == x + y
Minus(x, y) == x - y
Times(x, y) == x * y
Less(x, y) == x < y
RO == INSTANCE ResOps WITH Z <- 0, SAdd <- Plus, SSub <- Minus, SMul <- Times, SLt <- Less

Keys == {"a", "b"}
Vals == -2..2
Rs == UNION {[D -> Vals] : D \in SUBSET Keys}

Same(name, a, b, x, y) == x = y \/ PrintT(<<"DISAGREE", name, a, b, x, y>>)

VARIABLES a, b
Init == a \in Rs /\ b \in Rs
Next == UNCHANGED <<a, b>>

Agree ==
    /\ Same("Add", a, b, RO!Add(a, b), RAdd(a, b))
    /\ Same("Sub", a, b, RO!Sub(a, b), RSub(a, b))
    /\ Same("SubOnlyExisting", a, b, RO!SubOnlyExisting(a, b), RSubOnlyExisting(a, b))
    /\ Same("SubEliminateNegative", a, b, RO!SubEliminateNegative(a, b), RSubElimNeg(a, b))
    /\ Same("ComponentWiseMinOnlyExisting", a, b, RO!ComponentWiseMinOnlyExisting(a, b), RMinOnlyExisting(a, b))
    /\ Same("Equals", a, b, RO!Equals(a, b), REq(a, b))
    /\ Same("DeepEquals", a, b, RO!DeepEquals(a, b), RDeepEq(a, b))
    /\ Same("FitIn", a, b, RO!FitIn(a, b), FitIn(a, b))
    /\ Same("FitInMaxUndef", a, b, RO!FitInMaxUndef(a, b), FitInMaxUndef(a, b))
    /\ Same("IsZero", a, b, RO!IsZero(a), RZero(a))
    /\ Same("HasNegativeValue", a, b, RO!HasNegativeValue(a), ~RGE0(a))
    /\ Same("StrictlyGreaterThanOrEquals", a, b, RO!StrictlyGreaterThanOrEquals(a, b), \A t \in DOMAIN a \cup DOMAIN b : Get(a, t) >= Get(b, t))
    \* nil is an empty resource for these operators
    /\ Same("Add/nil", a, b, RO!Add(a, Nil), RAdd(a, EmptyRes))
    /\ Same("Sub/nil", a, b, RO!Sub(Nil, b), RSub(EmptyRes, b))
    /\ Same("FitIn/nil", a, b, RO!FitIn(Nil, b), FitIn(EmptyRes, b))
    /\ Same("FitInMaxUndef/nil", a, b, RO!FitInMaxUndef(Nil, b), FitInMaxUndef(EmptyRes, b))
=============================================================================
