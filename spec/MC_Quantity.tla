----------------------------- MODULE MC_Quantity -----------------------------
(* TLC enumerates quantity strings for the differential test of ParseQuantity / ParseVCore:               *)
(*   - every string of at most MaxLen one-character tokens over Alphabet (digits 0 1 9, the suffix letters,   *)
(*     the letters of signs / fractions / exponents, the blank), and                                     *)
(*   - the boundary numerals (floor(MaxInt64 / multiplier) and its successor for every multiplier, 2^63,  *)
(*     2^64 +- 1, 2^53 + 1, leading zeros) followed by every legal and some illegal suffixes.             *)
(* Two lines per string:  <<"CASE", ToJson([op |-> "ParseQuantity" | "ParseVCore", s |-> tokens, want |-> ..])>> *)
EXTENDS Integers, Sequences, TLC, Json

CONSTANT MaxLen

Alphabet == {"0", "1", "9", ".", "-", "+", "e", "E", "k", "K", "M", "G", "T", "P", "m", "i", " "}

BigNumerals == {
  "7", "8", "10", "000", "007",
  "8191", "8192", "8388", "8389", "9223",
  "9224", "8388607", "8388608", "8589934", "8589935",
  "9223372", "9223373", "8589934591", "8589934592", "8796093022",
  "8796093023", "9223372036", "9223372037", "8796093022207", "8796093022208",
  "9007199254740", "9007199254741", "9223372036854", "9223372036855", "9007199254740991",
  "9007199254740992", "9007199254740993", "9223372036854775", "9223372036854776", "9223372036854775806",
  "9223372036854775807", "9223372036854775808", "10000000000000000000", "13835058055282163712", "18446744073709551615",
  "18446744073709551616", "18446744073709551617", "00000000000000000000009" }

Q == INSTANCE Quantity WITH Numerals <- {"0", "1", "9"} \cup BigNumerals

Tails == DOMAIN Q!SuffixTable \cup {<<"m">>, <<"K">>, <<"k", "i">>, <<"m", "i">>, <<"e">>, <<"i">>, <<" ", "G", "i">>, <<"E", "i", " ">>,
                                    <<"E", "E">>, <<"e", "1">>, <<".", "0">>, <<"G", " ", "i">>}

VARIABLE s
Init == \/ s = <<>>
        \/ \E n \in BigNumerals, t \in Tails : s = <<n>> \o t
        \/ \E n \in BigNumerals : s \in {<<"-", n>>, <<"+", n>>, <<" ", n>>, <<n, "0", "k">>}
Next == /\ Len(s) < MaxLen
        /\ \A i \in 1..Len(s) : s[i] \in Alphabet
        /\ \E ch \in Alphabet : s' = Append(s, ch)

Emit == /\ PrintT(<<"CASE", ToJson([op |-> "ParseQuantity", s |-> s, want |-> Q!Parse(s, FALSE)])>>)
        /\ PrintT(<<"CASE", ToJson([op |-> "ParseVCore", s |-> s, want |-> Q!Parse(s, TRUE)])>>)
=============================================================================
