----------------------------- MODULE MC_Sorting -----------------------------
(* Sanity of spec/Sorting.tla itself, checked by TLC over a finite key domain: every documented order is   *)
(* a strict weak order (irreflexive, asymmetric, transitive, incomparability transitive). Only then is     *)
(* "the order is a function of the keys up to ties" (P2, P3) a meaningful, satisfiable requirement.        *)
(* One state per (family, policy, priority switch, total, candidate x); the invariant quantifies over the  *)
(* other two candidates.                                                                                   *)
EXTENDS Sorting

CONSTANT Big        \* TRUE: the larger key domain (thorough tier)

Empty == [x \in {} |-> 0]
Base == [id |-> "x", elig |-> TRUE, p |-> 0, off |-> 0, fence |-> FALSE, t |-> 0, alloc |-> Empty, guar |-> Empty,
         max |-> Empty, pend |-> 0, aps |-> <<>>, ph |-> FALSE]

QD == {[Base EXCEPT !.p = o[1], !.off = o[2], !.fence = o[3], !.alloc = a, !.guar = g, !.max = m, !.pend = pe] :
          o \in {<<0, 0, FALSE>>, <<1, 0, FALSE>>, <<0, 1, TRUE>>},
          a \in {Empty, [memory |-> 2], [memory |-> 3, gpu |-> 1]} \cup (IF Big THEN {[memory |-> 4]} ELSE {}),
          g \in {Empty, [memory |-> 8], [memory |-> 0, gpu |-> 4]},
          m \in {Empty} \cup (IF Big THEN {[memory |-> 10]} ELSE {}), pe \in {1, 2}}
QTots == {[memory |-> 100, gpu |-> 10], Empty}

AD == {[Base EXCEPT !.t = t, !.aps = ap, !.alloc = a] :
          t \in {0, 1}, ap \in {<<0>>, <<1>>, <<0, 1>>},
          a \in {Empty, [memory |-> 2], [memory |-> 4], [memory |-> 1, gpu |-> 3], [gpu |-> 2], [memory |-> 4, gpu |-> 2]}}
ATots == {[memory |-> 10, gpu |-> 10], [memory |-> 10, gpu |-> 5], [memory |-> 10], Empty}

KD == {[Base EXCEPT !.p = p, !.t = t] : p \in 0..2, t \in 0..2}

VARIABLES fam, pol, prio, tot, x, lvl
vars == <<fam, pol, prio, tot, x, lvl>>
Init == fam = "init" /\ pol = "ask" /\ prio = TRUE /\ tot = Empty /\ x = Base /\ lvl = 0
\* level 1: the order (family, policy, priority switch, total); level 2: the candidate x (spread over all workers)
PickOrder == /\ lvl = 0 /\ lvl' = 1 /\ x' = x
             /\ \/ fam' = "queue" /\ pol' \in {"fair", "fifo"} /\ prio' \in BOOLEAN /\ tot' \in QTots
                \/ fam' = "app" /\ pol' \in {"fair", "fifo"} /\ prio' \in BOOLEAN /\ tot' \in ATots
                \/ fam' = "ask" /\ pol' = "ask" /\ prio' = TRUE /\ tot' = Empty
PickX == /\ lvl = 1 /\ lvl' = 2 /\ UNCHANGED <<fam, pol, prio, tot>>
         /\ x' \in (CASE fam = "queue" -> QD [] fam = "app" -> AD [] OTHER -> KD)
Next == PickOrder \/ PickX
Spec == Init /\ [][Next]_vars

Dom == CASE fam = "queue" -> QD [] fam = "app" -> AD [] fam = "ask" -> KD [] OTHER -> {}
B(a, b) == Before([k |-> fam, pol |-> pol, prio |-> prio, tot |-> tot], a, b)
Inc(a, b) == ~B(a, b) /\ ~B(b, a)
StrictWeakOrderAtX == lvl = 2 =>
                      /\ ~B(x, x)
                      /\ \A y \in Dom : B(x, y) => ~B(y, x)
                      /\ \A y, z \in Dom : (B(x, y) /\ B(y, z)) => B(x, z)
                      /\ \A y, z \in Dom : (Inc(x, y) /\ Inc(y, z)) => Inc(x, z)
\* every policy except "fifo without priority" for queues orders something (the domain is not degenerate)
Distinguishes == lvl # 1 \/ (fam = "queue" /\ pol = "fifo" /\ ~prio) \/ \E y, z \in Dom : B(y, z)
=============================================================================
