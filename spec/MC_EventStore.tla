---------------------------- MODULE MC_EventStore ----------------------------
EXTENDS EventStore, TLC, Json
(* one line per maximal behaviour; Collect is always enabled below the bound, so every behaviour is a prefix of a printed one *)
EmitStore == Len(ops) <= MaxOps \/ PrintT(<<"STORE", ToJson(ops)>>)
=============================================================================
