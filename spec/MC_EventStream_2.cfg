\* two subscribers
CONSTANTS
 NEvents = 3
 Subs = {1, 2}
 CountChoices <- MCCountsAll
 RingCap = 8
 AllowClose = FALSE
 EagerForward = TRUE
INIT Init
NEXT Next
INVARIANT TypeOK
INVARIANT EmitSched
