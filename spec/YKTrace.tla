------------------------------ MODULE YKTrace ------------------------------
(* Trace validator: binds the specification to executions of the real yunikorn-core.                       *)
(* The harness drives the real ClusterContext one environment operation per step and logs, per step, the   *)
(* operation, the SI messages the core emitted, the shim predicate denials and the full projected state.   *)
(* Every logged state must satisfy every state invariant of YKState and every (pre, step, post) triple      *)
(* must satisfy the guards/effects below.  Guards are ASSERTED, not used as enabling conditions, so that a  *)
(* violating step is reported (with its check name and line) instead of making the trace unexplainable.     *)
(* One TLC pass reports every failing (check, line): Chk prints and continues.                              *)
EXTENDS YKState, Json

CONSTANTS TraceFile,     \* NDJSON file written by the harness
          KFEnabled      \* ids of known findings whose narrow exemption predicates are switched on

Trace == ndJsonDeserialize(TraceFile)

VARIABLES l,      \* current line
          sv,     \* the shim's view of the protocol (Protocol section), folded over the messages only
          bad,    \* protocol complaints raised by the messages of line l
          fN, fQ, \* nodes / queues whose usage was forced from outside (RM-placed, resized, lowered max)
          low,    \* queues whose max-applications was lowered while applications ran
          den,    \* predicate denial table of the shim: set of <<key, node>>
          cnf     \* the configuration in force (abstract record)
vars == <<l, sv, bad, fN, fQ, low, den, cnf>>

F(e, name, default) == IF name \in DOMAIN e THEN e[name] ELSE default
Op(i) == Trace[i].op
St(i) == Trace[i].state
IsReset(i) == Trace[i].op = "reset"
Msgs(i) == ToSet(Trace[i].msgs)
MsgSeq(i, t) == SelectSeq(Trace[i].msgs, LAMBDA m : m.t = t)
EmptyF == [x \in {} |-> ""]
Upd(f, k, v) == [x \in DOMAIN f \cup {k} |-> IF x = k THEN v ELSE f[x]]
Del(f, K) == [x \in DOMAIN f \ K |-> f[x]]

(* ====================================================================== Protocol (C04) *)
(* The shim's view is built from what the shim sent and what it received - never from the projection.       *)
(* keys[k] \in {"out","bound","relReq","relAnn","relAnnOut"}; kapp[k] = application; apps/nodes: "accepted"/"removed". *)
(* relAnn: the core asked the shim to release a bound allocation; relAnnOut: the same for an ask that was only outstanding *)
(* (placeholder timeout): the core has dropped it already, so a release of it by the shim is not answered.           *)
SV0 == [keys |-> EmptyF, kapp |-> EmptyF, apps |-> EmptyF, nodes |-> EmptyF]
ShimOp(v, e) ==
   CASE e.op = "reset" -> SV0
     \* after a crash the shim re-submits what it knows: every key is outstanding again until the new core announces it
     [] e.op = "restart" -> [SV0 EXCEPT !.keys = [k \in DOMAIN e.asks |-> "out"], !.kapp = [k \in DOMAIN e.asks |-> e.asks[k].app]]
     [] e.op \in {"addAsk", "reportBound", "updateAsk"} \/ (e.op = "bad" /\ e.kind = "ask.nilpolicy") ->   \* (unusual but meaningful ask)
            IF e.key \in DOMAIN v.keys THEN v
            ELSE [v EXCEPT !.keys = Upd(v.keys, e.key, "out"), !.kapp = Upd(v.kapp, e.key, e.app)]
     \* releasing an ask that is still outstanding ends it at once (the core sends nothing); releasing a bound allocation
     \* is answered by the core's release announcement
     [] e.op = "release" -> IF e.key \in DOMAIN v.keys /\ v.kapp[e.key] = e.app
                            THEN (IF v.keys[e.key] \in {"out", "relAnnOut"} THEN [v EXCEPT !.keys = Del(v.keys, {e.key})] ELSE [v EXCEPT !.keys = Upd(v.keys, e.key, "relReq")])
                            ELSE v
     \* a release without a key gives up everything of the application: outstanding asks end at once, bound allocations
     \* are answered by release announcements
     [] e.op = "releaseAll" ->
            LET mine == {k \in DOMAIN v.keys : v.kapp[k] = e.app} IN
            [v EXCEPT !.keys = [k \in DOMAIN v.keys \ {k \in mine : v.keys[k] \in {"out", "relAnnOut"}} |-> IF k \in mine THEN "relReq" ELSE v.keys[k]]]
     [] e.op = "confirm" -> IF ~e.none /\ ~e.keep /\ e.key \in DOMAIN v.keys /\ v.keys[e.key] \in {"relAnn", "relAnnOut"} THEN [v EXCEPT !.keys = Del(v.keys, {e.key})] ELSE v
     [] e.op = "removeApp" ->
            LET mine == {k \in DOMAIN v.keys : v.kapp[k] = e.app} IN
            [v EXCEPT !.keys = [k \in DOMAIN v.keys \ {k \in mine : v.keys[k] \in {"out", "relAnnOut"}} |-> IF k \in mine THEN "relReq" ELSE v.keys[k]],
                      !.apps = IF e.app \in DOMAIN v.apps /\ v.apps[e.app] = "accepted" THEN Upd(v.apps, e.app, "removed") ELSE v.apps]
     [] e.op = "removeNode" -> IF e.node \in DOMAIN v.nodes /\ v.nodes[e.node] = "accepted" THEN [v EXCEPT !.nodes = Upd(v.nodes, e.node, "removing")] ELSE v
     [] OTHER -> v
\* one message from the core: returns <<view, complaints>>
OneMsg(acc, m, e) == LET v == acc[1]
                         c == acc[2] IN
   CASE m.t = "alloc" ->
          LET ok == /\ m.key \in DOMAIN v.keys /\ v.keys[m.key] = "out" /\ v.kapp[m.key] = m.app
                    /\ m.app \in DOMAIN v.apps /\ v.apps[m.app] = "accepted"
                    /\ m.node \in DOMAIN v.nodes /\ v.nodes[m.node] = "accepted" IN
          <<IF m.key \in DOMAIN v.keys THEN [v EXCEPT !.keys = Upd(v.keys, m.key, "bound")] ELSE v,
            IF ok THEN c ELSE c \cup {<<"alloc", m.key>>}>>
     [] m.t = "release" ->
          LET ok == m.key \in DOMAIN v.keys /\ v.kapp[m.key] = m.app IN
          <<IF ~ok THEN v ELSE IF m.term = "STOPPED_BY_RM" THEN [v EXCEPT !.keys = Del(v.keys, {m.key})]
                               ELSE [v EXCEPT !.keys = Upd(v.keys, m.key, IF v.keys[m.key] \in {"out", "relAnnOut"} THEN "relAnnOut" ELSE "relAnn")],
            IF ok THEN c ELSE c \cup {<<"release", m.key, m.term>>}>>
     [] m.t = "allocRejected" ->
          <<IF e.op \in {"addAsk", "reportBound", "updateAsk"} /\ m.key = e.key /\ m.key \in DOMAIN v.keys /\ v.kapp[m.key] = e.app
                /\ ~(\E j \in 1..Len(e.msgs) : e.msgs[j].t = "alloc" /\ e.msgs[j].key = m.key)
             THEN [v EXCEPT !.keys = Del(v.keys, {m.key})] ELSE v, c>>
     [] m.t = "appAccepted" -> <<[v EXCEPT !.apps = Upd(v.apps, m.app, "accepted")], IF (e.op = "addApp" /\ e.app = m.app) \/ e.op \in {"restart", "bad"} THEN c ELSE c \cup {<<"unsolicited", m.app>>}>>
     [] m.t = "appRejected" -> <<v, IF (e.op = "addApp" /\ e.app = m.app) \/ e.op \in {"restart", "bad"} THEN c ELSE c \cup {<<"unsolicited", m.app>>}>>
     [] m.t = "nodeAccepted" -> <<[v EXCEPT !.nodes = Upd(v.nodes, m.node, "accepted")], IF (e.op = "addNode" /\ e.node = m.node) \/ e.op \in {"restart", "bad"} THEN c ELSE c \cup {<<"unsolicitedNode", m.node>>}>>
     [] m.t = "nodeRejected" -> <<v, IF (e.op = "addNode" /\ e.node = m.node) \/ e.op \in {"restart", "bad"} THEN c ELSE c \cup {<<"unsolicitedNode", m.node>>}>>
     [] OTHER -> acc
RECURSIVE FoldMsgs(_, _, _, _)
FoldMsgs(acc, ms, i, e) == IF i > Len(ms) THEN acc ELSE FoldMsgs(OneMsg(acc, ms[i], e), ms, i + 1, e)
\* a re-submitted ask whose first incarnation is gone is rejected by allocRejected: the duplicate never became known
AfterStep(v, e) ==
   LET r == FoldMsgs(<<ShimOp(v, e), {}>>, e.msgs, 1, e)
       fin == IF e.op = "removeNode" /\ e.node \in DOMAIN r[1].nodes /\ r[1].nodes[e.node] = "removing"
              THEN [r[1] EXCEPT !.nodes = Upd(r[1].nodes, e.node, "removed")] ELSE r[1]
       answers == Cardinality({i \in 1..Len(e.msgs) : e.msgs[i].t \in {"appAccepted", "appRejected"}})
       nanswers == Cardinality({i \in 1..Len(e.msgs) : e.msgs[i].t \in {"nodeAccepted", "nodeRejected"}}) IN
   <<fin, r[2] \cup (IF e.op = "addApp" /\ e.panic = "" /\ answers # 1 THEN {<<"answers", answers>>} ELSE {})
               \cup (IF e.op = "addNode" /\ nanswers # 1 THEN {<<"nodeanswers", nanswers>>} ELSE {})
               \cup (IF e.op \notin {"addApp", "restart", "bad"} /\ answers # 0 THEN {<<"answers", answers>>} ELSE {})
               \cup (IF e.op \notin {"addNode", "restart", "bad"} /\ nanswers # 0 THEN {<<"nodeanswers", nanswers>>} ELSE {})>>

(* ====================================================================== history variables *)
QChanged(pre, post, field) == {q \in QueuesOf(pre) \cap QueuesOf(post) : pre.queues[q][field] # post.queues[q][field]}
NodeOfKey(s, k) == {n \in NodesOf(s) : k \in KeysOn(s, n)}
AppQueuePath(s, a) == IF a \in AppsOf(s) THEN Ancestors(s, s.apps[a].queue) ELSE {}
ForcedN(f, pre, post, e) ==
   CASE e.op = "reset" -> {}
     [] e.op = "restart" -> NodesOf(post)
     [] e.op \in {"reportBound", "foreign", "updateNode"} -> f \cup {e.node}
     [] e.op = "bad" /\ e.kind = "foreign.move" -> f \cup {e.node}      \* a foreign pod reported on another node: forced as well
     [] e.op = "updateAsk" -> f \cup NodeOfKey(pre, e.key)
     [] e.op = "addNode" -> IF \E m \in ToSet(e.msgs) : m.t = "nodeAccepted" THEN f \ {e.node} ELSE f
     [] OTHER -> f
ForcedQ(f, pre, post, e) ==
   LET base == CASE e.op = "reset" -> {}
                 [] e.op = "restart" -> QueuesOf(post)
                 [] e.op = "final" -> IF e.reloaded THEN QueuesOf(post) ELSE f
                 [] e.op \in {"reportBound", "updateAsk"} -> f \cup AppQueuePath(post, e.app) \cup AppQueuePath(pre, e.app)
                 [] e.op \in {"updateNode", "removeNode"} -> f \cup {"root"}
                 [] OTHER -> f IN
   IF e.op = "reset" THEN {} ELSE base \cup (QChanged(pre, post, "max") \ {"root"})
Lowered(f, pre, post, e) == IF e.op = "reset" THEN {} ELSE IF e.op = "restart" \/ (e.op = "final" /\ e.reloaded) THEN QueuesOf(post) ELSE f \cup QChanged(pre, post, "maxApps")

Init == /\ l = 1 /\ sv = AfterStep(SV0, Trace[1])[1] /\ bad = {}
        /\ fN = {} /\ fQ = {} /\ low = {} /\ den = {} /\ cnf = Trace[1].conf
Next == /\ l < Len(Trace) /\ l' = l + 1
        /\ LET e == Trace[l + 1]
               pre == St(l)
               post == St(l + 1)
               r == AfterStep(sv, e) IN
           /\ sv' = r[1] /\ bad' = r[2]
           /\ fN' = ForcedN(fN, pre, post, e)
           /\ fQ' = ForcedQ(fQ, pre, post, e)
           /\ low' = Lowered(low, pre, post, e)
           /\ den' = IF e.op = "reset" THEN {} ELSE IF e.op = "deny" THEN den \cup {<<e.key, e.node>>} ELSE den
           /\ cnf' = IF e.op = "reset" \/ (e.op = "reload" /\ e.ok) THEN e.conf ELSE cnf
Spec == Init /\ [][Next]_vars
Accepted == TLCGet("stats").diameter = Len(Trace)

Step == l > 1 /\ ~IsReset(l)
E == Trace[l]
s_live(s, a) == s.apps[a].state \in {"New", "Accepted", "Running", "Completing", "Resuming"}
Pre == St(l - 1)
Post == St(l)
PreAsk(pre, m) == IF m.app \in AppsOf(pre) /\ m.key \in DOMAIN pre.apps[m.app].asks THEN pre.apps[m.app].asks[m.key]
                  ELSE [res |-> EmptyRes, rel |-> "", ph |-> FALSE, allocated |-> FALSE, reqNode |-> "", tg |-> "", prio |-> 0, node |-> ""]
\* scheduler decided allocations: announced in a scheduling step
SchedAllocs == IF Step /\ E.op = "schedule" THEN {m \in Msgs(l) : m.t = "alloc"} ELSE {}
ReplRels == IF Step /\ E.op = "schedule" THEN {m \in Msgs(l) : m.t = "release" /\ m.term = "PLACEHOLDER_REPLACED"} ELSE {}
RealAvail(s, n) == RSub(RSub(s.nodes[n].cap, RSumSet(KeysOn(s, n), LAMBDA k : ResOfKey(s, k))), s.nodes[n].occ)

StripLog(ap) == [f \in DOMAIN ap \ {"newlog"} |-> ap[f]]
AppsNoLog(s) == [a \in AppsOf(s) |-> StripLog(s.apps[a])]

(* ====================================================================== C01 *)
C01_NodeLedger == NodeLedger(St(l))
C01_AvailNonNeg == NodeAvailOK(St(l), fN)
C01_Step == \A m \in SchedAllocs : LET a == PreAsk(Pre, m) IN
      /\ m.node \in NodesOf(Pre)
      /\ Pre.nodes[m.node].sched
      /\ FitIn(RealAvail(Pre, m.node), a.res)
      /\ (a.reqNode # "" => a.reqNode = m.node)
      /\ <<m.key, m.node>> \notin den
      /\ REq(a.res, m.res)
\* replacement decided on ANOTHER node than the placeholder's: the real allocation is placed there in this step
C01_ReplaceStep == \A m \in ReplRels :
      (m.app \in AppsOf(Pre) /\ m.app \in AppsOf(Post) /\ m.key \in DOMAIN Pre.apps[m.app].allocs /\ m.key \in DOMAIN Post.apps[m.app].allocs) =>
         LET ph == Pre.apps[m.app].allocs[m.key]
             rk == Post.apps[m.app].allocs[m.key].rel IN
         (rk \in DOMAIN Post.apps[m.app].asks /\ rk \in DOMAIN Pre.apps[m.app].asks) =>
            LET nr == Post.apps[m.app].asks[rk].node
                real == Pre.apps[m.app].asks[rk] IN
            nr # ph.node =>
               /\ nr \in NodesOf(Pre) /\ Pre.nodes[nr].sched
               /\ FitIn(RealAvail(Pre, nr), real.res)
               /\ <<rk, nr>> \notin den
               /\ (real.reqNode # "" => real.reqNode = nr)
               /\ rk \in KeysOn(Post, nr)
\* replacement decided in place (same node): nothing is re-checked against the node, which is only sound when the real
\* allocation is no larger than the placeholder it takes over from, or the node has the room for the difference anyway
C01_ReplaceInPlace == \A m \in ReplRels :
      (m.app \in AppsOf(Pre) /\ m.app \in AppsOf(Post) /\ m.key \in DOMAIN Pre.apps[m.app].allocs /\ m.key \in DOMAIN Post.apps[m.app].allocs) =>
         LET ph == Pre.apps[m.app].allocs[m.key]
             rk == Post.apps[m.app].allocs[m.key].rel IN
         (rk \in DOMAIN Post.apps[m.app].asks /\ rk \in DOMAIN Pre.apps[m.app].asks) =>
            LET nr == Post.apps[m.app].asks[rk].node
                real == Pre.apps[m.app].asks[rk] IN
            (nr = ph.node /\ nr \in NodesOf(Pre)) =>
               \/ \A t \in DOMAIN real.res : real.res[t] <= Get(ph.res, t)
               \/ FitIn(RAdd(RealAvail(Pre, nr), ph.res), real.res)

(* ====================================================================== C02 *)
\* judged on the resource types the ask uses: usage that an RM-forced change pushed above the maximum in ANOTHER type is not
\* made worse by this decision (the statement: "never makes the usage ... exceed")
C02_Step == \A m \in SchedAllocs : m.app \in AppsOf(Pre) =>
      \A q \in Ancestors(Pre, Pre.apps[m.app].queue) :
         LET r == PreAsk(Pre, m).res
             after == [t \in DOMAIN r |-> Get(Pre.queues[q].alloc, t) + r[t]] IN
         IF q = "root" THEN FitIn(Pre.queues[q].max, after)
         ELSE ~Pre.queues[q].hasMax \/ FitInMaxUndef(Pre.queues[q].max, after)
\* a placeholder replacement is a scheduling decision as well: it is taken without any queue check, which is only sound when
\* the real allocation is no larger than the placeholder, or every queue on the path has the room for the difference
C02_ReplaceStep == \A m \in ReplRels :
      (m.app \in AppsOf(Pre) /\ m.app \in AppsOf(Post) /\ m.key \in DOMAIN Pre.apps[m.app].allocs /\ m.key \in DOMAIN Post.apps[m.app].allocs) =>
         LET ph == Pre.apps[m.app].allocs[m.key]
             rk == Post.apps[m.app].allocs[m.key].rel IN
         rk \in DOMAIN Pre.apps[m.app].asks =>
            LET real == Pre.apps[m.app].asks[rk] IN
            \/ \A t \in DOMAIN real.res : real.res[t] <= Get(ph.res, t)
            \/ \A q \in Ancestors(Pre, Pre.apps[m.app].queue) :
                  LET after == RAdd(RSub(Pre.queues[q].alloc, ph.res), real.res) IN
                  IF q = "root" THEN FitIn(Pre.queues[q].max, after)
                  ELSE ~Pre.queues[q].hasMax \/ FitInMaxUndef(Pre.queues[q].max, after)
C02_Headroom == HeadroomChain(St(l))
C02_RootMax == RootMax(St(l))
C02_Usage == UsageWithinMax(St(l), fQ)
\* a scheduling step never increases the usage of any queue by more than what it announced
C02_NoSilentGrowth == (Step /\ E.op = "schedule") =>
      \A q \in QueuesOf(Pre) \cap QueuesOf(Post) :
         LET announced == RSumSet({m \in SchedAllocs : m.app \in AppsOf(Pre) /\ q \in Ancestors(Pre, Pre.apps[m.app].queue)}, LAMBDA m : m.res) IN
         \A t \in DOMAIN Post.queues[q].alloc : Post.queues[q].alloc[t] <= Get(Pre.queues[q].alloc, t) + Get(announced, t)

(* ====================================================================== C03 *)
C03_AppLedger == AppLedger(St(l))
C03_QueueLedger == QueueLedger(St(l))
C03_RootVsNodes == RootVsNodes(St(l))
C03_NoOrphans == NoOrphans(St(l))
C03_Counters == Counters(St(l))
C03_Preempting == PreemptingLedger(St(l))
C03_Drained == (E.op = "endDrain") => Drained(St(l))

(* ====================================================================== C04 *)
C04_Legal == bad = {}
\* a rejected application / node / ask leaves no trace
C04_RejectedNoTrace == Step =>
      /\ (E.op = "addApp" /\ (\E m \in Msgs(l) : m.t = "appRejected" /\ m.app = E.app) /\ E.app \notin AppsOf(Pre)) => E.app \notin AppsOf(Post)
      /\ (E.op = "addNode" /\ (\E m \in Msgs(l) : m.t = "nodeRejected" /\ m.node = E.node) /\ E.node \notin NodesOf(Pre)) => E.node \notin NodesOf(Post)
      /\ (E.op = "addApp" /\ (\E m \in Msgs(l) : m.t = "appRejected" /\ m.app = E.app)) =>
             (Pre.nodes = Post.nodes /\ \A q \in QueuesOf(Pre) : q \in QueuesOf(Post) /\ REq(Pre.queues[q].alloc, Post.queues[q].alloc) /\ REq(Pre.queues[q].pending, Post.queues[q].pending))

(* ====================================================================== C05 (usage side; limits: see UGM section) *)
C05_UserUsage == UserUsageOK(St(l))
C05_GroupUsage == GroupUsageOK(St(l))
C05_NoGhostUser == NoGhostUser(St(l))
\* Enforcement at every scheduler decision: the limits in force are read from the trackers' own view (REST usage DAO:
\* maxResources / maxApplications per user or group and queue); that the trackers carry exactly the limits of the latest
\* configuration is decided by the lock-step check of the manager (spec/UGM.tla).
LimitOK(trk, q, res) == (q \in DOMAIN trk /\ trk[q].hasMax /\ DOMAIN trk[q].max # {}) =>
      \A t \in DOMAIN trk[q].max : Get(trk[q].usage, t) + Get(res, t) <= trk[q].max[t]
\* admission = the first allocation of an application that is still Accepted; an application that comes back from
\* Completing is Running again without being admitted anew (same rule as the queue gate, C11)
AppsOK(trk, q, a) == (q \in DOMAIN trk /\ trk[q].maxApps > 0 /\ a \notin ToSet(trk[q].apps) /\ Pre.apps[a].state = "Accepted") => Len(trk[q].apps) + 1 <= trk[q].maxApps
C05_Step == \A m \in SchedAllocs : m.app \in AppsOf(Pre) =>
      LET u == Pre.apps[m.app].user
          path == Ancestors(Pre, Pre.apps[m.app].queue)
          res == PreAsk(Pre, m).res
          grp == {g \in DOMAIN Post.groups : m.app \in ToSet(Post.groups[g].apps)} IN
      /\ (u \in DOMAIN Pre.users => \A q \in path : LimitOK(Pre.users[u], q, res) /\ AppsOK(Pre.users[u], q, m.app))
      /\ \A g \in grp : g \in DOMAIN Pre.groups => \A q \in path : LimitOK(Pre.groups[g].q, q, res) /\ AppsOK(Pre.groups[g].q, q, m.app)
C05_TrackerApps == TrackerApps(St(l))

(* ====================================================================== C06 *)
C06_Counts == GangCounts(St(l))
C06_ReplaceStep == \A m \in ReplRels :
      /\ m.app \in AppsOf(Pre) /\ m.key \in DOMAIN Pre.apps[m.app].allocs
      /\ m.app \in AppsOf(Post) /\ m.key \in DOMAIN Post.apps[m.app].allocs
      /\ LET ph == Pre.apps[m.app].allocs[m.key]
             rk == Post.apps[m.app].allocs[m.key].rel IN
         /\ ph.ph /\ ~ph.released /\ ~ph.preempted /\ ph.allocated
         /\ rk \in DOMAIN Pre.apps[m.app].asks
         /\ LET real == Pre.apps[m.app].asks[rk] IN
            /\ ~real.allocated /\ ~real.ph
            /\ real.tg = ph.tg
            /\ \A t \in DOMAIN real.res \cup DOMAIN ph.res : Get(real.res, t) <= Get(ph.res, t)
\* the shim confirms the release of a placeholder that is being replaced
IsReplConfirm == Step /\ E.op = "confirm" /\ ~E.none /\ E.term = "PLACEHOLDER_REPLACED"
                 /\ E.app \in AppsOf(Pre) /\ E.key \in DOMAIN Pre.apps[E.app].allocs
                 /\ Pre.apps[E.app].allocs[E.key].ph /\ Pre.apps[E.app].allocs[E.key].rel # ""
C06_ConfirmStep == IsReplConfirm =>
      LET ph == Pre.apps[E.app].allocs[E.key]
          rk == ph.rel
          leaf == Pre.apps[E.app].queue IN
      /\ \A n \in NodesOf(Post) : E.key \notin KeysOn(Post, n)
      /\ (E.app \in AppsOf(Post) => E.key \notin DOMAIN Post.apps[E.app].allocs)
      /\ \A q \in Ancestors(Pre, leaf) : q \in QueuesOf(Post) => \A t \in DOMAIN Post.queues[q].alloc : Post.queues[q].alloc[t] <= Get(Pre.queues[q].alloc, t)
      /\ \A n \in NodesOf(Post) : n \in NodesOf(Pre) => \A t \in DOMAIN Post.nodes[n].alloc : Post.nodes[n].alloc[t] <= Get(Pre.nodes[n].alloc, t)
      /\ (rk \in DOMAIN Pre.apps[E.app].asks /\ E.app \in AppsOf(Post)) =>
            /\ rk \in DOMAIN Post.apps[E.app].allocs
            /\ Post.apps[E.app].allocs[rk].allocated /\ ~Post.apps[E.app].allocs[rk].ph
            /\ Cardinality({i \in 1..Len(E.msgs) : E.msgs[i].t = "alloc" /\ E.msgs[i].key = rk}) = 1
            \* usage reflects the real allocation: exactly the placeholder is taken out and the real allocation put in
            /\ LET real == Pre.apps[E.app].asks[rk]
                   Swap(r) == RAdd(RSub(r, ph.res), real.res) IN
               /\ \A q \in Ancestors(Pre, leaf) : q \in QueuesOf(Post) => REq(Post.queues[q].alloc, Swap(Pre.queues[q].alloc))
               /\ REq(RAdd(Post.apps[E.app].alloc, Post.apps[E.app].phAlloc), Swap(RAdd(Pre.apps[E.app].alloc, Pre.apps[E.app].phAlloc)))
               /\ (ph.node \in NodesOf(Pre) /\ ph.node \in NodesOf(Post)) =>
                     REq(Post.nodes[ph.node].alloc, IF real.node = ph.node THEN Swap(Pre.nodes[ph.node].alloc) ELSE RSub(Pre.nodes[ph.node].alloc, ph.res))
               /\ (real.node # ph.node /\ real.node \in NodesOf(Pre) /\ real.node \in NodesOf(Post)) => REq(Post.nodes[real.node].alloc, Pre.nodes[real.node].alloc)
\* placeholder timeout before any real allocation
C06_TimeoutStep == (Step /\ E.op = "firePhTimer" /\ E.armed /\ E.panic = "" /\ E.app \in AppsOf(Pre)) =>
      LET ap == Pre.apps[E.app]
          reals == {k \in DOMAIN ap.allocs : ~ap.allocs[k].ph} IN
      (ap.state = "Accepted" /\ reals = {} /\ InFlightRealOf(Pre, E.app) = {}) =>
         /\ IF E.style = "Hard" THEN \E i \in 1..Len(F(Post.apps, E.app, [newlog |-> <<>>]).newlog) : Post.apps[E.app].newlog[i] = "Failing"
                                 \/ E.app \notin AppsOf(Post)
            ELSE E.app \in AppsOf(Post) /\ \E i \in 1..Len(Post.apps[E.app].newlog) : Post.apps[E.app].newlog[i] = "Resuming"
         /\ \A k \in DOMAIN ap.allocs : (ap.allocs[k].ph /\ ~ap.allocs[k].preempted) =>
               \/ \E m \in Msgs(l) : m.t = "release" /\ m.key = k /\ m.term = "TIMEOUT"
         /\ (E.app \in AppsOf(Post)) => \A k \in DOMAIN Post.apps[E.app].asks : ~(Post.apps[E.app].asks[k].ph /\ ~Post.apps[E.app].asks[k].allocated)

(* ====================================================================== C09 *)
C09_Views == ResvViews(St(l))
C09_Step == \A m \in SchedAllocs : m.node \in NodesOf(Pre) =>
      \/ Pre.nodes[m.node].resv = <<>>
      \/ m.key \in ToSet(Pre.nodes[m.node].resv)
      \/ /\ PreAsk(Pre, m).reqNode = m.node       \* required-node asks may cancel ordinary reservations
         /\ \A k \in ToSet(Pre.nodes[m.node].resv) : \A x \in AskRecs(Pre) : x[2] = k => x[3].reqNode = ""
\* an allocated (or vanished) ask holds no reservation after the step that allocated it
C09_Released == Step => \A m \in SchedAllocs : \A n \in NodesOf(Post) : m.key \notin ToSet(Post.nodes[n].resv)

(* ====================================================================== C10 *)
PrevState(a) == IF Step /\ E.op \notin {"restart", "final"} /\ a \in AppsOf(Pre) THEN Pre.apps[a].state ELSE "New"
C10_Transitions == LET s == St(l) IN \A a \in AppsOf(s) :
      LET lg == <<PrevState(a)>> \o s.apps[a].newlog IN
      /\ \A i \in 1..(Len(lg) - 1) : <<lg[i], lg[i+1]>> \in AllowedTransitions
      /\ lg[Len(lg)] = s.apps[a].state
C10_MsgStates == \A m \in Msgs(l) : m.t = "appState" => m.state \in AppStates
C10_CompletedClean == CompletedClean(St(l))
C10_Idle == IdleLeavesRunning(St(l))
C10_CompletingHoldsNoReal == CompletingHoldsNoReal(St(l))
\* an application that leaves the partition as Completed on its own (timer) held no real allocation and no pending ask
C10_CompletedHeldNothing == (Step /\ E.op # "removeApp") => \A a \in AppsOf(Pre) \ AppsOf(Post) :
      (\E i \in 1..Len(Post.done) : Post.done[i] = a \o ":Completed") =>
         \* (what this very step released, e.g. with its node, does not count)
         /\ {k \in DOMAIN Pre.apps[a].allocs : ~Pre.apps[a].allocs[k].ph /\ ~\E m \in Msgs(l) : m.t = "release" /\ m.key = k} = {}
         \* ... nor the real half of a replacement that was still waiting for its confirmation
         /\ InFlightRealOf(Pre, a) = {}
         /\ (E.op \notin {"release", "releaseAll", "removeNode"} => {k \in DOMAIN Pre.apps[a].asks : ~Pre.apps[a].asks[k].allocated} = {})
C10_LiveHaveQueue == LiveAppsHaveQueue(St(l))
C10_StateTimer == (Step /\ E.op = "fireStateTimer" /\ E.armed /\ E.was = "Completing" /\ E.app \in AppsOf(Pre)) =>
      ((DOMAIN Pre.apps[E.app].allocs = {} /\ DOMAIN Pre.apps[E.app].asks = {}) =>
          /\ E.app \notin AppsOf(Post)
          /\ \E i \in 1..Len(Post.done) : Post.done[i] = E.app \o ":Completed")
C10_NoAskAfterTerm == (Step /\ E.op = "addAsk" /\ E.app \notin AppsOf(Pre) /\ E.panic = "") =>
      /\ \E m \in Msgs(l) : m.t = "allocRejected" /\ m.key = E.key
      /\ \A x \in AskRecs(Post) : ~(x[2] = E.key /\ x[1] = E.app)

(* ====================================================================== C11 *)
C11_Counts == MaxAppsCounts(St(l), low)
C11_Step == \A m \in SchedAllocs : (m.app \in AppsOf(Pre) /\ Pre.apps[m.app].state = "Accepted") =>
      \A q \in Ancestors(Pre, Pre.apps[m.app].queue) : LET qu == Pre.queues[q] IN
         (qu.maxApps > 0 /\ m.app \notin ToSet(qu.allocating)) => qu.running + Len(qu.allocating) + 1 <= qu.maxApps

(* ====================================================================== C12 restart recovery *)
IsRestart == E.op = "restart" /\ E.panic = ""
C12_NothingRejected == IsRestart => ~\E m \in Msgs(l) : m.t \in {"appRejected", "nodeRejected", "allocRejected"}
\* per node / application / leaf queue / user the new core's totals are what the shim's knowledge implies ...
C12_Nodes == IsRestart => LET x == E.expect.nodes
                             n == St(l).nodes IN
      /\ DOMAIN x = DOMAIN n
      /\ \A k \in DOMAIN x : REq(x[k].alloc, n[k].alloc) /\ REq(x[k].occ, n[k].occ) /\ x[k].sched = n[k].sched
C12_Apps == IsRestart => LET x == E.expect.apps
                            n == St(l).apps IN
      /\ DOMAIN x = DOMAIN n
      /\ \A k \in DOMAIN x : REq(x[k].alloc, n[k].alloc) /\ REq(x[k].phAlloc, n[k].phAlloc) /\ REq(x[k].pending, n[k].pending)
\* ... and, when nothing was in flight at the crash, they are exactly the old core's totals
C12_SameAsOld == (IsRestart /\ E.inflight = 0 /\ InFlightReal(E.old) = {}) => LET o == E.old
                                                                                  n == St(l) IN
      /\ DOMAIN o.nodes = DOMAIN n.nodes
      /\ \A x \in DOMAIN o.nodes : REq(o.nodes[x].alloc, n.nodes[x].alloc) /\ REq(o.nodes[x].occ, n.nodes[x].occ) /\ o.nodes[x].keys = n.nodes[x].keys
      /\ \A a \in AppsOf(o) : s_live(o, a) => (a \in AppsOf(n) /\ REq(o.apps[a].alloc, n.apps[a].alloc) /\ REq(o.apps[a].phAlloc, n.apps[a].phAlloc) /\ REq(o.apps[a].pending, n.apps[a].pending))
      /\ \A q \in QueuesOf(o) : o.queues[q].managed => (q \in QueuesOf(n) /\ REq(o.queues[q].alloc, n.queues[q].alloc) /\ REq(o.queues[q].pending, n.queues[q].pending))
      /\ \A u \in DOMAIN o.users : \A q \in DOMAIN o.users[u] : (~RZero(o.users[u][q].usage)) =>
             (u \in DOMAIN n.users /\ q \in DOMAIN n.users[u] /\ REq(o.users[u][q].usage, n.users[u][q].usage))

(* ====================================================================== C13 (no panic; "bad" operations: see Bad section) *)
\* malformed requests ("bad" operations, harness/drive/bad.go): an invalid item is answered with the matching rejection and
\* leaves every ledger exactly as it was
IsBad == Step /\ E.op = "bad" /\ E.skipped = "" /\ E.panic = ""
SameBooks(pre, post) ==
      /\ pre.nodes = post.nodes /\ pre.queues = post.queues /\ AppsNoLog(pre) = AppsNoLog(post)
      /\ pre.users = post.users /\ pre.groups = post.groups /\ pre.counters = post.counters /\ pre.done = post.done
C13_BadUnchanged == (IsBad /\ E.expect = "unchanged") => SameBooks(Pre, Post)
C13_BadRejected == IsBad =>
      /\ (E.rej = "app" => \E m \in Msgs(l) : m.t = "appRejected" /\ m.app = E.app)
      /\ (E.rej = "alloc" => \E m \in Msgs(l) : m.t = "allocRejected" /\ m.key = E.key)
      /\ (E.rej = "node" => \E m \in Msgs(l) : m.t = "nodeRejected" /\ m.node = E.node)
      /\ (E.expect = "unchanged" => ~\E m \in Msgs(l) : m.t \in {"alloc", "appAccepted", "nodeAccepted", "release"})
C13_NoPanic == E.panic = ""
C13_NoHang == ~E.hang

(* ====================================================================== C16 reload *)
IsReload == Step /\ E.op = "reload"
ConfQueue(c, q) == LET S == {i \in 1..Len(c.queues) : c.queues[i].path = q} IN c.queues[CHOOSE i \in S : TRUE]
ConfPaths(c) == {c.queues[i].path : i \in 1..Len(c.queues)} \cup {"root"}
\* a dynamic leaf created directly below a configured parent that carries a child template has exactly the template's
\* limits: a type the template maximum defines - also as 0, "none allowed" - is defined for the queue, a type it omits is not
C02_Template == \A q \in QueuesOf(St(l)) :
      LET qq == St(l).queues[q] IN
      (~qq.managed /\ qq.leaf /\ qq.parent \in ConfPaths(cnf) \ {"root"} /\ ConfQueue(cnf, qq.parent).tmpl) =>
         LET t == ConfQueue(cnf, qq.parent) IN
         /\ RDeepEq(qq.max, t.tmplMax) /\ RDeepEq(qq.guar, t.tmplGuar) /\ qq.maxApps = t.tmplMaxApps
C16_Rejected == (IsReload /\ ~E.ok) =>
      /\ Pre.queues = Post.queues /\ Pre.nodes = Post.nodes /\ Pre.users = Post.users /\ Pre.groups = Post.groups
      /\ AppsNoLog(Pre) = AppsNoLog(Post)
C16_Preserve == (IsReload /\ E.ok) =>
      /\ Pre.nodes = Post.nodes
      /\ AppsNoLog(Pre) = AppsNoLog(Post)
      /\ \A q \in QueuesOf(Pre) : q \in QueuesOf(Post)
      /\ \A q \in QueuesOf(Pre) : /\ REq(Pre.queues[q].alloc, Post.queues[q].alloc) /\ REq(Pre.queues[q].pending, Post.queues[q].pending)
                                  /\ Pre.queues[q].running = Post.queues[q].running /\ Pre.queues[q].allocating = Post.queues[q].allocating
                                  /\ Pre.queues[q].reservedApps = Post.queues[q].reservedApps
C16_Applied == (IsReload /\ E.ok) =>
      LET c == E.conf IN
      /\ \A q \in ConfPaths(c) : q \in QueuesOf(Post) /\ Post.queues[q].status = "Active" /\ Post.queues[q].managed
      /\ \A q \in ConfPaths(c) \ {"root"} : LET cq == ConfQueue(c, q) IN
             /\ RDeepEq(Post.queues[q].max, cq.max)
             /\ RDeepEq(Post.queues[q].guar, cq.guar)
             /\ Post.queues[q].maxApps = cq.maxApps
             /\ \A k \in DOMAIN cq.props : k \in DOMAIN Post.queues[q].props /\ Post.queues[q].props[k] = cq.props[k]
      /\ \A q \in QueuesOf(Pre) : (Pre.queues[q].managed /\ q \notin ConfPaths(c)) => Post.queues[q].status = "Draining"
C16_DrainingNoNewApps == (Step /\ E.op = "addApp") =>
      ((E.queue \in QueuesOf(Pre) /\ Pre.queues[E.queue].status = "Draining" /\ E.app \notin AppsOf(Pre)) =>
          \E m \in Msgs(l) : m.t = "appRejected" /\ m.app = E.app)
\* "existing ones keep running": an application in a draining leaf is still scheduled.  Judged only in the plainest situation, so
\* that no legitimate reason for waiting can apply: a scheduling cycle that decides nothing at all (no message, no new
\* reservation) although an application in a draining leaf has a plain pending ask (no task group, no required node, not
\* refused anywhere) that fits a schedulable unreserved node and every queue maximum on its path, nothing is reserved anywhere,
\* no user/group limit and no application limit is configured, and the application is already running.
PlainFit(s, a, k) ==
      LET x == s.apps[a].asks[k] IN
      /\ ~x.allocated /\ ~x.ph /\ x.tg = "" /\ x.reqNode = "" /\ \A n \in NodesOf(s) : <<k, n>> \notin den
      /\ \E n \in NodesOf(s) : s.nodes[n].sched /\ Len(s.nodes[n].resv) = 0 /\ FitIn(s.nodes[n].avail, x.res) /\ FitIn(RealAvail(s, n), x.res)
      /\ \A q \in Ancestors(s, s.apps[a].queue) :
            /\ s.queues[q].status \in {"Active", "Draining"} /\ s.queues[q].maxApps = 0
            /\ IF q = "root" THEN FitIn(s.queues[q].max, RAdd(s.queues[q].alloc, x.res))
               ELSE ~s.queues[q].hasMax \/ FitInMaxUndef(s.queues[q].max, RAdd(s.queues[q].alloc, x.res))
C16_DrainingKeepsScheduling == (Step /\ E.op = "schedule" /\ E.panic = "" /\ Len(E.msgs) = 0) =>
      ~(/\ \A i \in 1..Len(cnf.queues) : Len(cnf.queues[i].limits) = 0
        /\ AppResv(Pre) = {} /\ NodeResv(Pre) = {} /\ AppResv(Post) = {}
        /\ \E a \in AppsOf(Pre) : /\ Pre.apps[a].state = "Running" /\ RZero(Pre.apps[a].phAlloc)
                                  /\ Pre.queues[Pre.apps[a].queue].status = "Draining"
                                  /\ \E k \in DOMAIN Pre.apps[a].asks : PlainFit(Pre, a, k))
\* queues disappear only in a cleaner pass, and only empty draining/dynamic ones
C16_Removal == Step => \A q \in QueuesOf(Pre) \ QueuesOf(Post) :
      /\ E.op \in {"cleanQueues", "restart", "removeApp", "fireStateTimer", "confirm", "release", "releaseAll", "removeNode", "schedule", "firePhTimer"}
      /\ (Pre.queues[q].status = "Draining" \/ ~Pre.queues[q].managed)
      /\ RZero(Pre.queues[q].alloc) /\ RZero(Pre.queues[q].pending)
      /\ (E.op = "cleanQueues" => \A a \in AppsOf(Pre) : Pre.apps[a].queue # q)

\* the application limit an application's namespace tag asks for is in force on its dynamic (unmanaged) leaf queue
C11_TagMaxApps == (Step /\ E.op = "addApp" /\ "tagMaxApps" \in DOMAIN E /\ E.app \in AppsOf(Post) /\ E.app \notin AppsOf(Pre)) =>
      LET q == Post.apps[E.app].queue IN
      (q \in QueuesOf(Post) /\ ~Post.queues[q].managed) => Post.queues[q].maxApps = E.tagMaxApps

(* ====================================================================== C07 / C08 preemption *)
PreemptRel == IF Step THEN SelectSeq(E.msgs, LAMBDA m : m.t = "release" /\ m.term = "PREEMPTED_BY_SCHEDULER") ELSE <<>>
\* the ask that triggered: its "triggered" flag flips in this step
Triggering == IF Step THEN {x \in AskRecs(Post) : x[3].trig /\ x[1] \in AppsOf(Pre) /\ x[2] \in DOMAIN Pre.apps[x[1]].asks /\ ~Pre.apps[x[1]].asks[x[2]].trig} ELSE {}
LeafOf(s, a) == s.apps[a].queue
RECURSIVE FenceRootR(_, _, _)
FenceRootR(s, q, fuel) == IF fuel = 0 \/ s.queues[q].parent = "" \/ s.queues[q].parent \notin QueuesOf(s) \/ s.queues[q].fence THEN q ELSE FenceRootR(s, s.queues[q].parent, fuel - 1)
FenceRoot(s, q) == FenceRootR(s, q, 8)
VictimRec(pre, m) == pre.apps[m.app].allocs[m.key]
SumOffsets(s, Q) == FoldSet(LAMBDA q, acc : acc + s.queues[q].prioOffset, 0, Q)
\* Relative priority (documented semantics of priority.offset / priority.policy=fence):
\* going up from the asker's leaf to (excluding) the first common ancestor the ask priority accumulates the queue
\* offsets, a priority fence resets it to the fence's own offset; going down towards the victim's leaf an
\* unfenced queue's offset is subtracted, a fenced queue whose offset is higher than the ask priority at that level
\* is off limits and otherwise makes every task below it eligible.
RECURSIVE AskPrioUp(_, _, _, _)
AskPrioUp(s, path, i, acc) == IF i > Len(path) THEN acc
      ELSE AskPrioUp(s, path, i + 1, IF s.queues[path[i]].prioFence THEN s.queues[path[i]].prioOffset ELSE acc + s.queues[path[i]].prioOffset)
RECURSIVE VictimPrioDown(_, _, _, _, _, _)
VictimPrioDown(s, path, i, cur, fenced, vprio) ==      \* path = victim-only queues, top first
      IF i > Len(path) THEN fenced \/ vprio <= cur
      ELSE IF s.queues[path[i]].prioFence
           THEN s.queues[path[i]].prioOffset <= cur /\ VictimPrioDown(s, path, i + 1, cur, TRUE, vprio)
           ELSE VictimPrioDown(s, path, i + 1, cur - s.queues[path[i]].prioOffset, fenced, vprio)
PrioEligible(s, askQ, vq, askPrio, vPrio) ==
      LET common == Ancestors(s, askQ) \cap Ancestors(s, vq)
          askOnly == SelectSeq(PathUp(s, askQ), LAMBDA q : q \notin common)
          vOnly == Reverse(SelectSeq(PathUp(s, vq), LAMBDA q : q \notin common)) IN
      VictimPrioDown(s, vOnly, 1, AskPrioUp(s, askOnly, 1, askPrio), FALSE, vPrio)
HasPreempt == Step /\ Len(PreemptRel) > 0
C07_Victims == HasPreempt =>
      \A i \in 1..Len(PreemptRel) : LET m == PreemptRel[i] IN
         /\ m.app \in AppsOf(Pre) /\ m.key \in DOMAIN Pre.apps[m.app].allocs
         /\ LET v == VictimRec(Pre, m) IN v.allocated /\ ~v.released /\ ~v.preempted /\ v.reqNode = ""
         /\ \A j \in 1..Len(PreemptRel) : j # i => PreemptRel[j].key # m.key
         /\ ((m.app \in AppsOf(Post) /\ m.key \in DOMAIN Post.apps[m.app].allocs) => Post.apps[m.app].allocs[m.key].preempted)
\* One scheduling cycle can trigger preemption for several asks: the reserved-allocation pass runs the required-node
\* preemptor for every reserved daemon-set ask and carries on, and the normal pass can then trigger one queue preemption
\* per partition.  So a step has at least one triggering ask, and every victim must be explained by one of them.
C07_Asker == (HasPreempt /\ E.op = "schedule") => Triggering # {}
IsPreemptStep == HasPreempt /\ E.op = "schedule" /\ Triggering # {}
IsQueuePreempt == HasPreempt /\ E.op = "schedule" /\ Cardinality(Triggering) = 1
TheAsker == CHOOSE x \in Triggering : TRUE
VictimOKFor(a, m) ==
      LET askQ == LeafOf(Pre, a[1])
          fr == FenceRoot(Pre, askQ)
          v == VictimRec(Pre, m)
          vq == LeafOf(Pre, m.app) IN
      IF a[3].reqNode # "" THEN v.node = a[3].reqNode /\ v.prio <= a[3].prio
      ELSE /\ a[3].preemptOther /\ a[3].aged
           /\ vq # askQ
           /\ fr \in Ancestors(Pre, vq)
           /\ Pre.queues[vq].preemptEnabled
           /\ \E t \in DOMAIN a[3].res : t \in DOMAIN v.res
           /\ PrioEligible(Pre, askQ, vq, a[3].prio, v.prio)
C07_QueueRules == IsPreemptStep =>
      /\ \A i \in 1..Len(PreemptRel) : \E a \in Triggering : VictimOKFor(a, PreemptRel[i])
      \* an ask that may not preempt others, or has not waited long enough, never triggers queue preemption
      /\ \A a \in Triggering : a[3].reqNode # "" \/ (a[3].preemptOther /\ a[3].aged)
Used(s, q) == RSub(s.queues[q].alloc, s.queues[q].preempting)
UnderGuar(s, q, res) == \E g \in Ancestors(s, q) : \E t \in DOMAIN res : t \in DOMAIN s.queues[g].guar /\ Get(Used(s, g), t) < s.queues[g].guar[t]
C08_AskUnder == IsQueuePreempt =>
      LET a == TheAsker IN a[3].reqNode # "" \/ UnderGuar(Pre, LeafOf(Pre, a[1]), a[3].res)
\* resources of the victims taken before the i-th one from the subtree of queue q
RECURSIVE TakenBefore(_, _, _, _)
TakenBefore(pre, rels, i, q) == IF i = 0 THEN EmptyRes ELSE
      LET m == rels[i]
          rest == TakenBefore(pre, rels, i - 1, q) IN
      IF q \in Ancestors(pre, LeafOf(pre, m.app)) THEN RAdd(rest, VictimRec(pre, m).res) ELSE rest
\* The guaranteed share is hierarchical (the implementation takes the component-wise minimum of the remaining
\* guarantee along the path): a victim may be taken when its leaf OR one of its ancestors is strictly above its
\* guarantee on a type the ask needs at that moment, or when no queue on its path guarantees any such type.
C08_VictimOver == IsQueuePreempt =>
      LET a == TheAsker
          rels == PreemptRel IN
      a[3].reqNode # "" \/
      \A i \in 1..Len(rels) : LET m == rels[i]
                                  \* queues the victim does not share with the asker (a guarantee of a common ancestor protects both)
                                  path == Ancestors(Pre, LeafOf(Pre, m.app)) \ Ancestors(Pre, LeafOf(Pre, a[1]))
                                  gq == {q \in path : DOMAIN Pre.queues[q].guar \cap DOMAIN a[3].res # {}} IN
            gq = {} \/ \E q \in gq : \E t \in DOMAIN Pre.queues[q].guar \cap DOMAIN a[3].res :
                  Get(Used(Pre, q), t) - Get(TakenBefore(Pre, rels, i - 1, q), t) > Pre.queues[q].guar[t]
C08_Covers == IsQueuePreempt =>
      LET a == TheAsker
          rels == PreemptRel IN
      a[3].reqNode # "" \/
      (/\ a[2] \in DOMAIN Post.apps[a[1]].resv
       /\ LET n == Post.apps[a[1]].resv[a[2]]
              onNode == {i \in 1..Len(rels) : VictimRec(Pre, rels[i]).node = n}
              freed == RSumSet(onNode, LAMBDA i : VictimRec(Pre, rels[i]).res) IN
          n \in NodesOf(Pre) /\
          \/ FitIn(Pre.nodes[n].avail, a[3].res)
          \* free space below zero (an externally forced over-commit) counts as no free space
          \/ \A t \in DOMAIN a[3].res : a[3].res[t] <= Pos(Get(Pre.nodes[n].avail, t)) + Get(freed, t))
\* Quota-change preemption (the quota tick) "never claims more than the amount by which a queue exceeds its lowered maximum":
\* victims come whole, so the claim on a queue may overshoot by less than one victim - every victim must lie below some
\* queue with a maximum whose excess (usage net of what is already being preempted) is larger than what this tick claims
\* there without its largest victim.  (Order free: the releases of one tick are announced per application.)
C08_QuotaClaim == (Step /\ E.op = "quotaTick" /\ Len(PreemptRel) > 0) =>
      LET rels == PreemptRel
          Vic(q) == {i \in 1..Len(rels) : rels[i].app \in AppsOf(Pre) /\ q \in Ancestors(Pre, LeafOf(Pre, rels[i].app))}
          Claimed(q, t) == LET S == Vic(q) IN IF S = {} THEN 0 ELSE Get(RSumSet(S, LAMBDA i : VictimRec(Pre, rels[i]).res), t)
          Largest(q, t) == LET S == {Get(VictimRec(Pre, rels[i]).res, t) : i \in Vic(q)} IN IF S = {} THEN 0 ELSE CHOOSE m \in S : \A x \in S : x <= m
          Justified(q, t) == Get(Used(Pre, q), t) - Pre.queues[q].max[t] > Claimed(q, t) - Largest(q, t) IN
      \A i \in 1..Len(rels) : rels[i].app \in AppsOf(Pre) =>
         \E q \in Ancestors(Pre, LeafOf(Pre, rels[i].app)) :
            q # "root" /\ Pre.queues[q].hasMax /\ \E t \in DOMAIN Pre.queues[q].max \cap DOMAIN VictimRec(Pre, rels[i]).res : Justified(q, t)
\* no victim => nothing marked, nothing tracked as preempting
C08_NoEffectNoMark == (Step /\ Len(PreemptRel) = 0 /\ E.op = "schedule") =>
      /\ \A q \in QueuesOf(Pre) \cap QueuesOf(Post) : \A t \in DOMAIN Post.queues[q].preempting : Post.queues[q].preempting[t] <= Get(Pre.queues[q].preempting, t)
      /\ \A x \in AllocRecs(Post) : x[3].preempted => (x[1] \in AppsOf(Pre) /\ x[2] \in DOMAIN Pre.apps[x[1]].allocs /\ Pre.apps[x[1]].allocs[x[2]].preempted)


(* ====================================================================== known findings *)
(* Each known finding (KNOWN_FINDINGS.json, status "known") has ONE narrow shape predicate over the step that    *)
(* triggers the defect. When it holds the validator prints a KF line; the check scripts attribute a failing      *)
(* check to the finding only if the finding lists that check and the shape occurred at that step (step checks)   *)
(* or earlier in the same trace (state checks, whose damage persists). Everything else stays a violation.        *)
KFHit(id, cond) == IF id \in KFEnabled /\ cond THEN PrintT(<<"KF", id, l>>) ELSE TRUE
\* a required-node ask is bound to its node although the node is unschedulable (drained)
KF_ReqNodeUnsched == \E m \in SchedAllocs : m.node \in NodesOf(Pre) /\ ~Pre.nodes[m.node].sched /\ PreAsk(Pre, m).reqNode = m.node
\* the shim releases a real ask while that ask is the real half of an in-flight placeholder swap
KF_ReleaseLinkedReal == Step /\ E.op = "release" /\ E.app \in AppsOf(Pre) /\ E.key \in DOMAIN Pre.apps[E.app].asks
                        /\ ~Pre.apps[E.app].asks[E.key].ph /\ Pre.apps[E.app].asks[E.key].rel # ""
\* a placeholder that is being replaced is released by anything but the replacement confirmation
KF_PhReleasedInFlight == Step /\ E.op = "release" /\ E.app \in AppsOf(Pre) /\ E.key \in DOMAIN Pre.apps[E.app].allocs
                        /\ Pre.apps[E.app].allocs[E.key].ph /\ Pre.apps[E.app].allocs[E.key].rel # ""
\* the placeholder timeout fires for an application that is still Accepted (not all placeholders allocated yet) while one
\* of its placeholders is being replaced
KF_PhTimeoutInFlight == Step /\ E.op = "firePhTimer" /\ E.armed /\ E.app \in AppsOf(Pre) /\ Pre.apps[E.app].state = "Accepted"
      /\ \E k \in DOMAIN Pre.apps[E.app].allocs : Pre.apps[E.app].allocs[k].ph /\ Pre.apps[E.app].allocs[k].rel # ""
\* the placeholder timeout fires for a Hard application that is still Accepted although it already holds a real allocation
KF_HardTimeoutWithReal == Step /\ E.op = "firePhTimer" /\ E.armed /\ E.style = "Hard" /\ E.app \in AppsOf(Pre) /\ Pre.apps[E.app].state = "Accepted"
      /\ \E k \in DOMAIN Pre.apps[E.app].allocs : ~Pre.apps[E.app].allocs[k].ph
\* the shim confirms a placeholder replacement while the application is Completing
KF_ConfirmWhileCompleting == IsReplConfirm /\ Pre.apps[E.app].state = "Completing"
\* a Soft gang application resumes (Resuming -> Accepted) with neither asks nor allocations left
KF_SoftResumeIdle == Step /\ \E a \in AppsOf(Post) :
      /\ LET lg == <<PrevState(a)>> \o Post.apps[a].newlog IN \E i \in 1..(Len(lg) - 1) : lg[i] = "Resuming" /\ lg[i + 1] = "Accepted"
      /\ DOMAIN Post.apps[a].allocs = {} /\ DOMAIN Post.apps[a].asks = {}
\* a reserved real ask is picked for placeholder replacement and keeps its node reservation
KF_ReservedAskReplaces == \E m \in ReplRels : m.app \in AppsOf(Post) /\ m.key \in DOMAIN Post.apps[m.app].allocs /\
      Post.apps[m.app].allocs[m.key].rel \in DOMAIN Pre.apps[m.app].resv
\* an application becomes Completing with no allocation left (its last ask was removed) but stays listed as
\* running in the tracker of its user: nothing will ever remove it from there
KF_TrackerAppGhost == Step /\ \E a \in AppsOf(Post) :
      /\ \E i \in 1..Len(Post.apps[a].newlog) : Post.apps[a].newlog[i] = "Completing"
      /\ DOMAIN Post.apps[a].allocs = {}
      /\ Post.apps[a].user \in DOMAIN Post.users
      /\ \E qp \in DOMAIN Post.users[Post.apps[a].user] : a \in ToSet(Post.users[Post.apps[a].user][qp].apps)
\* the shim changes the resources of a real ask in place while that ask is the real half of an in-flight swap
KF_UpdateLinkedReal == Step /\ E.op = "updateAsk" /\ E.app \in AppsOf(Pre) /\ E.key \in DOMAIN Pre.apps[E.app].asks
                        /\ ~Pre.apps[E.app].asks[E.key].ph /\ Pre.apps[E.app].asks[E.key].rel # ""
\* malformed request class: in-place update of an allocation the core has already released on its own
\* (the stale request is still flagged allocated although the allocation is gone and no swap is in flight)
KF_UpdateReleasedAlloc == Step /\ E.op \in {"bad", "updateAsk"} /\ "app" \in DOMAIN E /\ "key" \in DOMAIN E
      /\ E.app \in AppsOf(Pre) /\ E.key \in DOMAIN Pre.apps[E.app].asks
      /\ Pre.apps[E.app].asks[E.key].allocated /\ Pre.apps[E.app].asks[E.key].rel = "" /\ E.key \notin DOMAIN Pre.apps[E.app].allocs
\* an accepted reload that changes the limit configuration while some application is tracked under a group
KF_ReloadWithGroupTracking == IsReload /\ E.ok /\ (\/ \E a \in AppsOf(Pre) : DOMAIN Pre.apps[a].allocs # {}
                                                  \/ \E g \in DOMAIN Pre.groups : Pre.groups[g].apps # <<>>)
\* the last REAL allocation of a gang application is released while placeholders are still allocated: the application is
\* taken off the tracker lists (removeApp) although it still holds the placeholder resources
KF_LastRealWithPlaceholders == Step /\ \E a \in AppsOf(Pre) :
      /\ ~RZero(Pre.apps[a].phAlloc) /\ ~RZero(Pre.apps[a].alloc)
      /\ (a \notin AppsOf(Post) \/ RZero(Post.apps[a].alloc))
\* gate replay: a node or an application is removed (a node possibly registered again), or the ask being allocated is
\* released, while a scheduling cycle is parked between node selection and the end of partition.allocate
KF_RemovalDuringCycle == Step /\ E.op = "gated" /\ E.parked /\ E.point \in {"tryNode.beforeNodeAdd", "partition.allocate.entry"}
                         /\ \E i \in 1..Len(E.during) : E.during[i] \in {"removeNode", "removeApp", "release"}
\* a group tracker is dropped from the manager (it became empty) while a live application of that group is still around:
\* the user tracker keeps its link to the dropped object, later usage of that application is not tracked for the group
KF_GroupTrackerDropped == Step /\ \E g \in DOMAIN Pre.groups \ DOMAIN Post.groups :
      \E a \in AppsOf(Post) : \E i \in 1..Len(Post.apps[a].groups) : Post.apps[a].groups[i] = g \/ g = "*"
KFAll == /\ KFHit("KF-C01-REQNODE-UNSCHED", KF_ReqNodeUnsched)
         /\ KFHit("KF-C05-GROUP-TRACKER-DROPPED", KF_GroupTrackerDropped)
         /\ KFHit("KF-C14-REMOVAL-DURING-CYCLE", KF_RemovalDuringCycle)
         /\ KFHit("KF-C05-RELOAD-GROUP-TRACKING", KF_ReloadWithGroupTracking)
         /\ KFHit("KF-C05-UNTRACKED-WITH-PLACEHOLDERS", KF_LastRealWithPlaceholders)
         /\ KFHit("KF-C13-UPDATE-RELEASED-ALLOC", KF_UpdateReleasedAlloc)
         /\ KFHit("KF-C03-UPDATE-LINKED-REAL", KF_UpdateLinkedReal)
         /\ KFHit("KF-C05-TRACKER-APP-GHOST", KF_TrackerAppGhost)
         /\ KFHit("KF-C04-RELEASE-LINKED-REAL", KF_ReleaseLinkedReal)
         /\ KFHit("KF-C06-PH-RELEASED-INFLIGHT", KF_PhReleasedInFlight)
         /\ KFHit("KF-C06-PHTIMEOUT-INFLIGHT", KF_PhTimeoutInFlight)
         /\ KFHit("KF-C06-HARD-TIMEOUT-WITH-REAL", KF_HardTimeoutWithReal)
         /\ KFHit("KF-C10-CONFIRM-WHILE-COMPLETING", KF_ConfirmWhileCompleting)
         /\ KFHit("KF-C10-SOFT-RESUME-IDLE", KF_SoftResumeIdle)
         /\ KFHit("KF-C09-RESERVED-ASK-REPLACES", KF_ReservedAskReplaces)

(* ====================================================================== reporting *)
Chk(name, cond) == cond \/ PrintT(<<"FAIL", name, l>>)
All == /\ KFAll
       /\ Chk("C01_NodeLedger", C01_NodeLedger) /\ Chk("C01_AvailNonNeg", C01_AvailNonNeg) /\ Chk("C01_Step", C01_Step) /\ Chk("C01_ReplaceStep", C01_ReplaceStep) /\ Chk("C01_ReplaceInPlace", C01_ReplaceInPlace)
       /\ Chk("C02_Step", C02_Step) /\ Chk("C02_ReplaceStep", C02_ReplaceStep) /\ Chk("C02_Headroom", C02_Headroom) /\ Chk("C02_RootMax", C02_RootMax) /\ Chk("C02_Usage", C02_Usage) /\ Chk("C02_NoSilentGrowth", C02_NoSilentGrowth) /\ Chk("C02_Template", C02_Template)
       /\ Chk("C03_AppLedger", C03_AppLedger) /\ Chk("C03_QueueLedger", C03_QueueLedger) /\ Chk("C03_RootVsNodes", C03_RootVsNodes) /\ Chk("C03_NoOrphans", C03_NoOrphans)
       /\ Chk("C03_Counters", C03_Counters) /\ Chk("C03_Preempting", C03_Preempting) /\ Chk("C03_Drained", C03_Drained)
       /\ Chk("C04_Legal", C04_Legal) /\ Chk("C04_RejectedNoTrace", C04_RejectedNoTrace)
       /\ Chk("C05_UserUsage", C05_UserUsage) /\ Chk("C05_GroupUsage", C05_GroupUsage) /\ Chk("C05_NoGhostUser", C05_NoGhostUser) /\ Chk("C05_Step", C05_Step) /\ Chk("C05_TrackerApps", C05_TrackerApps)
       /\ Chk("C06_Counts", C06_Counts) /\ Chk("C06_ReplaceStep", C06_ReplaceStep) /\ Chk("C06_ConfirmStep", C06_ConfirmStep) /\ Chk("C06_TimeoutStep", C06_TimeoutStep)
       /\ Chk("C07_Victims", C07_Victims) /\ Chk("C07_Asker", C07_Asker) /\ Chk("C07_QueueRules", C07_QueueRules)
       /\ Chk("C08_AskUnder", C08_AskUnder) /\ Chk("C08_VictimOver", C08_VictimOver) /\ Chk("C08_Covers", C08_Covers) /\ Chk("C08_NoEffectNoMark", C08_NoEffectNoMark) /\ Chk("C08_QuotaClaim", C08_QuotaClaim)
       /\ Chk("C09_Views", C09_Views) /\ Chk("C09_Step", C09_Step) /\ Chk("C09_Released", C09_Released)
       /\ Chk("C10_Transitions", C10_Transitions) /\ Chk("C10_MsgStates", C10_MsgStates) /\ Chk("C10_CompletedClean", C10_CompletedClean) /\ Chk("C10_Idle", C10_Idle) /\ Chk("C10_CompletingHoldsNoReal", C10_CompletingHoldsNoReal) /\ Chk("C10_CompletedHeldNothing", C10_CompletedHeldNothing)
       /\ Chk("C10_LiveHaveQueue", C10_LiveHaveQueue) /\ Chk("C10_StateTimer", C10_StateTimer) /\ Chk("C10_NoAskAfterTerm", C10_NoAskAfterTerm)
       /\ Chk("C11_Counts", C11_Counts) /\ Chk("C11_Step", C11_Step) /\ Chk("C11_TagMaxApps", C11_TagMaxApps)
       /\ Chk("C12_NothingRejected", C12_NothingRejected) /\ Chk("C12_Nodes", C12_Nodes) /\ Chk("C12_Apps", C12_Apps) /\ Chk("C12_SameAsOld", C12_SameAsOld)
       /\ Chk("C13_NoPanic", C13_NoPanic) /\ Chk("C13_BadUnchanged", C13_BadUnchanged) /\ Chk("C13_BadRejected", C13_BadRejected) /\ Chk("C13_NoHang", C13_NoHang)
       /\ Chk("C16_Rejected", C16_Rejected) /\ Chk("C16_Preserve", C16_Preserve) /\ Chk("C16_Applied", C16_Applied) /\ Chk("C16_DrainingNoNewApps", C16_DrainingNoNewApps) /\ Chk("C16_Removal", C16_Removal) /\ Chk("C16_DrainingKeepsScheduling", C16_DrainingKeepsScheduling)
=============================================================================
