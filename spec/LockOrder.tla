------------------------------ MODULE LockOrder ------------------------------
(* Lock ordering (property C14): the verif build records, per goroutine, which lock instances are held when another *)
(* one is acquired, and which goroutines took each edge.  A cycle in the recorded order (instance level and class    *)
(* level; class = receiver type of the code that takes the lock) is a lock-order inversion, i.e. a potential         *)
(* deadlock - unless every edge on it was taken by one and the same goroutine, which cannot deadlock with itself     *)
(* (the scheduling loop is one goroutine: an asking application's lock is held while a victim application is read,   *)
(* in either direction in different cycles).  A goroutine that acquires a lock it already holds (self edge) is       *)
(* always reported: recursive read locking deadlocks against a queued writer.                                        *)
(* Edges between two instances of the same class (a queue and its parent) are judged at instance level only.         *)
EXTENDS Integers, Sequences, FiniteSets, TLC, Json

CONSTANT EdgeFile
Edges == JsonDeserialize(EdgeFile)          \* sequence of [from, to, fromClass, toClass, count]
VARIABLE done
InstEdges == {<<Edges[i].from, Edges[i].to>> : i \in 1..Len(Edges)}
ClassEdges == {<<Edges[i].fromClass, Edges[i].toClass>> : i \in {j \in 1..Len(Edges) : Edges[j].fromClass # Edges[j].toClass}}
NodesOf(E) == {e[1] : e \in E} \cup {e[2] : e \in E}
ToSet(q) == {q[i] : i \in 1..Len(q)}
GoroutinesOf(e) == UNION {ToSet(Edges[i].goroutines) : i \in {j \in 1..Len(Edges) : Edges[j].from = e[1] /\ Edges[j].to = e[2]}}
SelfEdges == {e \in InstEdges : e[1] = e[2]}
\* Kahn from both sides: repeatedly drop the edges that leave a vertex without incoming edge or enter a vertex without
\* outgoing edge; what is left (if anything) are the edges on cycles and between cycles
RECURSIVE Residue(_)
Residue(E) == LET V == NodesOf(E)
                  src == {v \in V : ~\E e \in E : e[2] = v}
                  snk == {v \in V : ~\E e \in E : e[1] = v} IN
              IF (src = {} /\ snk = {}) \/ E = {} THEN E ELSE Residue({e \in E : e[1] \notin src /\ e[2] \notin snk})
Acyclic(E) == Residue(E) = {}
\* all edges of the residue taken by one goroutine alone: no second party to deadlock with
OneGoroutine(R) == \E g \in UNION {GoroutinesOf(e) : e \in R} : \A e \in R : GoroutinesOf(e) = {g}
InstanceHazardFree == LET R == Residue(InstEdges \ SelfEdges) IN SelfEdges = {} /\ (R = {} \/ OneGoroutine(R))
Init == done = FALSE
Next == done = FALSE /\ done' = TRUE
Spec == Init /\ [][Next]_done
InstanceOrderAcyclic == InstanceHazardFree \/ PrintT(<<"FAIL", "C14_LockOrderInstances", SelfEdges, Residue(InstEdges \ SelfEdges)>>)
ClassOrderAcyclic == Acyclic(ClassEdges) \/ PrintT(<<"FAIL", "C14_LockOrderClasses", Residue(ClassEdges)>>)
Report == PrintT(<<"LOCKS", Cardinality(InstEdges), Cardinality(ClassEdges), ClassEdges>>)
Inv == InstanceOrderAcyclic /\ ClassOrderAcyclic /\ (done \/ Report)
=============================================================================
