------------------------------ MODULE LockOrder ------------------------------
(* Lock ordering (property C14): the verif build records, per goroutine, which lock instances are held when another *)
(* one is acquired.  The recorded edges (instance level and class level; class = receiver type of the code that      *)
(* takes the lock) must not contain a cycle: a cycle is a lock-order inversion, i.e. a potential deadlock.           *)
(* Edges between two instances of the same class (a queue and its parent) are judged at instance level only.         *)
EXTENDS Integers, Sequences, FiniteSets, TLC, Json

CONSTANT EdgeFile
Edges == JsonDeserialize(EdgeFile)          \* sequence of [from, to, fromClass, toClass, count]
VARIABLE done
InstEdges == {<<Edges[i].from, Edges[i].to>> : i \in 1..Len(Edges)}
ClassEdges == {<<Edges[i].fromClass, Edges[i].toClass>> : i \in {j \in 1..Len(Edges) : Edges[j].fromClass # Edges[j].toClass}}
NodesOf(E) == {e[1] : e \in E} \cup {e[2] : e \in E}
\* Kahn: repeatedly drop the vertices without incoming edge; what is left (if anything) lies on or behind a cycle
RECURSIVE Residue(_)
Residue(E) == LET V == NodesOf(E)
                  src == {v \in V : ~\E e \in E : e[2] = v} IN
              IF src = {} \/ E = {} THEN E ELSE Residue({e \in E : e[1] \notin src})
Acyclic(E) == Residue(E) = {}
Init == done = FALSE
Next == done = FALSE /\ done' = TRUE
Spec == Init /\ [][Next]_done
InstanceOrderAcyclic == Acyclic(InstEdges) \/ PrintT(<<"FAIL", "C14_LockOrderInstances", Residue(InstEdges)>>)
ClassOrderAcyclic == Acyclic(ClassEdges) \/ PrintT(<<"FAIL", "C14_LockOrderClasses", Residue(ClassEdges)>>)
Report == PrintT(<<"LOCKS", Cardinality(InstEdges), Cardinality(ClassEdges), ClassEdges>>)
Inv == InstanceOrderAcyclic /\ ClassOrderAcyclic /\ (done \/ Report)
=============================================================================
