\* the design checked against the property: TLC reports a shortest counterexample
CONSTANTS
 NEvents = 4
 Subs = {1}
 CountChoices <- MCCountsAll
 RingCap = 8
 AllowClose = TRUE
 EagerForward = FALSE
INIT Init
NEXT Next
INVARIANT TypeOK
INVARIANT StreamOK
INVARIANT NoDupNoReorder
