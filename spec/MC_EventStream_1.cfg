\* one subscriber, all interleavings, with close
CONSTANTS
 NEvents = 4
 Subs = {1}
 CountChoices <- MCCountsAll
 RingCap = 8
 AllowClose = TRUE
 EagerForward = FALSE
INIT Init
NEXT Next
INVARIANT TypeOK
INVARIANT EmitSched
