------------------------------ MODULE MC_ResOps ------------------------------
(* TLC model that ENUMERATES the cases of property C18 for the lock-step replay against the real Go      *)
(* functions: every operator of ResOps.tla on every pair of resources with key sets \subseteq {a, b}     *)
(* (nil and the empty resource included) and values from a boundary set around MinInt64, 0 and MaxInt64. *)
(* One line per case:  <<"CASE", ToJson([op |-> .., x |-> .., y |-> .., want |-> .., sparse |-> ..])>>     *)
(* where want is computed by the specification with the exact-or-saturate scalars of Int64Sat.tla.        *)
(* Values are boundary-symbolic pairs [k, r] = k * 2^61 + r; a resource is "Nil", [] (empty) or an object. *)
(* A state is a case; the first level of the state graph chooses x, the second the operator and y, so    *)
(* that TLC's workers evaluate the cases in parallel.                                                    *)
EXTENDS Integers, TLC, Json, FiniteSets, Int64Sat

CONSTANTS Nil, NoTypes, Unspec,
          Pick,          \* which of the optional boundary values take part (indices into Optional), set by the pipeline
          PickRatio      \* likewise for the multiplication ratios

Keys == {"a", "b"}

\* MinInt64, 0, MaxInt64 always take part
Core == {BMin, BZero, BMax}
Optional == <<B(-4, 1), B(-1, 0), B(0, -1), B(0, 1), B(1, 0), B(4, -2),               \* Min+1 -H -1 1 H Max-1
              B(-1, -1), B(-1, 1), B(0, -2), B(0, 2), B(1, -1), B(1, 1),              \* -H-1 -H+1 -2 2 H-1 H+1
              B(-2, 0), B(2, 0), B(-4, 2), B(4, -3), B(3, 0), B(-3, 0)>>              \* -2H 2H Min+2 Max-2 3H -3H
Vals == Core \cup {Optional[i] : i \in Pick \cap DOMAIN Optional}

RatioCore == {BMin, B(0, -1), BZero, B(0, 1), BMax}
RatioOptional == <<B(0, 2), B(0, -2), B(0, 4), B(0, -4), B(0, 3), B(0, -3), B(1, 0), B(-1, 0), B(-4, 1), B(4, -2),
                   B(2, 0), B(-2, 0), B(0, 5), B(0, -5), B(1, 1), B(-1, -1)>>
Ratios == RatioCore \cup {RatioOptional[i] : i \in PickRatio \cap DOMAIN RatioOptional}

Resources == {Nil} \cup UNION {[D -> Vals] : D \in SUBSET Keys}

RO == INSTANCE ResOps WITH Z <- BZero, SAdd <- BAddSat, SSub <- BSubSat, SMul <- BMulSat, SLt <- BLt

BinOps == {"Add", "Sub", "AddTo", "SubFrom", "SubOnlyExisting", "AddOnlyExisting", "SubEliminateNegative", "SubErrorNegative",
           "FitIn", "FitInMaxUndef", "FitInActual",
           "ComponentWiseMin", "ComponentWiseMinOnlyExisting", "ComponentWiseMax", "MergeIfNotPresent",
           "StrictlyGreaterThan", "StrictlyGreaterThanOrEquals", "StrictlyGreaterThanOnlyExisting",
           "StrictlyGreaterThanOrEqualsOnlyExisting", "Equals", "DeepEquals", "EqualsOrEmpty", "MatchAny"}
UnOps == {"StrictlyGreaterThanZero", "IsZero", "IsEmpty", "HasNegativeValue", "Prune", "Clone"}

\* x is the receiver / first argument, y the second argument (a ratio for Multiply, Nil for the unary operators)
Want(op, x, y) ==
    CASE op = "Add" -> RO!Add(x, y)
      [] op = "Sub" -> RO!Sub(x, y)
      [] op = "AddTo" -> RO!AddTo(x, y)
      [] op = "SubFrom" -> RO!SubFrom(x, y)
      [] op = "SubOnlyExisting" -> RO!SubOnlyExisting(x, y)
      [] op = "AddOnlyExisting" -> RO!AddOnlyExisting(x, y)
      [] op = "SubEliminateNegative" -> RO!SubEliminateNegative(x, y)
      [] op = "SubErrorNegative" -> RO!SubErrorNegative(x, y)
      [] op = "Multiply" -> RO!Multiply(x, y)
      [] op = "FitIn" -> RO!FitIn(x, y)
      [] op = "FitInMaxUndef" -> RO!FitInMaxUndef(x, y)
      [] op = "FitInActual" -> RO!FitInActual(x, y)
      [] op = "ComponentWiseMin" -> RO!ComponentWiseMin(x, y)
      [] op = "ComponentWiseMinOnlyExisting" -> RO!ComponentWiseMinOnlyExisting(x, y)
      [] op = "ComponentWiseMax" -> RO!ComponentWiseMax(x, y)
      [] op = "MergeIfNotPresent" -> RO!MergeIfNotPresent(x, y)
      [] op = "StrictlyGreaterThan" -> RO!StrictlyGreaterThan(x, y)
      [] op = "StrictlyGreaterThanOrEquals" -> RO!StrictlyGreaterThanOrEquals(x, y)
      [] op = "StrictlyGreaterThanOnlyExisting" -> RO!StrictlyGreaterThanOnlyExisting(x, y)
      [] op = "StrictlyGreaterThanOrEqualsOnlyExisting" -> RO!StrictlyGreaterThanOrEqualsOnlyExisting(x, y)
      [] op = "Equals" -> RO!Equals(x, y)
      [] op = "DeepEquals" -> RO!DeepEquals(x, y)
      [] op = "EqualsOrEmpty" -> RO!EqualsOrEmpty(x, y)
      [] op = "MatchAny" -> RO!MatchAny(x, y)
      [] op = "StrictlyGreaterThanZero" -> RO!StrictlyGreaterThanZero(x)
      [] op = "IsZero" -> RO!IsZero(x)
      [] op = "IsEmpty" -> RO!IsEmpty(x)
      [] op = "HasNegativeValue" -> RO!HasNegativeValue(x)
      [] op = "Prune" -> RO!Prune(x)
      [] op = "Clone" -> RO!Clone(x)

Sparse(op, x, y) == op = "Multiply" /\ RO!MultiplyIsSparse(x, y)

VARIABLE c
Init == \E x \in Resources : c = [op |-> "-", x |-> x, y |-> Nil]
Next == /\ c.op = "-"
        /\ \/ \E o \in BinOps, y \in Resources : c' = [op |-> o, x |-> c.x, y |-> y]
           \/ \E y \in Ratios : c' = [op |-> "Multiply", x |-> c.x, y |-> y]
           \/ \E o \in UnOps : c' = [op |-> o, x |-> c.x, y |-> Nil]

Emit == c.op = "-" \/
        PrintT(<<"CASE", ToJson([op |-> c.op, x |-> c.x, y |-> c.y, want |-> Want(c.op, c.x, c.y),
                                 sparse |-> Sparse(c.op, c.x, c.y)])>>)
=============================================================================
