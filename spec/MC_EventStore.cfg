CONSTANTS
 Sizes = {1,2,3}
 MaxEvents = 6
 MaxOps = 6
INIT Init
NEXT Next
INVARIANT BatchBounded
INVARIANT HandedOnceInOrder
INVARIANT EmitStore
