\* template: the pipeline (vlib/placement.py) writes its own copy with the tier's sizes
CONSTANTS
  NSampled = 40
  AppsPerSampled = 8
  ExhLayouts = {1, 4}
  AppsPerExh = 6
INIT Init
NEXT Next
INVARIANT Sane
INVARIANT Emit
CHECK_DEADLOCK FALSE
