SPECIFICATION Spec
CONSTANTS
  Nodes = {"n0", "n1"}
  Keys = {"k0", "k1"}
  Cap = 2
  Size = 1
  AsCoded = TRUE
INVARIANT Conserved
CHECK_DEADLOCK FALSE
