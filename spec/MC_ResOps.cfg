\* template: the pipeline writes its own copy with the seeded Pick / PickRatio sets
CONSTANTS
  Nil = Nil
  NoTypes = NoTypes
  Unspec = Unspec
  Pick = {1, 2, 3, 4, 5, 6}
  PickRatio = {1, 2}
INIT Init
NEXT Next
INVARIANT Emit
CHECK_DEADLOCK FALSE
