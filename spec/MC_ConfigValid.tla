--------------------------- MODULE MC_ConfigValid ---------------------------
(* TLC model that ENUMERATES the cases of property C15 for the conformance check against the real validator and      *)
(* loader: every initial state is one abstract configuration of the family Fam (record of ConfigValid.tla).          *)
(* One line per case:                                                                                                 *)
(*   <<"CASE", ToJson([fam |-> .., conf |-> c, valid |-> SpecValid(c), why |-> Violated(c), amb |-> Ambiguities(c),      *)
(*                     implied |-> root implied, paths |-> where the static path of each rule chain ends])>>          *)
(* Families (index tuples; Pick keeps the whole family when Mod = 1, otherwise the seeded residue class               *)
(* (weighted index sum + Seed) % Mod = 0; Shards/Shard split a family over several TLC processes):                    *)
(*   F1   resources on root -> p -> {x, y}: max and guaranteed of p, x, y out of ResOpts                    5^6      *)
(*   F1b  resources on the chain root -> p -> x -> z (maximum inherited from the grand-parent)              5^5      *)
(*   F2   max-applications out of {0,1,2} on root -> p -> {x -> z, y}                                        3^5      *)
(*   F3a  user limits on the chain root -> p -> x: per queue a named (u1) and a wildcard entry, 6 options each 36^3   *)
(*   F3b  one limit against the maximum / max-applications of its queue (queue called p or root)             1350     *)
(*   F3c  group limits on the chain root -> p -> x: named (g1) 5 options, wildcard 4 options                 20^3     *)
(*   F3e  group limits with a second named group g2, so that a wildcard group entry is legal without g1     2000     *)
(*   F3d  well-formedness of limit lists (hand written)                                                               *)
(*   F4   structure and names: top level shapes x sibling name pairs x parent flags, child templates                  *)
(*   F5   placement rules against the tree root -> {p -> x, l, e(parent, no children)}                                *)
EXTENDS Integers, Sequences, FiniteSets, TLC, Json, ConfigValid

CONSTANTS Fam, Mod, Seed, Shards, Shard

W == <<1, 3, 5, 7, 11, 13, 17, 19>>
RECURSIVE WSum(_, _)
WSum(idx, k) == IF k = 0 THEN 0 ELSE WSum(idx, k - 1) + idx[k] * W[k]
Pick(idx) == /\ (Mod = 1 \/ (WSum(idx, Len(idx)) + Seed) % Mod = 0)
             /\ (Shards = 1 \/ ((WSum(idx, Len(idx)) + Seed) \div Mod + idx[1] + 2 * idx[Len(idx)]) % Shards = Shard)

-----------------------------------------------------------------------------
NoTmpl == [max |-> NoRes, guar |-> NoRes, maxApps |-> 0]
Q(name, up, parent, max, guar, apps, limits) ==
    [name |-> name, up |-> up, parent |-> parent, max |-> max, guar |-> guar, maxApps |-> apps, limits |-> limits, tmpl |-> NoTmpl]
Plain(name, up) == Q(name, up, FALSE, NoRes, NoRes, 0, <<>>)
RootQ == Q(RootName, 0, TRUE, NoRes, NoRes, 0, <<>>)
Conf(queues, rules) == [queues |-> queues, rules |-> rules]

M1 == [memory |-> 1]
M2 == [memory |-> 2]
ResOpts == <<NoRes, [memory |-> 1], [memory |-> 2], [memory |-> 2, pods |-> 1], [pods |-> 2]>>

-----------------------------------------------------------------------------
F1Idx == {j \in [1..6 -> 1..5] : Pick(j)}
F1(i) == Conf(<<RootQ, Q(<<"p">>, 1, FALSE, ResOpts[i[1]], ResOpts[i[2]], 0, <<>>),
                       Q(<<"x">>, 2, FALSE, ResOpts[i[3]], ResOpts[i[4]], 0, <<>>),
                       Q(<<"y">>, 2, FALSE, ResOpts[i[5]], ResOpts[i[6]], 0, <<>>)>>, <<>>)

\* chain root -> p -> x -> z: i = <<max of p, max of x, max of z, guaranteed of x, guaranteed of z>> (a maximum inherited over a queue that does not define the type)
F1bIdx == {j \in [1..5 -> 1..5] : Pick(j)}
F1b(i) == Conf(<<RootQ, Q(<<"p">>, 1, FALSE, ResOpts[i[1]], NoRes, 0, <<>>), Q(<<"x">>, 2, FALSE, ResOpts[i[2]], ResOpts[i[4]], 0, <<>>),
                 Q(<<"z">>, 3, FALSE, ResOpts[i[3]], ResOpts[i[5]], 0, <<>>)>>, <<>>)

F2Idx == {j \in [1..5 -> 0..2] : Pick(j)}
F2(i) == Conf(<<Q(RootName, 0, TRUE, NoRes, NoRes, i[1], <<>>), Q(<<"p">>, 1, FALSE, NoRes, NoRes, i[2], <<>>),
                Q(<<"x">>, 2, FALSE, NoRes, NoRes, i[3], <<>>), Q(<<"z">>, 3, FALSE, NoRes, NoRes, i[4], <<>>),
                Q(<<"y">>, 2, FALSE, NoRes, NoRes, i[5], <<>>)>>, <<>>)

-----------------------------------------------------------------------------
Lim(users, groups, max, apps) == [users |-> users, groups |-> groups, max |-> max, maxApps |-> apps]
\* options of one entry: 1 memory 1, 2 memory 2, 3 one application, 4 two applications, 5 pods 1
LimOpt(o) == CASE o = 1 -> <<[memory |-> 1], 0>> [] o = 2 -> <<[memory |-> 2], 0>> [] o = 3 -> <<NoRes, 1>>
               [] o = 4 -> <<NoRes, 2>> [] o = 5 -> <<[pods |-> 1], 0>>
UserLims(uo, wo) == (IF uo > 0 THEN <<Lim(<<"u1">>, <<>>, LimOpt(uo)[1], LimOpt(uo)[2])>> ELSE <<>>) \o
                    (IF wo > 0 THEN <<Lim(<<"*">>, <<>>, LimOpt(wo)[1], LimOpt(wo)[2])>> ELSE <<>>)
F3aIdx == {j \in [1..6 -> 0..5] : Pick(j)}
F3a(i) == Conf(<<Q(RootName, 0, TRUE, NoRes, NoRes, 0, UserLims(i[1], i[2])), Q(<<"p">>, 1, FALSE, NoRes, NoRes, 0, UserLims(i[3], i[4])),
                 Q(<<"x">>, 2, FALSE, NoRes, NoRes, 0, UserLims(i[5], i[6]))>>, <<>>)

\* group options: named 1 memory 1, 2 memory 2, 3 one application, 4 two applications; wildcard 1 memory 1, 2 memory 2, 3 two applications
WGOpt(o) == CASE o = 1 -> <<[memory |-> 1], 0>> [] o = 2 -> <<[memory |-> 2], 0>> [] o = 3 -> <<NoRes, 2>>
GroupLims(go, wo) == (IF go > 0 THEN <<Lim(<<>>, <<"g1">>, LimOpt(go)[1], LimOpt(go)[2])>> ELSE <<>>) \o
                     (IF wo > 0 THEN <<Lim(<<>>, <<"*">>, WGOpt(wo)[1], WGOpt(wo)[2])>> ELSE <<>>)
F3cIdx == {j \in [1..6 -> 0..4] : j[2] <= 3 /\ j[4] <= 3 /\ j[6] <= 3 /\ Pick(j)}
F3c(i) == Conf(<<Q(RootName, 0, TRUE, NoRes, NoRes, 0, GroupLims(i[1], i[2])), Q(<<"p">>, 1, FALSE, NoRes, NoRes, 0, GroupLims(i[3], i[4])),
                 Q(<<"x">>, 2, FALSE, NoRes, NoRes, 0, GroupLims(i[5], i[6]))>>, <<>>)

\* a second group g2 makes a wildcard group entry legal where g1 is not named: i = <<root g1, root wildcard, p g1, p wildcard, x g1>>
G2 == Lim(<<>>, <<"g2">>, M2, 2)
F3eIdx == {j \in [1..5 -> 0..4] : j[2] <= 3 /\ j[4] <= 3 /\ Pick(j)}
F3e(i) == Conf(<<Q(RootName, 0, TRUE, NoRes, NoRes, 0, <<G2>> \o GroupLims(i[1], i[2])),
                 Q(<<"p">>, 1, FALSE, NoRes, NoRes, 0, (IF i[4] > 0 THEN <<G2>> ELSE <<>>) \o GroupLims(i[3], i[4])),
                 Q(<<"x">>, 2, FALSE, NoRes, NoRes, 0, GroupLims(i[5], 0))>>, <<>>)

\* i = <<queue name (1 p, 2 root), queue max, queue max-applications, subject (1 u1, 2 wildcard user, 3 g1), limit max, limit max-applications>>
F3bIdx == {j \in [1..6 -> 0..5] : j[1] \in 1..2 /\ j[2] \in 1..5 /\ j[3] \in 0..2 /\ j[4] \in 1..3 /\ j[5] \in 1..5 /\ j[6] \in 0..2 /\ Pick(j)}
F3b(i) == Conf(<<RootQ, Q(IF i[1] = 1 THEN <<"p">> ELSE RootName, 1, FALSE, ResOpts[i[2]], NoRes, i[3],
                          <<Lim(IF i[4] = 1 THEN <<"u1">> ELSE IF i[4] = 2 THEN <<"*">> ELSE <<>>, IF i[4] = 3 THEN <<"g1">> ELSE <<>>, ResOpts[i[5]], i[6])>>)>>, <<>>)

LimitLists == <<
    <<Lim(<<>>, <<>>, M1, 0)>>,                                              \* no subject
    <<Lim(<<"u1">>, <<>>, NoRes, 0)>>,                                       \* no bound
    <<Lim(<<"u1">>, <<>>, M1, 0), Lim(<<"u1">>, <<>>, M2, 0)>>,              \* user twice in the queue
    <<Lim(<<"u1", "u1">>, <<>>, M1, 0)>>,                                    \* user twice in one entry
    <<Lim(<<>>, <<"g1">>, M1, 0), Lim(<<>>, <<"g1">>, M1, 1)>>,              \* group twice
    <<Lim(<<"*">>, <<>>, M1, 0), Lim(<<"u1">>, <<>>, M1, 0)>>,               \* named user after the wildcard
    <<Lim(<<"*", "u1">>, <<>>, M1, 0)>>,                                     \* the same inside one entry
    <<Lim(<<"u1", "*">>, <<>>, M1, 0)>>,                                     \* wildcard last: fine
    <<Lim(<<"u1">>, <<>>, M1, 0), Lim(<<"*">>, <<>>, M2, 0)>>,               \* fine
    <<Lim(<<>>, <<"*">>, M1, 0)>>,                                           \* wildcard group alone
    <<Lim(<<>>, <<"*">>, M1, 0), Lim(<<>>, <<"g1">>, M1, 0)>>,               \* named group after the wildcard group
    <<Lim(<<>>, <<"g1">>, M1, 0), Lim(<<>>, <<"*">>, M2, 0)>>,               \* fine
    <<Lim(<<"u1">>, <<"g1">>, M1, 1)>>,                                      \* user and group in one entry: fine
    <<Lim(<<"u1", "u2">>, <<"g1", "g2">>, M2, 2), Lim(<<"*">>, <<"*">>, M2, 2)>>,   \* fine
    <<Lim(<<"u1">>, <<>>, [memory |-> 3], 0)>>,                              \* above the maximum of p (root: fine)
    <<Lim(<<"u1">>, <<>>, NoRes, 3)>> >>                                     \* above the max-applications of p (root: fine)
\* i = <<list, 1 on the root / 2 on p (maximum memory 2, max-applications 2)>>
F3dIdx == {j \in [1..2 -> 1..Len(LimitLists)] : j[2] \in 1..2 /\ Pick(j)}
F3d(i) == Conf(<<Q(RootName, 0, TRUE, NoRes, NoRes, 0, IF i[2] = 1 THEN LimitLists[i[1]] ELSE <<>>),
                 Q(<<"p">>, 1, FALSE, M2, NoRes, 2, IF i[2] = 2 THEN LimitLists[i[1]] ELSE <<>>)>>, <<>>)

-----------------------------------------------------------------------------
RECURSIVE Rep(_, _)
Rep(ch, n) == IF n = 0 THEN <<>> ELSE <<ch>> \o Rep(ch, n - 1)
\* sibling name pairs
NamePairs == <<
    <<<<"x">>, <<"y">>>>, <<<<"x">>, <<"x">>>>, <<<<"x">>, <<"X">>>>, <<<<"D", "e", "v">>, <<"d", "E", "v">>>>, <<<<"x">>, <<"a", " ", "b">>>>,
    <<<<"x">>, <<"a", "$">>>>, <<<<"x">>, <<>>>>, <<<<"x">>, Rep("a", 64)>>, <<<<"x">>, Rep("a", 65)>>,
    <<<<"x">>, <<"_", ":", "#", "/", "@", "-", "0", "Z">>>>, <<<<"x">>, <<"a", ".", "b">>>>, <<<<"x">>, RootName>> >>
\* top level shapes: <<top level queues, index of the queue that gets the two children>>
Tops == <<
    <<<<RootQ>>, 1>>,
    <<<<Plain(<<"R", "O", "O", "T">>, 0)>>, 1>>,
    <<<<Plain(<<"R", "o", "o", "t">>, 0)>>, 1>>,
    <<<<Plain(<<"a">>, 0)>>, 1>>,
    <<<<Plain(<<"a">>, 0), Plain(<<"b">>, 0)>>, 1>>,
    <<<<Plain(RootName, 0), Plain(<<"b">>, 0)>>, 1>>,
    <<<<Plain(<<"a">>, 0), Plain(<<"A">>, 0)>>, 1>>,
    <<<<Q(RootName, 0, TRUE, M2, NoRes, 0, <<>>)>>, 1>>,
    <<<<Q(RootName, 0, TRUE, NoRes, M1, 0, <<>>)>>, 1>>,
    <<<<Plain(<<"a", " ", "b">>, 0)>>, 1>>,
    <<<<RootQ, Plain(<<"p">>, 1)>>, 2>> >>
\* i = <<top level shape, name pair, 1/2 parent flag of the queue with the children, 1/2 parent flag of the first child (a leaf)>>
F4aIdx == {j \in [1..4 -> 1..12] : j[1] \in 1..Len(Tops) /\ j[2] \in 1..Len(NamePairs) /\ j[3] \in 1..2 /\ j[4] \in 1..2 /\ Pick(j)}
F4a(i) == LET t == Tops[i[1]]  n == Len(t[1]) IN
          Conf([k \in 1..n |-> IF k = t[2] THEN [t[1][k] EXCEPT !.parent = (i[3] = 1)] ELSE t[1][k]] \o
               <<Q(NamePairs[i[2]][1], t[2], i[4] = 1, NoRes, NoRes, 0, <<>>), Plain(NamePairs[i[2]][2], t[2])>>, <<>>)

\* child templates: on a parent, on a leaf, guaranteed above maximum, above the parent's maximum, a quantity that cannot be parsed (-1)
Tmpls == <<[max |-> M2, guar |-> M1, maxApps |-> 1], [max |-> M1, guar |-> M2, maxApps |-> 0], [max |-> [memory |-> 3], guar |-> NoRes, maxApps |-> 3],
           [max |-> [memory |-> -1], guar |-> NoRes, maxApps |-> 0], [max |-> NoRes, guar |-> [pods |-> -1], maxApps |-> 0]>>
\* i = <<template, 1 on p (parent flag, no children) / 2 on p (with a child) / 3 on the leaf l / 4 on the root>>
F4bIdx == {j \in [1..2 -> 1..Len(Tmpls)] : j[2] \in 1..4 /\ Pick(j)}
F4b(i) == LET tq(q, on) == IF on THEN [q EXCEPT !.tmpl = Tmpls[i[1]]] ELSE q IN
          Conf(<<tq(RootQ, i[2] = 4), tq(Q(<<"p">>, 1, TRUE, M2, NoRes, 0, <<>>), i[2] \in {1, 2}), tq(Plain(<<"l">>, 1), i[2] = 3)>> \o
               (IF i[2] = 2 THEN <<Plain(<<"x">>, 2)>> ELSE <<>>), <<>>)

-----------------------------------------------------------------------------
(* placement rules *)
R == RootName
Rootx == <<"r", "o", "o", "t", "x">>
FE(text, kind) == [text |-> text, kind |-> kind]
\* filters: <<type, users, groups>>
Filters == << <<"", <<>>, <<>>>>, <<"allow", <<FE("u1", "name")>>, <<>>>>, <<"deny", <<>>, <<FE("g1", "name")>>>>, <<"", <<FE("^u.*$", "regexp")>>, <<>>>>,
              <<"allow", <<FE("u[0-9", "broken")>>, <<>>>>, <<"deny", <<>>, <<FE("g(", "broken")>>>>, <<"bogus", <<>>, <<>>>>,
              <<"", <<FE("u[0-9", "broken"), FE("u1", "name")>>, <<>>>> >>
Rl(name, create, value, f) == [name |-> name, create |-> create, value |-> value, ftype |-> Filters[f][1], fusers |-> Filters[f][2], fgroups |-> Filters[f][3]]
Values == << <<R, <<"l">>>>, <<R, <<"p">>>>, <<R, <<"p">>, <<"x">>>>, <<R, <<"e">>>>, <<R, <<"n">>>>, <<R, <<"l">>, <<"n">>>>, <<R, <<"p">>, <<"n">>>>,
             <<R, <<"e">>, <<"n">>>>, <<R, <<"n">>, <<"m">>>>, <<<<"l">>>>, <<<<"p">>>>, <<<<"n">>>>, <<<<"e">>>>, <<Rootx>>, <<Rootx, <<"y">>>>, <<R>>, <<>>,
             <<<<"a", " ", "b">>>> >>
NS == <<<<"n", "s">>>>
\* rule names that do not take a queue path: <<name, value>>
Others == << <<"provided", <<>>>>, <<"user", <<>>>>, <<"tag", NS>>, <<"tag", <<>>>>, <<"bogus", <<>>>>, <<"recovery", <<>>>> >>
\* second rule of a chain of two: <<name, value>>
Seconds == << <<"user", <<>>>>, <<"tag", NS>>, <<"provided", <<>>>>, <<"fixed", <<<<"x">>>>>>, <<"fixed", <<<<"n">>>>>>, <<"fixed", <<R, <<"l">>>>>>, <<"fixed", <<R, <<"p">>>>>>,
             <<"fixed", <<<<"l">>>>>> >>
RuleSets(c) ==    \* c = create flag of every rule of the case
    {<<<<Rl("fixed", c, Values[v], 1)>>>> : v \in DOMAIN Values} \cup
    {<<<<Rl("fixed", c, Values[1], f)>>>> : f \in DOMAIN Filters} \cup
    {<<<<Rl(Others[o][1], c, Others[o][2], f)>>>> : o \in DOMAIN Others, f \in DOMAIN Filters} \cup
    {<<<<Rl("fixed", c, Values[v], 1), Rl(Seconds[s][1], c, Seconds[s][2], 1)>>>> : v \in DOMAIN Values, s \in DOMAIN Seconds} \cup
    {<<<<Rl(Others[o][1], c, Others[o][2], 1), Rl(Seconds[s][1], c, Seconds[s][2], 1)>>>> : o \in 1..3, s \in DOMAIN Seconds} \cup
    {<<<<Rl("fixed", c, <<R, <<"p">>>>, 1), Rl("fixed", c, <<<<"x">>>>, 1), Rl("user", c, <<>>, 1)>>>>,
     <<<<Rl("fixed", c, <<R>>, 1), Rl("fixed", c, <<<<"p">>>>, 1), Rl("user", c, <<>>, 1)>>>>,
     <<<<Rl("fixed", c, <<<<"p">>>>, 1), Rl("fixed", c, <<<<"x">>>>, 1)>>>>,
     <<<<Rl("fixed", c, <<<<"p">>>>, 1), Rl("fixed", c, <<<<"n">>>>, 1), Rl("tag", c, NS, 1)>>>>,
     <<<<Rl("user", c, <<>>, 1), Rl("fixed", c, <<<<"x">>>>, 1), Rl("fixed", c, <<<<"y">>>>, 1)>>>>,
     \* several top level rules
     <<<<Rl("fixed", c, <<R, <<"n">>>>, 1)>>, <<Rl("provided", c, <<>>, 1)>>>>,
     <<<<Rl("provided", c, <<>>, 1)>>, <<Rl("fixed", c, <<R, <<"p">>>>, 1)>>>>,
     <<<<Rl("tag", c, NS, 2)>>, <<Rl("user", c, <<>>, 3)>>, <<Rl("fixed", c, <<R, <<"l">>>>, 1)>>>>,
     <<<<Rl("fixed", c, <<Rootx, <<"y">>>>, 1)>>, <<Rl("provided", c, <<>>, 1)>>>>,
     <<>>}
\* tree root -> {p -> x, l, e}; pflag = the parent flag of p is written / left to be implied by its child
F5Tree(pflag) == <<RootQ, Q(<<"p">>, 1, pflag, NoRes, NoRes, 0, <<>>), Plain(<<"x">>, 2), Plain(<<"l">>, 1), Q(<<"e">>, 1, TRUE, NoRes, NoRes, 0, <<>>)>>
F5Idx == BOOLEAN \X UNION {RuleSets(c) : c \in BOOLEAN}
F5(i) == Conf(F5Tree(i[1]), i[2])

-----------------------------------------------------------------------------
VARIABLE c
Init == CASE Fam = "F1" -> \E i \in F1Idx : c = F1(i)
          [] Fam = "F1b" -> \E i \in F1bIdx : c = F1b(i)
          [] Fam = "F2" -> \E i \in F2Idx : c = F2(i)
          [] Fam = "F3a" -> \E i \in F3aIdx : c = F3a(i)
          [] Fam = "F3b" -> \E i \in F3bIdx : c = F3b(i)
          [] Fam = "F3c" -> \E i \in F3cIdx : c = F3c(i)
          [] Fam = "F3d" -> \E i \in F3dIdx : c = F3d(i)
          [] Fam = "F3e" -> \E i \in F3eIdx : c = F3e(i)
          [] Fam = "F4" -> (\E i \in F4aIdx : c = F4a(i)) \/ (\E i \in F4bIdx : c = F4b(i))
          [] Fam = "F5" -> \E i \in F5Idx : c = F5(i)
Next == UNCHANGED c
Emit == PrintT(<<"CASE", ToJson([fam |-> Fam, conf |-> c, valid |-> SpecValid(c), why |-> Violated(c), amb |-> Ambiguities(c),
                                 implied |-> ~HasExplicitRoot(c), paths |-> PathInfo(c)])>>)
=============================================================================
