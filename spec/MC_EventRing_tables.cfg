\* answer tables: one line per distinct abstract state (VIEW drops the op history)
CONSTANTS
 Caps = {1,2,3,4}
 MaxAdds = 9
 MaxResizes = 3
 MaxStart = 10
 MaxCount = 10
INIT Init
NEXT Next
VIEW AbsView
INVARIANT HistOK
INVARIANT AnswerOK
INVARIANT EmitTable
