----------------------------- MODULE Int64Sat -----------------------------
(* Exact-or-saturate integer arithmetic of pkg/common/resources/resources.go (property C18).            *)
(*                                                                                                       *)
(* Part 1 transcribes addVal / subVal / mulVal AS CODED, with the two's-complement wrap of Go's int64    *)
(* arithmetic made explicit, next to the INTENDED result Clamp(exact).  The word width is a parameter    *)
(* (M = 2^(w-1), the half range) so that the same text is checked                                         *)
(*   - by Apalache for w = 64 and ALL inputs (MC_Int64Sat.tla, true integers, SMT), and                  *)
(*   - by TLC exhaustively for w = 8 (MC_Int8Sat.tla; TLC integers are 32 bit Java ints).                *)
(* A refuted obligation here is a DESIGN finding; it becomes a verdict only through the lock-step replay *)
(* of the cases of MC_ResOps.tla against the real functions.                                             *)
(*                                                                                                       *)
(* Part 2 is the exact arithmetic TLC uses to compute the EXPECTED results around MinInt64/MaxInt64      *)
(* although its own integers are 32 bit: an int64 (or a sum/difference/product of two) is written in     *)
(* boundary-symbolic form <<k, r>> == k * 2^61 + r with small k and r (|k| <= 64, |r| <= 64 after one     *)
(* operation).  The form is unique for such small r, comparison is lexicographic, + and - are            *)
(* component-wise, and a product is k1*k2 * 2^122 + (k1*r2 + k2*r1) * 2^61 + r1*r2 whose first term, when  *)
(* non-zero, alone decides that the exact value is outside the int64 range.  The harness converts        *)
(* <<k, r>> to int64 (k<<61 + r) and back; no expected value is computed outside TLC.                    *)
EXTENDS Integers

-----------------------------------------------------------------------------
(* Part 1: the code, word width 2*M *)

\* two's-complement wrap of a mathematical integer into -M .. M-1
Wrap(M, x) == ((x + M) % (2 * M)) - M
MinW(M) == -M
MaxW(M) == M - 1
Clamp(M, x) == IF x < -M THEN -M ELSE IF x > M - 1 THEN M - 1 ELSE x

\* Go's integer division truncates towards zero (b # 0); written with non-negative operands only
TruncDiv(x, y) ==
    IF y > 0 THEN (IF x >= 0 THEN x \div y ELSE -((-x) \div y))
             ELSE (IF x >= 0 THEN -(x \div (-y)) ELSE (-x) \div (-y))

\* func addVal(valA, valB Quantity) Quantity
\*     result := valA + valB
\*     if (result < valA) != (valB < 0) { if valA < 0 { return MinInt64 }; return MaxInt64 }
\*     return result
AddCoded(M, a, b) ==
    LET result == Wrap(M, a + b) IN
    IF (result < a) # (b < 0) THEN (IF a < 0 THEN -M ELSE M - 1) ELSE result

\* subVal before the repair (fix: "subtracting the minimum quantity wrapped around"):
\* func subVal(valA, valB Quantity) Quantity { return addVal(valA, -valB) }     -- "-valB" is a wrapping negation
SubCodedOld(M, a, b) == AddCoded(M, a, Wrap(M, -b))
\* subVal as coded now:
\*     if valB == math.MinInt64 { return addVal(addVal(valA, math.MaxInt64), 1) }
\*     return addVal(valA, -valB)
SubCoded(M, a, b) == IF b = -M THEN AddCoded(M, AddCoded(M, a, M - 1), 1) ELSE AddCoded(M, a, Wrap(M, -b))

\* func mulVal(valA, valB Quantity) Quantity
\*     if valA == 0 || valB == 0 { return 0 }
\*     result := valA * valB
\*     if (result/valB != valA) || (valA == MinInt64 && valB == -1) {
\*         if (valA < 0) != (valB < 0) { return MinInt64 }; return MaxInt64 }
\*     return result
MulCoded(M, a, b) ==
    IF a = 0 \/ b = 0 THEN 0
    ELSE LET result == Wrap(M, a * b)
             quot   == Wrap(M, TruncDiv(result, b))      \* MinInt64 / -1 wraps to MinInt64 in Go
         IN IF quot # a \/ (a = -M /\ b = -1)
            THEN (IF (a < 0) # (b < 0) THEN -M ELSE M - 1)
            ELSE result

\* the intended results: exact, or clamped to the range, never wrapped
AddWant(M, a, b) == Clamp(M, a + b)
SubWant(M, a, b) == Clamp(M, a - b)
MulWant(M, a, b) == Clamp(M, a * b)

\* a repaired subVal (the obvious one): used to show that the defect is confined to the negation
SubRepaired(M, a, b) == IF b = -M THEN (IF a >= 0 THEN M - 1 ELSE a + M) ELSE AddCoded(M, a, -b)

-----------------------------------------------------------------------------
(* Part 2: boundary-symbolic integers <<k, r>> == k * H + r, H = 2^61 (MinInt64 = -4H, MaxInt64 = 4H - 1) *)

\* @type: (Int, Int) => <<Int, Int>>;
B(k, r) == <<k, r>>
BZero == B(0, 0)
BMin == B(-4, 0)
BMax == B(4, -1)
\* @type: (<<Int, Int>>, <<Int, Int>>) => Bool;
BLt(x, y) == x[1] < y[1] \/ (x[1] = y[1] /\ x[2] < y[2])
BLe(x, y) == ~BLt(y, x)
\* @type: (<<Int, Int>>) => <<Int, Int>>;
BClamp(x) == IF BLt(x, BMin) THEN BMin ELSE IF BLt(BMax, x) THEN BMax ELSE x
BInRange(x) == BLe(BMin, x) /\ BLe(x, BMax)
\* @type: (<<Int, Int>>, <<Int, Int>>) => <<Int, Int>>;
BAddSat(x, y) == BClamp(B(x[1] + y[1], x[2] + y[2]))
\* @type: (<<Int, Int>>, <<Int, Int>>) => <<Int, Int>>;
BSubSat(x, y) == BClamp(B(x[1] - y[1], x[2] - y[2]))
\* @type: (<<Int, Int>>, <<Int, Int>>) => <<Int, Int>>;
BMulSat(x, y) ==
    LET j == x[1] * y[1]                    \* coefficient of H^2
        k == x[1] * y[2] + x[2] * y[1]      \* coefficient of H
        r == x[2] * y[2]
    IN IF j > 0 THEN BMax ELSE IF j < 0 THEN BMin ELSE BClamp(B(k, r))
=============================================================================
