------------------------------- MODULE MC_UGM -------------------------------
(* Behaviour generators for UGM.tla (C05, module ugmlimits).                                                           *)
(*  SimSpec  : sampled behaviours (tlc -simulate): up to MaxConf configurations, each reached from the previous one by  *)
(*             a few edits (set / move up or down / drop), interleaved with Increase / Decrease for the applications.  *)
(*             A die (variable dice) and a pre-selected application / queue (pick, pickq) keep the number of successors *)
(*             per state small and weight the action classes; they are not part of the manager's state.                *)
(*  PairSpec : exhaustive: every ordered pair of configurations of a family x a fixed usage script.                    *)
(* Every step of a behaviour carries the observations the specification expects AFTER the step for a fixed probe set:  *)
(* a new application of each user in each leaf (in the order of Probes), then every tracked application.               *)
(* One line per behaviour: <<"BEH", ToJson([steps |-> ..])>>, printed when the behaviour is complete (pc = "done").    *)
EXTENDS UGM, TLC, Json

CONSTANTS MaxConf,     \* configurations per behaviour
          MaxSteps,    \* API calls per behaviour
          MaxEdits,    \* edits between two configurations
          MaxMem,      \* bound on the memory one application holds
          Clean,       \* TRUE: do not generate the configuration changes / names that hit the known defects
          MixedCase,   \* TRUE: limits may be put on root.dev (configured as "Dev")
          Family,      \* PairSpec: name of the configuration family
          FamValues    \* PairSpec: the limits a member of the family may put on each of its four (queue, subject) keys

VARIABLES pc, dice, pick, pickq, draft, nconf, nedits, steps, last, adm,
          alt          \* the group each tracked application has in an implementation that does not see the limits on the mixed case queue

mcvars == <<conf, apps, pc, dice, pick, pickq, draft, nconf, nedits, steps, last, adm, alt>>

MCPaths == {"root", "root.p", "root.p.x", "root.q", "root.dev"}
MCParent == [q \in MCPaths \ {"root"} |-> IF q = "root.p.x" THEN "root.p" ELSE "root"]
MCLeaves == {"root.p.x", "root.q", "root.dev"}
MCUsers == {"alice", "bob"}
MCGroups == {"dev", "ops"}
MCUserGroups == [u \in MCUsers |-> IF u = "alice" THEN <<"dev", "ops">> ELSE <<"ops">>]
MCUserGroupsOrd == [u \in MCUsers |-> IF u = "alice" THEN <<"dev", "ops">> ELSE <<"ops", "dev">>]   \* exploratory (see ugmlimits.py)
MCTypes == {"memory", "pods"}
MCApps == {"a1", "a2", "a3"}
M(n) == [t \in {"memory"} |-> n]
MP(n, p) == [t \in {"memory", "pods"} |-> IF t = "memory" THEN n ELSE p]
MCResChoices == {NoRes, M(3), M(8), MP(8, 2)}

\* configured spelling of the queue names (what UpdateConfig is given); the runtime path is lower case
ConfName == [q \in MCPaths |-> CASE q = "root" -> "root" [] q = "root.p" -> "p" [] q = "root.p.x" -> "x" [] q = "root.q" -> "q" [] q = "root.dev" -> "Dev"]

Inf == 1000000                    \* JSON: a type that is not limited
Dense(r) == <<IF "memory" \in DOMAIN r THEN r["memory"] ELSE Inf, IF "pods" \in DOMAIN r THEN r["pods"] ELSE Inf>>
Use2(r) == <<r["memory"], r["pods"]>>
IncChoices == {[t \in Types |-> IF t = "memory" THEN 1 ELSE 0], [t \in Types |-> IF t = "memory" THEN 2 ELSE 0],
               [t \in Types |-> 1], [t \in Types |-> IF t = "memory" THEN 3 ELSE 1]}

---------------------------------------------------------------------------
(* expected observations *)
ProbeUsers == <<"alice", "bob">>
ProbeLeaves == <<"root.p.x", "root.q", "root.dev">>
Fresh == "new"                     \* an application the manager has never seen
FreshProbes == [i \in 1..6 |-> [u |-> ProbeUsers[((i - 1) \div 3) + 1], q |-> ProbeLeaves[((i - 1) % 3) + 1]]]
AppOrder == <<"a1", "a2", "a3">>

Obs(q, a, u) == <<Dense(Headroom(q, a, u)), CanRunApp(q, a, u)>>
\* evaluated in the state AFTER the step (all variables primed by the caller through the operator arguments is not
\* possible in TLA+, so the observation stage is a step of its own: see Observe)
Expect == [new |-> [i \in 1..6 |-> Obs(FreshProbes[i].q, Fresh, FreshProbes[i].u)],
           app |-> [i \in 1..3 |-> IF Tracked(AppOrder[i])
                                    THEN Obs(apps[AppOrder[i]].queue, AppOrder[i], apps[AppOrder[i]].user)
                                    ELSE <<>>]]

Names(k) == IF k = "u" THEN Users \cup {Wild} ELSE Groups \cup {Wild}
\* JSON form of a configuration: the limits that are set
LimitsOf(c) == {[q |-> x[1], k |-> x[2], n |-> x[3], r |-> Dense(c[x[1]][x[2]][x[3]].res), a |-> c[x[1]][x[2]][x[3]].apps] :
                   x \in {y \in Paths \X {"u", "g"} \X (Users \cup Groups \cup {Wild}) : y[3] \in Names(y[2]) /\ IsSet(c[y[1]][y[2]][y[3]])}}

---------------------------------------------------------------------------
(* configuration edits *)
SetL(c, q, k, n, l) == [c EXCEPT ![q][k][n] = l]
EditPaths == IF MixedCase THEN Paths ELSE Paths \ {"root.dev"}

\* the part of the input space that is left out on purpose (not specified, see UGM.tla): a group limit is removed from a
\* queue while an application resolved to that group is counted there
\* (also when the application is resolved to that group only by an implementation that does not see the limits configured on the
\* mixed case queue, KF-C05-UGM-MIXED-CASE-QUEUE: alt)
MixedPaths == {"root.dev"}
Seen(c) == [q \in Paths |-> IF q \in MixedPaths THEN EmptyConf[q] ELSE c[q]]
AltGroup(q, a, u) == IF Tracked(a) THEN alt[a] ELSE Resolve(Seen(conf), q, UserGroups[u])
GroupRemovalAmbiguous(old, new) ==
    \E q \in Paths, g \in Groups \cup {Wild} :
       /\ IsSet(old[q].g[g]) /\ ~IsSet(new[q].g[g])
       /\ \/ GroupApps(g, q) # {}
          \/ \E a \in Apps : Tracked(a) /\ alt[a] = g /\ q \in OnPath(apps[a].queue)

\* shapes of configuration changes that hit the defects recorded in KNOWN_FINDINGS.json (not generated when Clean)
\*  KF-C05-UGM-STALE-WILDCARD-USER: the wildcard user limit of a queue is dropped
\*  KF-C05-UGM-MOVED-LIMIT-LOST: a user or group loses its limit on a queue and has a limit on a descendant of it afterwards
\*  KF-C05-UGM-GROUP-REMOVAL-WIPES-ANCESTORS: a group loses a limit on some queue while applications resolved to it are counted anywhere
KnownShape(old, new) ==
    \/ \E q \in Paths : IsSet(old[q].u[Wild]) /\ ~IsSet(new[q].u[Wild])
    \/ \E q \in Paths, x \in {"u", "g"} \X (Users \cup Groups \cup {Wild}) :
         /\ x[2] \in Names(x[1]) /\ IsSet(old[q][x[1]][x[2]]) /\ ~IsSet(new[q][x[1]][x[2]])
         /\ \E d \in Paths : d # q /\ q \in OnPath(d) /\ IsSet(new[d][x[1]][x[2]])
    \/ \E q \in Paths, g \in Groups \cup {Wild} :
         /\ IsSet(old[q].g[g]) /\ ~IsSet(new[q].g[g]) /\ GroupApps(g, Root) # {}

Acceptable(new) == /\ ValidConfig(new)
                   /\ MixedCase \/ \A k \in {"u", "g"} : \A n \in Names(k) : ~IsSet(new["root.dev"][k][n])

\* edits of the draft at queue q for the subject s = <<kind, name>>
SetEdits(q, s) == {c \in {SetL(draft, q, s[1], s[2], l) : l \in Limits} : c # draft /\ Acceptable(c)}
\* move the limit of the subject from q to its parent or to a child
Adjacent(q) == (IF q = Root THEN {} ELSE {Parent[q]}) \cup {p \in EditPaths \ {Root} : Parent[p] = q}
MoveEdits(q, s) == IF ~IsSet(draft[q][s[1]][s[2]]) THEN {}
                   ELSE {c \in {SetL(SetL(draft, q, s[1], s[2], NoLimit), p, s[1], s[2], draft[q][s[1]][s[2]]) : p \in Adjacent(q)} :
                           c # draft /\ Acceptable(c)}
DropEdits(q, s) == IF ~IsSet(draft[q][s[1]][s[2]]) THEN {}
                   ELSE {c \in {SetL(draft, q, s[1], s[2], NoLimit)} : Acceptable(c)}
EditsAt(q, s, d) == IF d <= 2 /\ MoveEdits(q, s) # {} THEN MoveEdits(q, s)
                    ELSE IF d <= 4 /\ DropEdits(q, s) # {} THEN DropEdits(q, s)
                    ELSE SetEdits(q, s)
Subjects == {x \in {"u", "g"} \X (Users \cup Groups \cup {Wild}) : x[2] \in Names(x[1])}

---------------------------------------------------------------------------
(* sampled behaviours *)
SimInit == /\ Init
           /\ pc = "choose" /\ dice = 1 /\ pick = "a1" /\ pickq = <<Root, <<"u", Wild>>>>
           /\ draft = EmptyConf /\ nconf = 0 /\ nedits = 0 /\ steps = <<>> /\ last = <<>> /\ adm = FALSE
           /\ alt = [a \in Apps |-> NoGroup]

Finished == Len(steps) >= MaxSteps

\* stage 1: roll the die (class of the next action), then pre-select an application or a queue
Choose == /\ pc = "choose"
          /\ \E d \in 1..10 :
               /\ dice' = d
               /\ pc' = IF nconf = 0 \/ (d <= 3 /\ nconf < MaxConf) THEN "pickq" ELSE "picka"
          /\ UNCHANGED <<conf, apps, pick, pickq, draft, nconf, nedits, steps, last, adm, alt>>
PickA == /\ pc = "picka"
         /\ \E a \in Apps : pick' = a
         /\ pc' = "use"
         /\ UNCHANGED <<conf, apps, dice, pickq, draft, nconf, nedits, steps, last, adm, alt>>
PickQ == /\ pc = "pickq"
         /\ \E q \in EditPaths, x \in Subjects : pickq' = <<q, x>>
         /\ pc' = "edit"
         /\ UNCHANGED <<conf, apps, dice, pick, draft, nconf, nedits, steps, last, adm, alt>>

\* stage 2a: one edit of the draft configuration at the selected queue, then roll again: more edits or apply
Edit == /\ pc = "edit"
        /\ \E c \in EditsAt(pickq[1], pickq[2], dice) : draft' = c
        /\ nedits' = nedits + 1
        /\ pc' = "roll"
        /\ UNCHANGED <<conf, apps, dice, pick, pickq, nconf, steps, last, adm, alt>>
\* no acceptable edit at the selected queue: roll again
EditSkip == /\ pc = "edit" /\ EditsAt(pickq[1], pickq[2], dice) = {}
            /\ pc' = "roll"
            /\ UNCHANGED <<conf, apps, dice, pick, pickq, draft, nconf, nedits, steps, last, adm, alt>>
Roll == /\ pc = "roll"
        /\ \E d \in 1..10 :
             /\ dice' = d
             /\ pc' = IF nedits = 0 \/ (nedits < MaxEdits /\ (d <= 6 \/ (nconf = 0 /\ d <= 9))) THEN "pickq" ELSE "apply"
        /\ UNCHANGED <<conf, apps, pick, pickq, draft, nconf, nedits, steps, last, adm, alt>>

ChangeOK(old, new) == /\ ~GroupRemovalAmbiguous(old, new)
                      /\ Clean => ~KnownShape(old, new)

\* stage 2b: UpdateConfig(draft)
Apply == /\ pc = "apply"
         /\ IF ChangeOK(conf, draft)
            THEN /\ UpdateConfig(draft)
                 /\ nconf' = nconf + 1
                 /\ last' = [op |-> "conf", lim |-> LimitsOf(draft)]
                 /\ pc' = "obs"
                 /\ UNCHANGED draft
            ELSE /\ draft' = conf                  \* the change is outside the specified part: forget it
                 /\ pc' = "choose"
                 /\ UNCHANGED <<conf, apps, nconf, last>>
         /\ nedits' = 0 /\ adm' = FALSE
         /\ UNCHANGED <<dice, pick, pickq, steps, alt>>

\* stage 2c: Increase / Decrease for the selected application; with dice >= 8 only increases the manager admits
Use == /\ pc = "use"
       /\ \/ \E q \in Leaves, u \in Users, r \in IncChoices :
               /\ apps[pick].res["memory"] + r["memory"] <= MaxMem
               /\ MixedCase \/ q # "root.dev"
               /\ dice >= 8 => Admitted(q, pick, r, u)
               /\ Increase(q, pick, r, u)
               /\ alt' = [alt EXCEPT ![pick] = AltGroup(q, pick, u)]
               /\ adm' = IF dice >= 8 THEN WithinLimits ELSE FALSE
               /\ last' = [op |-> "inc", q |-> q, app |-> pick, user |-> u, r |-> Use2(r)]
          \/ \E r \in IncChoices \cup {apps[pick].res}, rm \in BOOLEAN :
               /\ Tracked(pick)
               /\ Decrease(pick, r, rm)
               /\ adm' = FALSE /\ UNCHANGED alt
               /\ last' = [op |-> "dec", q |-> apps[pick].queue, app |-> pick, user |-> apps[pick].user, r |-> Use2(r), rm |-> rm]
       /\ pc' = "obs"
       /\ UNCHANGED <<dice, pick, pickq, draft, nconf, nedits, steps>>

\* nothing possible for the selected application (e.g. only admitted increases wanted and none fits)
UseSkip == /\ pc = "use" /\ ~ENABLED Use
           /\ pc' = "choose"
           /\ UNCHANGED <<conf, apps, dice, pick, pickq, draft, nconf, nedits, steps, last, adm, alt>>

\* stage 3: record the step with the observations expected after it
Observe == /\ pc = "obs"
           /\ steps' = Append(steps, [act |-> last, exp |-> Expect])
           /\ pc' = IF Len(steps) + 1 >= MaxSteps THEN "done" ELSE "choose"
           /\ UNCHANGED <<conf, apps, dice, pick, pickq, draft, nconf, nedits, last, adm, alt>>

SimNext == Choose \/ PickA \/ PickQ \/ Edit \/ EditSkip \/ Roll \/ Apply \/ Use \/ UseSkip \/ Observe
SimSpec == SimInit /\ [][SimNext]_mcvars

---------------------------------------------------------------------------
(* exhaustive: pairs of configurations of a family x a fixed usage script *)
L(r, n) == [res |-> r, apps |-> n]
FamValues2 == {NoLimit, L(M(3), 1)}
FamValues3 == {NoLimit, L(M(3), 1), L(MP(8, 2), 2)}
WithLimits(assign) == [q \in Paths |-> [k \in {"u", "g"} |-> [n \in Names(k) |->
                          IF <<q, k, n>> \in DOMAIN assign THEN assign[<<q, k, n>>] ELSE NoLimit]]]
FamKeys(f) == CASE f = "user"  -> {<<"root.p", "u", "alice">>, <<"root.p", "u", Wild>>, <<"root.p.x", "u", "alice">>, <<"root.p.x", "u", Wild>>}
                [] f = "group" -> {<<"root.p", "g", "dev">>, <<"root.p", "g", Wild>>, <<"root.p.x", "g", "dev">>, <<"root.p.x", "g", "ops">>}
                [] f = "root"  -> {<<"root", "u", "alice">>, <<"root", "u", Wild>>, <<"root.p.x", "u", "bob">>, <<"root", "g", "ops">>}
                [] f = "case"  -> {<<"root.dev", "u", "alice">>, <<"root.dev", "u", Wild>>, <<"root.dev", "g", "dev">>, <<"root", "u", "alice">>}
FamilyConfs(f) == {c \in {WithLimits(as) : as \in [FamKeys(f) -> FamValues]} : ValidConfig(c)}

A(op, q, app, user, r) == [op |-> op, q |-> q, app |-> app, user |-> user, r |-> r]
R2(m, p) == [t \in Types |-> IF t = "memory" THEN m ELSE p]
LeafOf(f) == IF f = "case" THEN "root.dev" ELSE "root.p.x"
\* position 1 and 5 are the two configurations
Script(f) == <<[op |-> "conf"],
               [op |-> "inc", q |-> LeafOf(f), app |-> "a1", user |-> "alice", r |-> R2(2, 0)],
               [op |-> "inc", q |-> LeafOf(f), app |-> "a2", user |-> "bob", r |-> R2(1, 1)],
               [op |-> "inc", q |-> "root.q", app |-> "a3", user |-> "alice", r |-> R2(1, 0)],
               [op |-> "conf"],
               [op |-> "dec", app |-> "a1", r |-> R2(1, 0), rm |-> FALSE],
               [op |-> "inc", q |-> LeafOf(f), app |-> "a2", user |-> "bob", r |-> R2(2, 0)],
               [op |-> "dec", app |-> "a3", r |-> R2(1, 0), rm |-> TRUE],
               [op |-> "inc", q |-> LeafOf(f), app |-> "a3", user |-> "bob", r |-> R2(1, 0)]>>

PairInit == /\ Init
            /\ pc = "run" /\ dice = 1 /\ pick = "a1" /\ pickq = <<Root, <<"u", Wild>>>>
            /\ draft = EmptyConf /\ nconf = 0 /\ nedits = 0 /\ steps = <<>> /\ last = <<>> /\ adm = FALSE
           /\ alt = [a \in Apps |-> NoGroup]

PairStep == /\ pc = "run"
            /\ LET s == Script(Family)[Len(steps) + 1] IN
                 IF s.op = "conf"
                 THEN \E c \in FamilyConfs(Family) :
                        /\ ~GroupRemovalAmbiguous(conf, c)
                        /\ UpdateConfig(c)
                        /\ last' = [op |-> "conf", lim |-> LimitsOf(c)]
                        /\ nconf' = nconf + 1
                        /\ adm' = FALSE /\ UNCHANGED alt
                 ELSE IF s.op = "inc"
                 THEN /\ Increase(s.q, s.app, s.r, s.user)
                      /\ alt' = [alt EXCEPT ![s.app] = AltGroup(s.q, s.app, s.user)]
                      /\ adm' = (WithinLimits /\ Admitted(s.q, s.app, s.r, s.user))
                      /\ last' = [op |-> "inc", q |-> s.q, app |-> s.app, user |-> s.user, r |-> Use2(s.r)]
                      /\ UNCHANGED nconf
                 ELSE /\ Decrease(s.app, s.r, s.rm)
                      /\ adm' = FALSE /\ UNCHANGED alt
                      /\ last' = [op |-> "dec", q |-> apps[s.app].queue, app |-> s.app, user |-> apps[s.app].user, r |-> Use2(s.r), rm |-> s.rm]
                      /\ UNCHANGED nconf
            /\ pc' = "pobs"
            /\ UNCHANGED <<dice, pick, pickq, draft, nedits, steps>>

PairObserve == /\ pc = "pobs"
               /\ steps' = Append(steps, [act |-> last, exp |-> Expect])
               /\ pc' = IF Len(steps) + 1 >= Len(Script(Family)) THEN "done" ELSE "run"
               /\ UNCHANGED <<conf, apps, dice, pick, pickq, draft, nconf, nedits, last, adm, alt>>

PairNext == PairStep \/ PairObserve
PairSpec == PairInit /\ [][PairNext]_mcvars

---------------------------------------------------------------------------
(* emission and checks on the specification itself *)
Header == [users |-> ProbeUsers, groups |-> [u \in Users |-> UserGroups[u]], leaves |-> ProbeLeaves, apps |-> AppOrder,
           names |-> ConfName, parent |-> Parent, inf |-> Inf]
ASSUME PrintT(<<"HDR", ToJson(Header)>>)

EmitBeh == pc # "done" \/ PrintT(<<"BEH", ToJson([steps |-> steps, nconf |-> nconf])>>)

\* C05 on the specification: an increase that Headroom / CanRunApp admitted keeps every user and group within the limits
\* (evaluated once per API call: in simulation mode TLC evaluates the invariants on every successor it generates)
AtCall == pc \in {"obs", "pobs"}
AdmittedStaysWithin == (AtCall /\ adm) => WithinLimits
MCTypeOK == AtCall => (TypeOK /\ ValidConfig(conf))
=============================================================================
