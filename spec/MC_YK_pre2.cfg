SPECIFICATION SpecPre2
CONSTANTS
  Nodes = {"n0", "n1"}
  Apps = {"app0", "app1"}
  Keys = {"k0", "k1", "k2", "k3", "k4"}
  Caps = {2}
  Sizes = {1, 2}
  Leaves <- MCLeavesPre
  QMax <- MCQMaxPre
  AppLeaf <- MCAppLeafPre
  TaskGroups = {"tg"}
  GangApps = {}
  Guar <- MCGuarPre
  WithRestart = FALSE
  PreemptOn = TRUE
  AsCoded = FALSE
  MaxHist = 17
VIEW view
CONSTRAINT Bound
INVARIANT TypeOK
INVARIANT C01_NoOvercommit
INVARIANT C02_QueueWithinMax
INVARIANT C03_QueueLedger
INVARIANT C03_RootVsNodes
INVARIANT C03_NoOrphans
INVARIANT C03_NonNegative
INVARIANT C03_Preempting
INVARIANT C08_GuaranteeKept
INVARIANT C04_Legal
INVARIANT C09_Resv
INVARIANT C10_CompletingIdle
CHECK_DEADLOCK FALSE
