------------------------------- MODULE YKConc -------------------------------
(* Fine-grained refinement of the allocation pipeline for property C14: the scheduling cycle and the RM event   *)
(* handlers run in different goroutines and take the locks of partition, queue, application and node one at a  *)
(* time.  One action per critical section of the implementation:                                              *)
(*   scheduler : Select (tryNodes: pre-checks on the node)  ->  Commit1 (tryNode: Node.TryAddAllocation,        *)
(*               Queue.TryIncAllocatedResource, app.allocateAsk/addAllocation)  ->  Commit2 (partition.allocate *)
(*               looks the node up in the partition and finishes or unwinds)                                   *)
(*   RM events : RemoveNode1 (removeNodeFromList)  ->  RemoveNode2 (removeNodeAllocations + root max update)    *)
(*               Release (removeAllocation of a bound allocation)                                              *)
(* Between any two of them the other goroutine may run.  The gates compiled into the verif build                *)
(* (tryNode.beforeNodeAdd, partition.allocate.entry, removeNode.afterList) sit exactly at these boundaries, so a *)
(* TLC counter-example is a schedule the harness can force on the real code (ykh gate).                         *)
(* AsCoded = TRUE: partition.allocate only un-allocates the ask when the node has gone (what the code does);    *)
(* AsCoded = FALSE: it also takes the allocation back out of application and queue (intended).                  *)
EXTENDS Integers, FiniteSets, FiniteSetsExt, Sequences, TLC

CONSTANTS Nodes, Keys, Cap, Size, AsCoded

VARIABLES listed,   \* nodes in the partition's node list
          nkeys,    \* [Nodes -> SUBSET Keys] allocations held by each node OBJECT (reachable through a stale pointer)
          ask,      \* [Keys -> "pend" | "alloc" | "gone"]
          inApp,    \* SUBSET Keys: keys in the application's allocations map
          qal,      \* queue allocated ledger
          spc,      \* scheduler program counter: <<"idle">> | <<"selected", k, n>> | <<"added", k, n>> | <<"nofit">>
          rpc,      \* remover program counter: <<"idle">> | <<"unlisted", n>>
          sched     \* the interleaving so far (for the gate replay)
vars == <<listed, nkeys, ask, inApp, qal, spc, rpc, sched>>

Init == /\ listed = Nodes /\ nkeys = [n \in Nodes |-> {}] /\ ask = [k \in Keys |-> "pend"] /\ inApp = {} /\ qal = 0
        /\ spc = <<"idle">> /\ rpc = <<"idle">> /\ sched = <<>>
Used(n) == Size * Cardinality(nkeys[n])
Log(x) == sched' = Append(sched, x)

Select(k, n) == /\ spc = <<"idle">> /\ ask[k] = "pend" /\ n \in listed /\ Used(n) + Size <= Cap
                /\ spc' = <<"selected", k, n>> /\ Log(<<"Select", k, n>>)
                /\ UNCHANGED <<listed, nkeys, ask, inApp, qal, rpc>>
Commit1 == /\ spc[1] = "selected"
           /\ LET k == spc[2]
                  n == spc[3] IN
              IF ask[k] = "pend" /\ Used(n) + Size <= Cap        \* Node.TryAddAllocation re-checks the fit on the node object
              THEN /\ nkeys' = [nkeys EXCEPT ![n] = @ \cup {k}] /\ qal' = qal + Size /\ ask' = [ask EXCEPT ![k] = "alloc"]
                   /\ inApp' = inApp \cup {k} /\ spc' = <<"added", k, n>>
              ELSE /\ spc' = <<"idle">> /\ UNCHANGED <<nkeys, qal, ask, inApp>>
           /\ Log(<<"Commit1">>) /\ UNCHANGED <<listed, rpc>>
Commit2 == /\ spc[1] = "added"
           /\ LET k == spc[2]
                  n == spc[3] IN
              IF n \in listed
              THEN UNCHANGED <<ask, inApp, qal, nkeys>>                      \* allocation confirmed and announced
              ELSE IF AsCoded
                   THEN /\ ask' = [ask EXCEPT ![k] = IF ask[k] = "alloc" THEN "pend" ELSE ask[k]] /\ UNCHANGED <<inApp, qal, nkeys>>       \* only DeallocateAsk
                   ELSE IF k \in inApp                \* intended: take back exactly what is still there
                        THEN /\ ask' = [ask EXCEPT ![k] = "pend"] /\ inApp' = inApp \ {k} /\ qal' = qal - Size
                             /\ nkeys' = [nkeys EXCEPT ![n] = @ \ {k}]
                        ELSE UNCHANGED <<ask, inApp, qal, nkeys>>   \* the node removal already cleaned up
           /\ spc' = <<"idle">> /\ Log(<<"Commit2">>) /\ UNCHANGED <<listed, rpc>>
RemoveNode1(n) == /\ rpc = <<"idle">> /\ n \in listed
                  /\ listed' = listed \ {n} /\ rpc' = <<"unlisted", n>> /\ Log(<<"RemoveNode1", n>>)
                  /\ UNCHANGED <<nkeys, ask, inApp, qal, spc>>
RemoveNode2 == /\ rpc[1] = "unlisted"
               /\ LET n == rpc[2]
                      K == nkeys[n] \cap inApp IN        \* allocations found on the node object right now
                  /\ inApp' = inApp \ K /\ qal' = qal - Size * Cardinality(K)
                  /\ ask' = [k \in Keys |-> IF k \in K THEN "gone" ELSE ask[k]]
                  /\ nkeys' = [nkeys EXCEPT ![n] = @ \ K]
               /\ rpc' = <<"idle">> /\ Log(<<"RemoveNode2">>) /\ UNCHANGED <<listed, spc>>
Next == \/ \E k \in Keys, n \in Nodes : Select(k, n)
        \/ Commit1 \/ Commit2 \/ RemoveNode2
        \/ \E n \in Nodes : RemoveNode1(n)
Spec == Init /\ [][Next]_vars

Quiescent == spc = <<"idle">> /\ rpc = <<"idle">>
\* C03 at quiescence: the queue ledger is the sum of the application's allocations, every allocation of the
\* application sits on a listed node, no node object that left the partition still holds an allocation
Conserved == Quiescent =>
      /\ qal = Size * Cardinality(inApp)
      /\ \A k \in inApp : \E n \in listed : k \in nkeys[n]
      /\ \A k \in Keys : ask[k] = "alloc" <=> k \in inApp
=============================================================================
