-------------------------------- MODULE UGM --------------------------------
(* C05: the user / group manager (pkg/scheduler/ugm/manager.go) as a deterministic state machine, seen through its     *)
(* public API: UpdateConfig, IncreaseTrackedResource, DecreaseTrackedResource, Headroom, CanRunApp.                   *)
(*                                                                                                                     *)
(* Meaning taken from the doc comments, the configuration validator and the unit tests (pkg/scheduler/ugm/*_test.go): *)
(*  - a limit = [maxResources (sparse; a type that is not named is not limited), maxApplications (0 = not limited)];   *)
(*    a limit object without either is rejected by the validator, so "no limit" and NoLimit coincide;                  *)
(*  - queue paths are the RUNTIME paths (objects.Queue lower-cases the configured name): a limit configured on the     *)
(*    queue "Dev" below root applies to applications that run in root.dev;                                             *)
(*  - the limit of a user on a queue = the named user limit on that queue, else the wildcard user limit on that queue, *)
(*    else none ("specific limits always have higher precedence"); named and wildcard are never merged;                *)
(*  - user headroom of an application = component-wise minimum over all queues of its path of (limit - usage of the    *)
(*    user in that queue), for the types the limit names; nothing limited = unlimited (nil);                           *)
(*  - the group of an application is resolved ONCE, when the manager first sees the application: walking from the leaf *)
(*    to the root, on each queue the first of the user's groups (in the order of the user's group list) that has a     *)
(*    named group limit there, else the wildcard group "*" if that queue has a wildcard group limit, else one level    *)
(*    up (ensureGroup: "matching ... happens from leaf to root and first matching group would be picked"); a user      *)
(*    without groups, or without any match, has no group and only the user limits apply;                               *)
(*  - all applications resolved to "*" share ONE usage ("sets a cumulative limit for all users in that queue");        *)
(*  - the group limit on a queue = the limit configured there for exactly that group ("*" for the wildcard group);     *)
(*    Headroom = component-wise minimum of user headroom and group headroom;                                          *)
(*  - an application is counted in every queue of its path from its first Increase until a Decrease with removeApp;    *)
(*    CanRunApp = on every queue of the path, for the user and for the group: the application is already counted, or   *)
(*    maxApplications is 0, or count + 1 <= maxApplications;                                                           *)
(*  - UpdateConfig(c): afterwards the limits in force are exactly those of c (property text); usage is untouched.      *)
(*    NOT specified (excluded by the generator, see MC_UGM.tla): removing the limit of a group on a queue while an     *)
(*    application resolved to that group is counted there - the unit tests expect the group usage to be dropped and    *)
(*    the applications to be re-resolved, the property text expects usage = sum of live allocations.                    *)
(*    NOT exercised: two groups of one user with named limits on the same queue, listed in the configuration in an     *)
(*    order that differs from the user's group order (the implementation picks by configuration order; the generator  *)
(*    keeps both orders equal: MCUserGroups and the order in which the harness writes the limits).                     *)
(*                                                                                                                     *)
(* Headroom / CanRunApp are pure here; the implementation creates trackers as a side effect, which must not be         *)
(* observable through the API.                                                                                         *)
EXTENDS Integers, Sequences, FiniteSets

CONSTANTS Paths,       \* runtime queue paths, "root" included
          Parent,      \* [Paths \ {"root"} -> Paths]
          Leaves,      \* queues applications run in
          Users, Groups,
          UserGroups,  \* [Users -> Seq(Groups)]: the group list of each user, in the user's order
          Types,       \* resource types
          Apps,        \* application ids
          ResChoices,  \* admissible maxResources values (sparse resources; the empty one = absent)
          MaxAppsLimit \* admissible maxApplications: 0..MaxAppsLimit

VARIABLES conf,        \* the limits in force
          apps         \* tracked applications

Root == "root"
Wild == "*"             \* the wildcard user / wildcard group
NoGroup == ""

---------------------------------------------------------------------------
(* sparse resources: functions from a subset of Types to Int *)
NoRes == [t \in {} |-> 0]
Zero == [t \in Types |-> 0]
Min(a, b) == IF a < b THEN a ELSE b
\* a type missing on one side is not limited there
CMin(a, b) == [t \in (DOMAIN a) \cup (DOMAIN b) |->
                 IF t \in DOMAIN a /\ t \in DOMAIN b THEN Min(a[t], b[t]) ELSE IF t \in DOMAIN a THEN a[t] ELSE b[t]]
\* usage is total over Types
Add(a, b) == [t \in Types |-> a[t] + b[t]]
Sub(a, b) == [t \in Types |-> a[t] - b[t]]
Leq(a, b) == \A t \in Types : a[t] <= b[t]
\* resources.FitInMaxUndef: every requested type fits, a type the headroom does not name is not limited
FitsIn(r, room) == \A t \in DOMAIN room : r[t] <= room[t]

NoLimit == [res |-> NoRes, apps |-> 0]
IsSet(l) == DOMAIN l.res # {} \/ l.apps # 0
Limits == [res : ResChoices, apps : 0..MaxAppsLimit]

QueueLimits == [u : [Users \cup {Wild} -> Limits], g : [Groups \cup {Wild} -> Limits]]
Configs == [Paths -> QueueLimits]
EmptyConf == [q \in Paths |-> [u |-> [n \in Users \cup {Wild} |-> NoLimit], g |-> [n \in Groups \cup {Wild} |-> NoLimit]]]

RECURSIVE Up(_)
Up(q) == IF q = Root THEN <<q>> ELSE <<q>> \o Up(Parent[q])       \* the path, leaf first
PathSets == [q \in Paths |-> {Up(q)[i] : i \in 1..Len(Up(q))}]     \* constant: evaluated once by TLC
OnPath(q) == PathSets[q]

---------------------------------------------------------------------------
(* what the configuration validator (pkg/common/configs/configvalidator.go) admits: checkLimit, checkLimitResource,  *)
(* checkLimitMaxApplications. acc* = the limits carried forward from the ancestors.                                   *)
ResFits(child, parent) == \A t \in DOMAIN child : t \in DOMAIN parent => child[t] <= parent[t]
AppsFit(child, parent) == parent = 0 \/ (child # 0 /\ child <= parent)

\* limits carried forward to the children of q for one kind k ("u" / "g"): name -> [set, res, apps]
RECURSIVE Carried(_, _, _)
Carried(c, q, k) ==
    LET names == DOMAIN c[q][k]
        up == IF q = Root THEN [n \in names |-> [set |-> FALSE, res |-> NoRes, apps |-> 0]] ELSE Carried(c, Parent[q], k)
    IN [n \in names |->
          LET l == c[q][k][n] IN
            IF ~IsSet(l) THEN up[n]
            ELSE IF up[n].set THEN [set |-> TRUE, res |-> CMin(l.res, up[n].res), apps |-> l.apps]
            ELSE [set |-> TRUE, res |-> l.res, apps |-> l.apps]]

LevelOK(c, q, k) ==
    IF q = Root THEN TRUE
    ELSE LET up == Carried(c, Parent[q], k) IN
         \A n \in DOMAIN c[q][k] :
            LET l == c[q][k][n] IN
              IsSet(l) =>
                 IF up[n].set THEN ResFits(l.res, up[n].res) /\ AppsFit(l.apps, up[n].apps)
                 ELSE IF n # Wild /\ up[Wild].set THEN ResFits(l.res, up[Wild].res) /\ AppsFit(l.apps, up[Wild].apps)
                 ELSE TRUE

ValidConfig(c) ==
    /\ c \in [Paths -> [u : [Users \cup {Wild} -> [res : ResChoices, apps : Nat]], g : [Groups \cup {Wild} -> [res : ResChoices, apps : Nat]]]]
    /\ \A q \in Paths :
         /\ IsSet(c[q].g[Wild]) => \E n \in Groups : IsSet(c[q].g[n])     \* a wildcard group limit needs a named group limit on the queue
         /\ LevelOK(c, q, "u") /\ LevelOK(c, q, "g")

---------------------------------------------------------------------------
(* state *)
NoApp == [user |-> "", queue |-> "", group |-> NoGroup, res |-> Zero]
Tracked(a) == a \in Apps /\ apps[a].user # ""

UserApps(u, q) == {a \in Apps : apps[a].user = u /\ q \in OnPath(apps[a].queue)}
GroupApps(g, q) == {a \in Apps : Tracked(a) /\ apps[a].group = g /\ q \in OnPath(apps[a].queue)}

RECURSIVE SumRes(_)
SumRes(S) == IF S = {} THEN Zero ELSE LET a == CHOOSE x \in S : TRUE IN Add(apps[a].res, SumRes(S \ {a}))
UserUse(u, q) == SumRes(UserApps(u, q))
GroupUse(g, q) == SumRes(GroupApps(g, q))

\* limit lookup
UserLimit(c, q, u) == IF IsSet(c[q].u[u]) THEN c[q].u[u] ELSE c[q].u[Wild]
GroupLimit(c, q, g) == c[q].g[g]

\* group resolution
FirstMatch(c, q, gs) ==
    LET idx == {i \in 1..Len(gs) : IsSet(c[q].g[gs[i]])}
    IN IF idx = {} THEN NoGroup ELSE gs[CHOOSE i \in idx : \A j \in idx : i <= j]
RECURSIVE Resolve(_, _, _)
Resolve(c, q, gs) ==
    IF Len(gs) = 0 THEN NoGroup
    ELSE LET m == FirstMatch(c, q, gs) IN
         IF m # NoGroup THEN m
         ELSE IF IsSet(c[q].g[Wild]) THEN Wild
         ELSE IF q = Root THEN NoGroup
         ELSE Resolve(c, Parent[q], gs)

\* the group used for application a of user u in queue q: fixed once the application is tracked
GroupFor(a, u, q) == IF Tracked(a) THEN apps[a].group ELSE Resolve(conf, q, UserGroups[u])

---------------------------------------------------------------------------
(* observations *)
Room(l, use) == [t \in DOMAIN l.res |-> l.res[t] - use[t]]

RECURSIVE UserRoom(_, _)
UserRoom(u, q) == LET here == Room(UserLimit(conf, q, u), UserUse(u, q))
                  IN IF q = Root THEN here ELSE CMin(here, UserRoom(u, Parent[q]))
RECURSIVE GroupRoom(_, _)
GroupRoom(g, q) == LET here == Room(GroupLimit(conf, q, g), GroupUse(g, q))
                   IN IF q = Root THEN here ELSE CMin(here, GroupRoom(g, Parent[q]))

\* precondition of both observations: a tracked application is asked about with its own user and queue
ProbeOK(q, a, u) == q \in Paths /\ u \in Users /\ (Tracked(a) => apps[a].user = u /\ apps[a].queue = q)

\* sparse resource; the empty one = unlimited
Headroom(q, a, u) == LET g == GroupFor(a, u, q)
                     IN IF g = NoGroup THEN UserRoom(u, q) ELSE CMin(UserRoom(u, q), GroupRoom(g, q))

CountOK(l, S, a) == a \in S \/ l.apps = 0 \/ Cardinality(S) + 1 <= l.apps
CanRunApp(q, a, u) == LET g == GroupFor(a, u, q)
                      IN /\ \A p \in OnPath(q) : CountOK(UserLimit(conf, p, u), UserApps(u, p), a)
                         /\ g # NoGroup => \A p \in OnPath(q) : CountOK(GroupLimit(conf, p, g), GroupApps(g, p), a)

---------------------------------------------------------------------------
(* actions *)
Init == conf = EmptyConf /\ apps = [a \in Apps |-> NoApp]

UpdateConfig(c) == /\ ValidConfig(c)
                   /\ conf' = c
                   /\ UNCHANGED apps

\* IncreaseTrackedResource(q, a, r, [u, UserGroups[u]])
Increase(q, a, r, u) ==
    /\ q \in Leaves /\ a \in Apps /\ u \in Users
    /\ IF Tracked(a)
       THEN /\ apps[a].user = u /\ apps[a].queue = q
            /\ apps' = [apps EXCEPT ![a].res = Add(@, r)]
       ELSE apps' = [apps EXCEPT ![a] = [user |-> u, queue |-> q, group |-> Resolve(conf, q, UserGroups[u]), res |-> r]]
    /\ UNCHANGED conf

\* DecreaseTrackedResource(apps[a].queue, a, r, [apps[a].user, ..], removeApp); removeApp comes with the last release
Decrease(a, r, removeApp) ==
    /\ Tracked(a) /\ Leq(r, apps[a].res)
    /\ removeApp => r = apps[a].res
    /\ apps' = IF removeApp THEN [apps EXCEPT ![a] = NoApp] ELSE [apps EXCEPT ![a].res = Sub(@, r)]
    /\ UNCHANGED conf

---------------------------------------------------------------------------
(* the property on the specification: a decision that was admitted by Headroom (and CanRunApp for an application that *)
(* is not counted yet) never takes a user or a group over a limit of the configuration in force.                      *)
Within(l, use, S) == /\ \A t \in DOMAIN l.res : use[t] <= l.res[t]
                     /\ l.apps # 0 => Cardinality(S) <= l.apps
WithinLimits == \A q \in Paths :
                   /\ \A u \in Users : Within(UserLimit(conf, q, u), UserUse(u, q), UserApps(u, q))
                   /\ \A g \in Groups \cup {Wild} : Within(GroupLimit(conf, q, g), GroupUse(g, q), GroupApps(g, q))
Admitted(q, a, r, u) == FitsIn(r, Headroom(q, a, u)) /\ (Tracked(a) \/ CanRunApp(q, a, u))

TypeOK == /\ conf \in Configs
          /\ \A a \in Apps : /\ apps[a].user \in Users \cup {""}
                             /\ apps[a].group \in Groups \cup {Wild, NoGroup}
                             /\ \A t \in Types : apps[a].res[t] >= 0
=============================================================================
