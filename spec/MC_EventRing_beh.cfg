\* all behaviours (op sequences) within the bounds: one line per behaviour prefix
CONSTANTS
 Caps = {1,2,3,4}
 MaxAdds = 9
 MaxResizes = 2
 MaxStart = 10
 MaxCount = 10
INIT Init
NEXT Next
INVARIANT HistOK
INVARIANT EmitBeh
