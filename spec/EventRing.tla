------------------------------ MODULE EventRing ------------------------------
(* C20, part 1: the event history (pkg/events/event_ringbuffer.go) as an abstract, id-indexed history.     *)
(*                                                                                                         *)
(* Conventions taken from the code and its comments (all of them are what the property text says, except  *)
(* where marked "convention"):                                                                             *)
(*  - ids start at 0; the k-th recorded event (k = 0,1,..) gets id k;                                      *)
(*  - the history holds the most recent events, at most `capacity` of them; a resize keeps the most recent *)
(*    min(held, new capacity) events; growing does not bring anything back;                                *)
(*  - Query(start,count): start outside [lowest..last] (or empty history) -> no events + (lowest,last);    *)
(*    otherwise ids start .. min(start+count-1, last) in id order; count 0 -> no events; Unlimited stands  *)
(*    for math.MaxUint64 ("no limit", as documented on GetEventsFromID);                                   *)
(*  - convention: (lowest,last) are reported on EVERY query (the REST DAO exposes both always);            *)
(*  - convention: an empty history reports lowest = 0 and last = 0 (GetLastEventID: "If the buffer is      *)
(*    empty, it returns 0"), which is indistinguishable from a history holding only id 0;                  *)
(*  - Recent(count) = the most recent min(count, held) events ("It is allowed for count to be larger than  *)
(*    the number of elements");                                                                            *)
(*  - capacity 0 never reaches the buffer (getRingBufferCapacity replaces 0 by the default), so Caps       *)
(*    excludes 0; Resize(capacity) is a no-op.                                                             *)
EXTENDS Integers, Sequences

CONSTANTS Caps,         \* admissible capacities
          MaxAdds,      \* bound on recorded events
          MaxResizes,   \* bound on resize operations (including no-op resizes)
          MaxStart,     \* queries: start in 0..MaxStart
          MaxCount      \* queries: count in 0..MaxCount or Unlimited

Unlimited == -1

VARIABLES nextId,    \* id the next recorded event gets
          capacity,  \* current capacity
          hist,      \* ids held, oldest first
          ops,       \* history variable: 0 = Add, n > 0 = Resize(n); ops[1] is the initial capacity
          nres       \* history variable: number of resizes so far

vars == <<nextId, capacity, hist, ops, nres>>

Min(a, b) == IF a < b THEN a ELSE b
Range(a, b) == [i \in 1..(b - a + 1) |-> a + i - 1]          \* <<a, a+1, .., b>>, empty when b < a
LastN(s, n) == SubSeq(s, Len(s) - n + 1, Len(s))

Lowest == nextId - Len(hist)
Last == IF nextId = 0 THEN 0 ELSE nextId - 1

Init == /\ nextId = 0
        /\ capacity \in Caps
        /\ hist = <<>>
        /\ ops = <<capacity>>
        /\ nres = 0

Add == /\ nextId < MaxAdds
       /\ nextId' = nextId + 1
       /\ hist' = IF Len(hist) < capacity THEN Append(hist, nextId) ELSE Append(Tail(hist), nextId)
       /\ ops' = Append(ops, 0)
       /\ UNCHANGED <<capacity, nres>>

Resize(n) == /\ nres < MaxResizes
             /\ capacity' = n
             /\ hist' = LastN(hist, Min(Len(hist), n))
             /\ ops' = Append(ops, n)
             /\ nres' = nres + 1
             /\ UNCHANGED nextId

Next == Add \/ \E n \in Caps : Resize(n)

Spec == Init /\ [][Next]_vars

---------------------------------------------------------------------------
(* the property's answers *)

InRange(start) == start >= Lowest /\ start < nextId

Answer(start, count) ==
    [ids |-> IF InRange(start)
             THEN Range(start, IF count = Unlimited THEN nextId - 1 ELSE Min(start + count - 1, nextId - 1))
             ELSE <<>>,
     lo  |-> Lowest,
     la  |-> Last]

Recent(count) == IF count = Unlimited THEN hist ELSE LastN(hist, Min(count, Len(hist)))

---------------------------------------------------------------------------
(* invariants of the abstract history: consecutive ids, most recent events, bounded by the capacity *)

HistOK == /\ hist = Range(Lowest, nextId - 1)
          /\ Len(hist) <= capacity
          /\ Lowest >= 0

(* a query never returns a gap, a repeat, an id outside the history, or more than count *)
AnswerOK == \A s \in 0..MaxStart : \A c \in (0..MaxCount) \cup {Unlimited} :
              LET a == Answer(s, c) IN
                /\ \A i \in 1..Len(a.ids) : a.ids[i] = s + i - 1 /\ a.ids[i] >= Lowest /\ a.ids[i] < nextId
                /\ c # Unlimited => Len(a.ids) <= c
                /\ (InRange(s) /\ c # 0) => (Len(a.ids) >= 1 /\ (c = Unlimited \/ Len(a.ids) = c \/ a.ids[Len(a.ids)] = nextId - 1))
                /\ ~InRange(s) => a.ids = <<>>
=============================================================================
