---------------------------- MODULE MC_Placement ----------------------------
(* TLC enumerates placement cases for the lock-step check of C17 (spec/Placement.tla) and prints, for each one,   *)
(* the abstract input together with the outcome the specification demands:                                        *)
(*     <<"LAYOUT", ToJson([id |-> l, tree |-> queue records])>>              once per ACL layout                    *)
(*     <<"CASE", ToJson([fam, n, rules, layout, app, want |-> Place(rules, Tree(layout), app)])>>                 *)
(* Two families, both generated as INITIAL STATES (a configuration = rule chain + layout), the applications of a  *)
(* configuration are its successors (so that TLC's workers share the work):                                       *)
(*  "exh"     every chain of at most one rule WITHOUT parent rule from the vocabulary (the empty chain included)  *)
(*            x every layout in ExhLayouts x every application (or AppsPerExh random ones);                       *)
(*  "sampled" NSampled random chains of 1..3 rules, every rule with a random parent chain of depth <= 2,          *)
(*            a random layout, AppsPerSampled random applications.  All random draws are made while the initial   *)
(*            states are generated (one thread) and come from TLC's generator, which is seeded with -seed.        *)
(* Configurations that the configuration validator documents as invalid (static part of a `fixed` chain does not  *)
(* fit the configured queues, qualified `fixed` rule with a parent rule) are not generated: Admissible.           *)
EXTENDS Integers, Sequences, FiniteSets, TLC, Json, Randomization

CONSTANTS NSampled, AppsPerSampled, ExhLayouts, AppsPerExh

MCUpperMap     == [t \in {"ROOT", "A"} |-> IF t = "ROOT" THEN "root" ELSE "a"]
MCInvalidParts == {"b!d"}

P == INSTANCE Placement WITH UpperMap <- MCUpperMap, InvalidParts <- MCInvalidParts

-----------------------------------------------------------------------------
(* vocabulary: users, requested queues, tags *)
Users == { [user |-> "u1",      uparts |-> <<"u1">>,         groups |-> {"g1"}],
           [user |-> "u2",      uparts |-> <<"u2">>,         groups |-> {"g2"}],
           [user |-> "dot.ted", uparts |-> <<"dot", "ted">>, groups |-> {"gd"}],
           \* a user name with the characters that are legal for users but not for groups (and legal in a queue name)
           [user |-> "svc@x#1", uparts |-> <<"svc@x#1">>,    groups |-> {"g2"}] }

QueueNames == { <<>>, <<"a">>, <<"x">>, <<"new">>, <<"d">>, <<"p", "x">>, <<"ROOT", "A">>, <<"b!d">>,
                <<"root", "a">>, <<"root", "p">>, <<"root", "p", "x">>, <<"root", "p", "new">>, <<"root", "d">>,
                <<"root", "@recovery@">>, <<"root", "p", "x", "deeper">>, <<"root", "b!d">>, <<"root", "new", "sub">> }

TagValues  == { <<>>, <<"a">>, <<"new">>, <<"root", "p", "y">>, <<"root", "p", "new">>, <<"b!d">> }

Apps == { [user |-> u.user, uparts |-> u.uparts, groups |-> u.groups, queue |-> q, tags |-> [namespace |-> t], forced |-> f] :
          u \in Users, q \in QueueNames, t \in TagValues, f \in BOOLEAN }

-----------------------------------------------------------------------------
(* vocabulary: the queue tree  root{a, p{x, y, u1}, d (draining leaf) [, default]}  and the ACL layouts *)
Deny   == [all |-> FALSE, users |-> {}, groups |-> {}]
All    == [all |-> TRUE,  users |-> {}, groups |-> {}]
Usr(S) == [all |-> FALSE, users |-> S,  groups |-> {}]
Grp(S) == [all |-> FALSE, users |-> {}, groups |-> S]

R  == <<"root">>
A  == <<"root", "a">>
PP == <<"root", "p">>
X  == <<"root", "p", "x">>
Y  == <<"root", "p", "y">>
PU == <<"root", "p", "u1">>
D  == <<"root", "d">>
DF == <<"root", "default">>

\* sub / adm: ACLs that are set (every other ACL is empty = deny); dr: the draining leaf root.d is there; def: root.default is
\* configured; rt / pt: child template of root / of root.p (0 = none)
Layouts == <<
  [sub |-> (R :> All),                                   adm |-> <<>>,                  dr |-> TRUE , def |-> FALSE, rt |-> 5, pt |-> 7],
  [sub |-> <<>>,                                         adm |-> <<>>,                  dr |-> TRUE , def |-> FALSE, rt |-> 0, pt |-> 0],
  [sub |-> (PP :> Usr({"u1"})),                          adm |-> <<>>,                  dr |-> FALSE, def |-> FALSE, rt |-> 5, pt |-> 0],
  [sub |-> (A :> Usr({"u2"})),                           adm |-> (X :> Grp({"g1"})),    dr |-> TRUE , def |-> FALSE, rt |-> 0, pt |-> 7],
  [sub |-> (A :> Usr({"dot.ted"})),                      adm |-> (R :> Grp({"g1"})),    dr |-> TRUE , def |-> FALSE, rt |-> 5, pt |-> 7],
  [sub |-> (PP :> All) @@ (D :> All),                    adm |-> (A :> Usr({"u1"})),    dr |-> TRUE , def |-> FALSE, rt |-> 0, pt |-> 7],
  [sub |-> (R :> Usr({"u1", "dot.ted"})) @@ (Y :> Grp({"g2"})), adm |-> <<>>,           dr |-> TRUE , def |-> FALSE, rt |-> 5, pt |-> 0],
  [sub |-> (X :> Usr({"u2"})) @@ (PU :> Usr({"u1"})),    adm |-> (Y :> Usr({"u1"})),    dr |-> TRUE , def |-> FALSE, rt |-> 0, pt |-> 0],
  [sub |-> (R :> Grp({"gd"})),                           adm |-> (PP :> Usr({"u2"})),   dr |-> TRUE , def |-> TRUE,  rt |-> 0, pt |-> 7],
  [sub |-> (A :> All) @@ (DF :> Usr({"u1"})),            adm |-> <<>>,                  dr |-> FALSE, def |-> TRUE,  rt |-> 5, pt |-> 0],
  [sub |-> (R :> All),                                   adm |-> <<>>,                  dr |-> TRUE , def |-> TRUE,  rt |-> 0, pt |-> 0],
  [sub |-> (PP :> Grp({"g1", "g2"})) @@ (A :> Usr({"u1"})), adm |-> (D :> All),         dr |-> TRUE , def |-> TRUE,  rt |-> 0, pt |-> 7] >>

Tree(l) ==
  LET L == Layouts[l]
      Sub(p) == IF p \in DOMAIN L.sub THEN L.sub[p] ELSE Deny
      Adm(p) == IF p \in DOMAIN L.adm THEN L.adm[p] ELSE Deny
      Q(p, leaf, draining, tmpl) == [path |-> p, leaf |-> leaf, draining |-> draining, managed |-> TRUE,
                                     submit |-> Sub(p), admin |-> Adm(p), tmpl |-> tmpl]
  IN { Q(R, FALSE, FALSE, L.rt), Q(A, TRUE, FALSE, 0), Q(PP, FALSE, FALSE, L.pt), Q(X, TRUE, FALSE, 0), Q(Y, TRUE, FALSE, 0),
       Q(PU, TRUE, FALSE, 0) } \cup (IF L.dr THEN {Q(D, TRUE, TRUE, 0)} ELSE {}) \cup (IF L.def THEN {Q(DF, TRUE, FALSE, 0)} ELSE {})

-----------------------------------------------------------------------------
(* vocabulary: rules *)
FixedValues == { <<"root", "a">>, <<"a">>, <<"root", "p", "x">>, <<"root", "new">>, <<"root", "a", "sub">>,
                 <<"p">>, <<"root", "p">>, <<"new">>, <<"x">> }

Kinds == { [name |-> "provided", value |-> <<>>], [name |-> "user", value |-> <<>>], [name |-> "tag", value |-> <<"namespace">>] }
         \cup { [name |-> "fixed", value |-> v] : v \in FixedValues }

\* rx: the single regular expression entry the filter is configured with ("" = plain lists); the model declares which
\* of its users the expression matches: "^u" matches u1 and u2, not dot.ted and not svc@x#1
Filters == { [type |-> "none",  users |-> {},           groups |-> {},     rx |-> ""],
             [type |-> "allow", users |-> {"u1"},       groups |-> {},     rx |-> ""],
             [type |-> "deny",  users |-> {},           groups |-> {"g1"}, rx |-> ""],
             [type |-> "allow", users |-> {"u1", "u2"}, groups |-> {},     rx |-> "^u"],
             \* lists with more than one entry (these take the list branch of the filter construction)
             [type |-> "allow", users |-> {"u1", "svc@x#1"}, groups |-> {},          rx |-> ""],
             [type |-> "deny",  users |-> {"u2", "svc@x#1"}, groups |-> {"g1", "gd"}, rx |-> ""] }

BaseRules == { [name |-> k.name, value |-> k.value, create |-> c, filter |-> f, parent |-> <<>>] :
               k \in Kinds, c \in BOOLEAN, f \in Filters }

\* random draws depend on an argument so that TLC evaluates them afresh for every initial state
Draw(S, k) == RandomElement(S)

RECURSIVE RandRule(_, _)
RandRule(k, depth) ==
  LET nm == Draw({"provided", "user", "tag", "fixed"}, k)          \* the four rule names are equally likely
      b  == Draw({ x \in BaseRules : x.name = nm }, k)
  IN IF depth = 0 \/ Draw(1..5, k) > 2 THEN b ELSE [b EXCEPT !.parent = <<RandRule(k, depth - 1)>>]

-----------------------------------------------------------------------------
(* what the configuration validator documents (checkPlacementRules / fixedRule.initialise): C15 owns its checking *)
StaticTree == Tree(1)          \* queue structure is the same in every layout; d is referenced by no rule

RECURSIVE ChainOf(_)
ChainOf(r) == IF r.parent = <<>> THEN <<r>> ELSE ChainOf(r.parent[1]) \o <<r>>

RECURSIVE StaticPath(_, _)    \* longest static (fixed) part of a chain, outermost parent first
StaticPath(ch, i) ==
  IF i > Len(ch) \/ ch[i].name # "fixed" THEN <<>> ELSE ch[i].value \o StaticPath(ch, i + 1)

Admissible(r) ==
  LET ch   == ChainOf(r)
      fix  == { i \in 1..Len(ch) : \A j \in 1..i : ch[j].name = "fixed" }          \* leading fixed rules
      sp0  == StaticPath(ch, 1)
      sp   == IF P!Qualified(sp0) THEN sp0 ELSE P!Root \o sp0
      a    == P!Anchor(StaticTree, sp)
  IN /\ \A i \in 2..Len(ch) : ~(ch[i].name = "fixed" /\ P!Qualified(ch[i].value))  \* qualified fixed: no parent rule
     /\ fix # {} =>
          IF a = sp THEN P!Queue(StaticTree, a).leaf = (Cardinality(fix) = Len(ch))   \* only dynamic parts need a parent queue
          ELSE ~P!Queue(StaticTree, a).leaf /\ r.create

\* a random rule the validator admits: the first admissible one of a few random candidates (else the plain provided rule)
Plain == [name |-> "provided", value |-> <<>>, create |-> FALSE, filter |-> [type |-> "none", users |-> {}, groups |-> {}, rx |-> ""], parent |-> <<>>]
RandAdmRule(k) ==
  LET cands == { r \in { RandRule(k + j, 2) : j \in 1..6 } : Admissible(r) }
  IN IF cands = {} THEN Plain ELSE RandomElement(cands)

RandChain(k) == [i \in 1..(<<1, 2, 2, 3, 3>>[Draw(1..5, k)]) |-> RandAdmRule(k + i)]

-----------------------------------------------------------------------------
VARIABLES fam, n, rules, layout, apps, app

NoApp == <<>>

SomeApps(k) == IF k = 0 \/ k >= Cardinality(Apps) THEN Apps ELSE RandomSubset(k, Apps)

Init ==
  /\ app = NoApp
  /\ \/ /\ fam = "exh" /\ n = 0
        /\ rules \in {<<>>} \cup { <<r>> : r \in { b \in BaseRules : Admissible(b) } }
        /\ layout \in ExhLayouts
        /\ apps = SomeApps(AppsPerExh)
     \/ /\ fam = "sampled"
        /\ n \in 1..NSampled
        /\ rules = RandChain(n)
        /\ layout = Draw(1..Len(Layouts), n)
        /\ apps = SomeApps(AppsPerSampled)

Next == /\ app = NoApp
        /\ app' \in apps
        /\ apps' = {}
        /\ UNCHANGED <<fam, n, rules, layout>>

\* the specification agrees with the property statement on every case it hands out (self-check of the specification)
Sane == app # NoApp => P!C17(rules, Tree(layout), app)

Emit == app # NoApp =>
          PrintT(<<"CASE", ToJson([fam |-> fam, n |-> n, rules |-> rules, layout |-> layout, app |-> app,
                                   want |-> P!Place(rules, Tree(layout), app)])>>)

ASSUME \A l \in 1..Len(Layouts) : PrintT(<<"LAYOUT", ToJson([id |-> l, tree |-> Tree(l)])>>)
=============================================================================
