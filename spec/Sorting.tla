------------------------------ MODULE Sorting ------------------------------
(* C19: scheduling order is a deterministic function of the documented sort keys.                        *)
(*                                                                                                       *)
(* For every sorter of the scheduler (sibling queues, applications of a leaf queue, asks of an           *)
(* application) this module states the DOCUMENTED strict weak order as a predicate Before(rec, x, y)     *)
(* over abstract candidate records, and the three checks every recorded sorter call must satisfy:        *)
(*   P1  the output is a permutation of the eligible input candidates (pending-only filters),            *)
(*   P2  no pair is inverted: x in front of y in the output implies ~Before(y, x),                       *)
(*   P3  permutation invariance: pairs the policy distinguishes have the same relative order for every   *)
(*       presentation (input order / storage order) of the same candidates.                              *)
(* Ratios are exact rationals <<n, d>> (d > 0) compared by cross multiplication, never floats.           *)
(* Sources of the keys (pkg/scheduler/objects, pkg/common/resources):                                    *)
(*   queues        sorters.go sortQueue*, resources.go getFairShare / getShareFairForDenominator,        *)
(*                 queue.go GetFairMaxResource, priorityValueByPolicy                                     *)
(*   applications  sorters.go sortApplications*, resources.go CompUsageRatio / GetShares / compareShares  *)
(*   asks          allocation.go LessThan, sorted_asks.go                                                 *)
(* A candidate record has the fields                                                                      *)
(*   id, elig (must appear in the output), p, off, fence (queue priority, offset, fence policy),         *)
(*   t (submission / creation time), alloc, guar, max (resources: type -> quantity), pend, aps, ph.      *)
EXTENDS Integers, Sequences, FiniteSets, SequencesExt, TLC

SeqSet(s) == {s[i] : i \in DOMAIN s}
MaxOf(S) == CHOOSE m \in S : \A o \in S : o <= m

---------------------------------------------------------------------------
\* exact non-negative rationals
Zero == <<0, 1>>
RLt(p, q) == p[1] * q[2] < q[1] * p[2]
REq(p, q) == p[1] * q[2] = q[1] * p[2]
RMax(S) == CHOOSE p \in S : \A q \in S : ~RLt(p, q)
\* usage / denominator; a denominator that is explicitly zero (or negative) gives share 1 with usage, 0 without
Ratio(a, d) == IF d > 0 THEN <<a, d>> ELSE IF a > 0 THEN <<1, 1>> ELSE Zero

---------------------------------------------------------------------------
\* Sibling queues.
\* effective priority: priority of the queue (highest pending ask below it) plus offset; a fence replaces it by the offset
QPrio(c) == IF c.fence THEN c.off ELSE c.p + c.off
\* fair max: the root maximum, every type overridden by the queue's own maximum where that is set
FairMax(tot, c) == IF DOMAIN c.max = {} \/ DOMAIN tot = {} THEN tot
                   ELSE [t \in DOMAIN tot \cup DOMAIN c.max |-> IF t \in DOMAIN c.max THEN c.max[t] ELSE tot[t]]
\* share of one resource type: usage against the guaranteed quantity if the queue has one, else against the fair max
QShareOf(c, fm, t) == IF t \in DOMAIN c.guar THEN Ratio(c.alloc[t], c.guar[t])
                      ELSE IF t \in DOMAIN fm THEN Ratio(c.alloc[t], fm[t]) ELSE Zero
\* the fair share of a queue is its largest per-type share
QShare(tot, c) == LET fm == FairMax(tot, c) IN RMax({Zero} \cup {QShareOf(c, fm, t) : t \in DOMAIN c.alloc})
\* does the fair share of c consult the fair max at all
UsesFairMax(c) == \E t \in DOMAIN c.alloc : t \notin DOMAIN c.guar

QBefore(pol, prio, tot, x, y) ==
    LET sx == QShare(tot, x)  sy == QShare(tot, y)  px == QPrio(x)  py == QPrio(y) IN
    CASE pol = "fair" /\ prio  -> px > py \/ (px = py /\ (RLt(sx, sy) \/ (REq(sx, sy) /\ x.pend > y.pend)))
      [] pol = "fair" /\ ~prio -> RLt(sx, sy) \/ (REq(sx, sy) /\ (px > py \/ (px = py /\ x.pend > y.pend)))
      [] pol = "fifo" /\ prio  -> px > py
      [] OTHER -> FALSE            \* fifo without priority: queues are not ordered at all

---------------------------------------------------------------------------
\* Applications of a leaf queue.
APrio(c) == IF c.aps = <<>> THEN -1000000 ELSE MaxOf(SeqSet(c.aps))      \* highest priority among the pending asks
\* share of one type: usage against the total; the raw usage where the total does not define (or has zero of) the type
AShareOf(tot, c, t) == IF t \in DOMAIN tot /\ tot[t] # 0 THEN <<c.alloc[t], tot[t]>> ELSE <<c.alloc[t], 1>>
\* shares ordered from the dominant type downwards
AShares(tot, c) == LET ts == SetToSeq(DOMAIN c.alloc) IN
                   SortSeq([i \in DOMAIN ts |-> AShareOf(tot, c, ts[i])], LAMBDA p, q : RLt(q, p))
RECURSIVE CmpFrom(_, _, _)
CmpFrom(u, v, i) == IF i > Len(u) /\ i > Len(v) THEN 0
                    ELSE LET a == IF i <= Len(u) THEN u[i] ELSE Zero
                             b == IF i <= Len(v) THEN v[i] ELSE Zero IN
                         IF RLt(a, b) THEN -1 ELSE IF RLt(b, a) THEN 1 ELSE CmpFrom(u, v, i + 1)
ACmp(tot, x, y) == CmpFrom(AShares(tot, x), AShares(tot, y), 1)

ABefore(pol, prio, tot, x, y) ==
    LET px == APrio(x)  py == APrio(y) IN
    CASE pol = "fair" /\ prio  -> px > py \/ (px = py /\ ACmp(tot, x, y) < 0)
      [] pol = "fair" /\ ~prio -> ACmp(tot, x, y) < 0 \/ (ACmp(tot, x, y) = 0 /\ px > py)
      [] pol = "fifo" /\ prio  -> px > py \/ (px = py /\ x.t < y.t)
      [] pol = "fifo" /\ ~prio -> x.t < y.t \/ (x.t = y.t /\ px > py)
      [] OTHER -> FALSE

---------------------------------------------------------------------------
\* Asks of an application: priority descending, then creation time ascending.
KBefore(x, y) == x.p > y.p \/ (x.p = y.p /\ x.t < y.t)

---------------------------------------------------------------------------
\* One recorded sorter call: [k, pol, prio, tot, c (candidates), in, out, grp, via, ord].
Before(rec, x, y) == CASE rec.k = "queue" -> QBefore(rec.pol, rec.prio, rec.tot, x, y)
                       [] rec.k = "app"   -> ABefore(rec.pol, rec.prio, rec.tot, x, y)
                       [] rec.k = "ask"   -> KBefore(x, y)
                       [] OTHER -> FALSE
Cands(rec) == SeqSet(rec.c)
CandOf(rec, id) == CHOOSE c \in Cands(rec) : c.id = id
Elig(rec) == {c.id : c \in {d \in Cands(rec) : d.elig}}
Known(rec) == SeqSet(rec.out) \subseteq {c.id : c \in Cands(rec)}
Distinguished(rec, a, b) == LET x == CandOf(rec, a)  y == CandOf(rec, b) IN Before(rec, x, y) \/ Before(rec, y, x)
Pos(s, x) == CHOOSE i \in DOMAIN s : s[i] = x

P1(rec) == Len(rec.out) = Cardinality(Elig(rec)) /\ SeqSet(rec.out) = Elig(rec)
P2(rec) == Known(rec) => \A i, j \in DOMAIN rec.out :
               i < j => ~Before(rec, CandOf(rec, rec.out[j]), CandOf(rec, rec.out[i]))
\* ref: the output of another presentation of the same candidates under the same policy
P3(rec, ref) == Known(rec) => \A a, b \in SeqSet(rec.out) \cap SeqSet(ref) :
               (a # b /\ Distinguished(rec, a, b)) => ((Pos(rec.out, a) < Pos(rec.out, b)) <=> (Pos(ref, a) < Pos(ref, b)))
HasDistinguished(rec) == \E a, b \in Elig(rec) : a # b /\ Distinguished(rec, a, b)

\* Shape of the known finding KF-C19-FAIRMAX-PARALLEL: fair queue sort whose candidates do not all have the same
\* fair max while at least one of them needs it (sortQueuesBy*Fairness* index a parallel slice that is not permuted).
KF_FairMaxParallel(rec) == /\ rec.k = "queue" /\ rec.pol = "fair"
                           /\ LET E == {c \in Cands(rec) : c.elig} IN
                              /\ \E c \in E : UsesFairMax(c)
                              /\ \E c, d \in E : \E t \in DOMAIN FairMax(rec.tot, c) \cup DOMAIN FairMax(rec.tot, d) :
                                    \/ t \notin DOMAIN FairMax(rec.tot, c) \/ t \notin DOMAIN FairMax(rec.tot, d)
                                    \/ FairMax(rec.tot, c)[t] # FairMax(rec.tot, d)[t]

---------------------------------------------------------------------------
\* Sanity of the specification itself (checked by MC_Sorting): Before is a strict weak order on a set D of candidates.
StrictWeakOrder(B(_, _), D) ==
    /\ \A x \in D : ~B(x, x)
    /\ \A x, y \in D : B(x, y) => ~B(y, x)
    /\ \A x, y, z \in D : B(x, y) /\ B(y, z) => B(x, z)
    /\ \A x, y, z \in D : (~B(x, y) /\ ~B(y, x) /\ ~B(y, z) /\ ~B(z, y)) => (~B(x, z) /\ ~B(z, x))
=============================================================================
