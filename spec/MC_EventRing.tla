---------------------------- MODULE MC_EventRing ----------------------------
EXTENDS EventRing, TLC, Json

AbsView == <<nextId, capacity, hist>>

NS == MaxStart + 1
NC == MaxCount + 2
QS(k) == (k - 1) \div NC
QC(k) == ((k - 1) % NC) - 1

Table == [k \in 1..(NS * NC) |-> LET a == Answer(QS(k), QC(k)) IN <<QS(k), QC(k), a.ids, a.lo, a.la>>]
Recents == [k \in 1..NC |-> <<k - 2, Recent(k - 2)>>]
Key == <<nextId, capacity, Lowest>>

EmitTable == PrintT(<<"TABLE", ToJson([key |-> Key, ops |-> ops, q |-> Table, r |-> Recents])>>)
EmitBeh == PrintT(<<"BEH", ToJson([key |-> Key, ops |-> ops])>>)
=============================================================================
