SPECIFICATION Spec
CONSTANTS
  Nodes = {"n0", "n1"}
  Apps = {"app0", "app1"}
  Keys = {"k0", "k1", "k2"}
  Caps = {2, 3}
  Sizes = {1, 2}
  Leaves <- MCLeaves
  QMax <- MCQMax
  AppLeaf <- MCAppLeaf
  TaskGroups = {"tg"}
  GangApps = {"app1"}
  Guar <- MCGuar
  WithRestart = FALSE
  PreemptOn = FALSE
  AsCoded = FALSE
  MaxHist = 9
VIEW view
CONSTRAINT Bound
INVARIANT TypeOK
INVARIANT C01_NoOvercommit
INVARIANT C02_QueueWithinMax
INVARIANT C03_QueueLedger
INVARIANT C03_RootVsNodes
INVARIANT C03_NoOrphans
INVARIANT C03_NonNegative
INVARIANT C04_Legal
INVARIANT C06_NoStrayPlaceholder
INVARIANT C06_SwapLinks
INVARIANT C09_Resv
INVARIANT C10_CompletingIdle
CHECK_DEADLOCK FALSE
