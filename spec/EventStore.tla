----------------------------- MODULE EventStore -----------------------------
(* C20, part 2: the bounded store the shim publisher drains (pkg/events/event_store.go).                    *)
(*  - Store(e) keeps e unless the store already holds `eff` events (then e is dropped and counted);        *)
(*  - CollectEvents() hands over everything stored since the previous collection, oldest first, and        *)
(*    empties the store;                                                                                   *)
(*  - SetStoreSize(n) configures a new size; convention of the code (not contradicted by the property):    *)
(*    the new size takes force at the next collection, so "configured size" of a batch is the size that    *)
(*    was configured when the batch started to fill (`eff`).                                               *)
EXTENDS Integers, Sequences

CONSTANTS Sizes,      \* admissible store sizes (0 never reaches the store: getRequestCapacity replaces it)
          MaxEvents,  \* bound on Store calls
          MaxOps      \* bound on the length of a behaviour

VARIABLES size,     \* configured size
          eff,      \* size in force for the batch being filled
          stored,   \* ids held, oldest first
          nextEv,   \* id of the next event offered to Store
          handed,   \* history variable: everything handed over so far, in hand-over order
          accepted, \* history variable: everything Store accepted
          ops       \* history variable with the expected observations:
                    \*   <<0, id, held>> Store(id), afterwards CountStoredEvents = held
                    \*   <<1, batch>>    CollectEvents returned batch
                    \*   <<2, n>>        SetStoreSize(n)
                    \*   ops[1] = <<3, initial size>>

vars == <<size, eff, stored, nextEv, handed, accepted, ops>>

Init == /\ size \in Sizes
        /\ eff = size
        /\ stored = <<>>
        /\ nextEv = 0
        /\ handed = <<>>
        /\ accepted = <<>>
        /\ ops = <<<<3, size>>>>

Store == /\ nextEv < MaxEvents
         /\ Len(ops) <= MaxOps
         /\ LET keep == Len(stored) < eff
                st == IF keep THEN Append(stored, nextEv) ELSE stored IN
              /\ stored' = st
              /\ accepted' = IF keep THEN Append(accepted, nextEv) ELSE accepted
              /\ ops' = Append(ops, <<0, nextEv, Len(st)>>)
         /\ nextEv' = nextEv + 1
         /\ UNCHANGED <<size, eff, handed>>

Collect == /\ Len(ops) <= MaxOps
           /\ ops' = Append(ops, <<1, stored>>)
           /\ handed' = handed \o stored
           /\ stored' = <<>>
           /\ eff' = size
           /\ UNCHANGED <<size, nextEv, accepted>>

SetSize(n) == /\ Len(ops) <= MaxOps
              /\ size' = n
              /\ ops' = Append(ops, <<2, n>>)
              /\ UNCHANGED <<eff, stored, nextEv, handed, accepted>>

Next == Store \/ Collect \/ \E n \in Sizes : SetSize(n)

Spec == Init /\ [][Next]_vars

---------------------------------------------------------------------------
(* the batch never exceeds the size in force; events are handed over once and in order *)
BatchBounded == Len(stored) <= eff
HandedOnceInOrder == /\ \A i \in 1..(Len(handed) - 1) : handed[i] < handed[i + 1]
                     /\ handed \o stored = accepted
=============================================================================
