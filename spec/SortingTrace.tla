--------------------------- MODULE SortingTrace ---------------------------
(* Trace validation for C19: every line of the NDJSON file is one call of a real sorter of yunikorn-core   *)
(* (written by `ykh sortrec`); it is checked against the documented orders of Sorting.tla.                 *)
(* One TLC pass reports every failing line:                                                                *)
(*     <<"FAIL", check, line, matches-known-finding-shape, witness (json)>>                                *)
(* Lines of one group (same candidates, same policy, different presentation) are contiguous; the first     *)
(* line of the group is the reference presentation for P3.                                                 *)
EXTENDS Sorting, Json

CONSTANTS TraceFile

Trace == ndJsonDeserialize(TraceFile)

VARIABLES l,      \* current line
          refl,   \* first line of the current group
          nd      \* number of lines so far whose policy distinguishes at least one pair of eligible candidates
vars == <<l, refl, nd>>

D(i) == IF HasDistinguished(Trace[i]) THEN 1 ELSE 0
Init == l = 1 /\ refl = 1 /\ nd = D(1)
Next == /\ l < Len(Trace)
        /\ l' = l + 1
        /\ refl' = IF Trace[l + 1].grp = Trace[refl].grp THEN refl ELSE l + 1
        /\ nd' = nd + D(l + 1)
Spec == Init /\ [][Next]_vars
Accepted == TLCGet("stats").diameter = Len(Trace)

R == Trace[l]
Ref == Trace[refl].out
\* witnesses of a failure (evaluated only when the check fails)
WitP1 == [expected_members |-> Elig(R), actual |-> R.out]
WitP2 == [actual |-> R.out,
          must_be_before |-> IF Known(R)
                             THEN {<<R.out[p[2]], R.out[p[1]]>> : p \in
                                     {q \in (DOMAIN R.out) \X (DOMAIN R.out) :
                                         q[1] < q[2] /\ Before(R, CandOf(R, R.out[q[2]]), CandOf(R, R.out[q[1]]))}}
                             ELSE {}]
WitP3 == [actual |-> R.out, reference_line |-> refl, reference |-> Ref,
          order_differs |-> IF Known(R)
                            THEN {p \in (SeqSet(R.out) \cap SeqSet(Ref)) \X (SeqSet(R.out) \cap SeqSet(Ref)) :
                                     /\ p[1] # p[2] /\ Distinguished(R, p[1], p[2])
                                     /\ Pos(R.out, p[1]) < Pos(R.out, p[2]) /\ ~(Pos(Ref, p[1]) < Pos(Ref, p[2]))}
                            ELSE {}]
Chk(name, cond, wit) == cond \/ PrintT(<<"FAIL", name, l, KF_FairMaxParallel(R), ToJson(wit)>>)
All == /\ Chk("P1", P1(R), WitP1)
       /\ Chk("P2", P2(R), WitP2)
       /\ Chk("P3", P3(R, Ref), WitP3)
       /\ (l = Len(Trace) => PrintT(<<"STATS", l, nd>>))
=============================================================================
