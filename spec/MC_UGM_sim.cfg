\* sampled behaviours (tlc -simulate); constants marked "run" are replaced per run by vlib/ugmlimits.py
SPECIFICATION SimSpec
CONSTANTS
 Paths <- MCPaths
 Parent <- MCParent
 Leaves <- MCLeaves
 Users <- MCUsers
 Groups <- MCGroups
 UserGroups <- MCUserGroups
 Types <- MCTypes
 Apps <- MCApps
 ResChoices <- MCResChoices
 MaxAppsLimit = 2
 MaxConf = 3
 MaxSteps = 14
 MaxEdits = 8
 MaxMem = 6
 Clean = FALSE
 MixedCase = TRUE
 FamValues <- FamValues3
 Family = "none"
INVARIANT MCTypeOK
INVARIANT AdmittedStaysWithin
INVARIANT EmitBeh
CHECK_DEADLOCK FALSE
