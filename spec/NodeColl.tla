------------------------------ MODULE NodeColl ------------------------------
(* C19, node part: the node collection of a partition as a state machine.                                *)
(*                                                                                                       *)
(* Nodes are added and removed, their utilisation changes (scheduler allocations and foreign             *)
(* allocations arrive and leave), they get reserved and unreserved, and the sorting policy changes.      *)
(* After EVERY step the two iterators of the collection must satisfy:                                    *)
(*   GetFullNodeIterator visits every registered node exactly once,                                      *)
(*   GetNodeIterator     visits every registered node that is not reserved exactly once,                 *)
(*   both in the order of the policy's score computed from the CURRENT utilisation:                      *)
(*     fair       least used first  (score = weighted usage),                                            *)
(*     binpacking most used first   (score = 1 - weighted usage),                                        *)
(*   nodes with equal score may come in any order.                                                       *)
(* weighted usage of a node = (SUM over weighted types t: W[t] * used[t] / capacity[t]) / SUM W[t]        *)
(* (nodesorting.go absResourceUsage, node.go GetResourceUsageShares: used = capacity - available =       *)
(* allocated + occupied); kept as an exact rational <<n, d>>.                                            *)
(*                                                                                                       *)
(* TLC generates behaviours (exhaustively up to MaxOps steps, or sampled with -simulate); each complete  *)
(* behaviour is printed as  <<"CASE", json>>  with the expected iteration content and the usage of every *)
(* registered node after each step; `ykh nodecoll` replays them in lock-step on a real NodeCollection.   *)
EXTENDS Integers, Sequences, FiniteSets, FiniteSetsExt, Json, TLC

CONSTANTS Nodes,      \* node ids
          Cap,        \* node -> [type -> capacity]
          AllocIds,   \* ids of scheduler allocations (every node has its own instance of each)
          ForeignIds, \* ids of foreign allocations
          Size,       \* allocation id -> [type -> quantity]
          W,          \* resource weights of the sorting policy: type -> Nat (types not in the domain are not weighted)
          Policies,   \* subset of {"fair", "binpacking"}
          MaxOps      \* length of the generated behaviours

VARIABLES reg,    \* registered nodes
          held,   \* node -> set of allocation ids on it (scheduler and foreign)
          resv,   \* node -> reserved
          pol,    \* sorting policy
          dirty,  \* node -> its utilisation changed through a foreign allocation since the collection last scored it
          hist    \* the behaviour so far, with the expectations after every step
vars == <<reg, held, resv, pol, dirty, hist>>

Types(n) == DOMAIN Cap[n]
Get(r, t) == IF t \in DOMAIN r THEN r[t] ELSE 0
UsedOf(h, n, t) == FoldSet(LAMBDA a, acc : acc + Get(Size[a], t), 0, h[n])
Fits(h, n, a) == \A t \in DOMAIN Size[a] : UsedOf(h, n, t) + Size[a][t] <= Get(Cap[n], t)

WT(n) == {t \in Types(n) : t \in DOMAIN W /\ W[t] > 0 /\ Cap[n][t] > 0}
Prod(S, f(_)) == FoldSet(LAMBDA x, acc : acc * f(x), 1, S)
Sum(S, f(_)) == FoldSet(LAMBDA x, acc : acc + f(x), 0, S)
\* weighted usage as an exact rational
Usage(h, n) == IF WT(n) = {} THEN <<0, 1>>
               ELSE <<Sum(WT(n), LAMBDA t : W[t] * UsedOf(h, n, t) * Prod(WT(n) \ {t}, LAMBDA u : Cap[n][u])),
                      Sum(WT(n), LAMBDA t : W[t]) * Prod(WT(n), LAMBDA u : Cap[n][u])>>

\* what the iterators must deliver in a state
Expect(r, h, rs, p, d) == [full  |-> r,
                           unres |-> {n \in r : ~rs[n]},
                           use   |-> [n \in r |-> Usage(h, n)],
                           p     |-> p,
                           dirty |-> {n \in r : d[n]}]

Step(op, r, h, rs, p, d) ==
    /\ reg' = r /\ held' = h /\ resv' = rs /\ pol' = p /\ dirty' = d
    /\ hist' = Append(hist, [op |-> op, exp |-> Expect(r, h, rs, p, d)])

Init == /\ reg = {} /\ held = [n \in Nodes |-> {}] /\ resv = [n \in Nodes |-> FALSE]
        /\ pol = "fair" /\ dirty = [n \in Nodes |-> FALSE] /\ hist = <<>>

\* a new node object is registered; it is empty and unreserved
AddNode(n) == /\ n \notin reg
              /\ Step([op |-> "add", n |-> n, cap |-> Cap[n]], reg \cup {n}, [held EXCEPT ![n] = {}], [resv EXCEPT ![n] = FALSE], pol, [dirty EXCEPT ![n] = FALSE])
RemoveNode(n) == /\ n \in reg
                 /\ Step([op |-> "rm", n |-> n], reg \ {n}, [held EXCEPT ![n] = {}], [resv EXCEPT ![n] = FALSE], pol, [dirty EXCEPT ![n] = FALSE])
\* utilisation changes: a scheduler allocation is added to / removed from a registered node
Allocate(n, a) == /\ n \in reg /\ a \in AllocIds /\ a \notin held[n] /\ Fits(held, n, a)
                  /\ Step([op |-> "alloc", n |-> n, a |-> a, res |-> Size[a]], reg, [held EXCEPT ![n] = @ \cup {a}], resv, pol, [dirty EXCEPT ![n] = FALSE])
Release(n, a) == /\ n \in reg /\ a \in AllocIds /\ a \in held[n]
                 /\ Step([op |-> "rel", n |-> n, a |-> a], reg, [held EXCEPT ![n] = @ \ {a}], resv, pol, [dirty EXCEPT ![n] = FALSE])
\* a placeholder is replaced in place by a real allocation that is no larger (Node.ReplaceAllocation): the utilisation drops
Replace(n, a, b) == /\ n \in reg /\ a \in AllocIds /\ a \in held[n] /\ b \in AllocIds /\ b \notin held[n]
                    /\ \A t \in DOMAIN Size[b] : t \in DOMAIN Size[a] /\ Size[b][t] <= Size[a][t]
                    /\ Step([op |-> "repl", n |-> n, a |-> a, b |-> b, res |-> Size[b], old |-> Size[a]], reg,
                            [held EXCEPT ![n] = (@ \ {a}) \cup {b}], resv, pol, [dirty EXCEPT ![n] = FALSE])
\* a foreign allocation (a pod not scheduled by yunikorn) occupies part of the node
ForeignAdd(n, a) == /\ n \in reg /\ a \in ForeignIds /\ a \notin held[n] /\ Fits(held, n, a)
                    /\ Step([op |-> "falloc", n |-> n, a |-> a, res |-> Size[a]], reg, [held EXCEPT ![n] = @ \cup {a}], resv, pol, [dirty EXCEPT ![n] = TRUE])
ForeignRemove(n, a) == /\ n \in reg /\ a \in ForeignIds /\ a \in held[n]
                       /\ Step([op |-> "frel", n |-> n, a |-> a], reg, [held EXCEPT ![n] = @ \ {a}], resv, pol, [dirty EXCEPT ![n] = TRUE])
Reserve(n) == /\ n \in reg /\ ~resv[n]
              /\ Step([op |-> "resv", n |-> n], reg, held, [resv EXCEPT ![n] = TRUE], pol, dirty)
Unreserve(n) == /\ n \in reg /\ resv[n]
                /\ Step([op |-> "unresv", n |-> n], reg, held, [resv EXCEPT ![n] = FALSE], pol, dirty)
\* the policy is replaced: every node is scored again
SetPolicy(p) == /\ p \in Policies /\ p # pol
                /\ Step([op |-> "pol", p |-> p], reg, held, resv, p, [n \in Nodes |-> FALSE])

Next == /\ Len(hist) < MaxOps
        /\ \/ \E n \in Nodes : AddNode(n) \/ RemoveNode(n) \/ Reserve(n) \/ Unreserve(n)
           \/ \E n \in Nodes, a \in AllocIds : Allocate(n, a) \/ Release(n, a) \/ \E b \in AllocIds : Replace(n, a, b)
           \/ \E n \in Nodes, a \in ForeignIds : ForeignAdd(n, a) \/ ForeignRemove(n, a)
           \/ \E p \in Policies : SetPolicy(p)
Spec == Init /\ [][Next]_vars

\* properties of the specification itself
TypeOK == /\ reg \subseteq Nodes
          /\ \A n \in Nodes : held[n] \subseteq AllocIds \cup ForeignIds
          /\ \A n \in Nodes \ reg : held[n] = {} /\ ~resv[n]
NeverOverCommitted == \A n \in reg : \A t \in Types(n) : UsedOf(held, n, t) <= Cap[n][t]
UsageIsFraction == \A n \in reg : LET u == Usage(held, n) IN u[1] >= 0 /\ u[2] > 0 /\ u[1] <= u[2]

\* test emission: complete behaviours only (every prefix is checked by the replay as well)
Emit == Len(hist) = MaxOps => PrintT(<<"CASE", ToJson(hist)>>)
=============================================================================
