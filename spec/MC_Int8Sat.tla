----------------------------- MODULE MC_Int8Sat -----------------------------
(* TLC, exhaustive, word width 8: the same obligations as MC_Int64Sat.tla on all 65 536 pairs of int8.   *)
(* A design-level sanity check of the transcription (TLC integers are 32 bit, so width 64 is left to     *)
(* Apalache).  Every refuted instance prints <<"REFUTED", obligation, a, b, coded, want>>; the run never *)
(* stops at a refutation, the pipeline counts the lines.                                                 *)
EXTENDS Integers, TLC, Int64Sat

VARIABLES a, b
M8 == 128
Init == a \in -M8..(M8 - 1) /\ b \in -M8..(M8 - 1)
Next == UNCHANGED <<a, b>>

Chk(name, coded, want) == coded = want \/ PrintT(<<"REFUTED", name, a, b, coded, want>>)

Obligations ==
    /\ Chk("AddOK", AddCoded(M8, a, b), AddWant(M8, a, b))
    /\ Chk("SubOK", SubCoded(M8, a, b), SubWant(M8, a, b))
    /\ Chk("SubOKExceptMin", IF b # -M8 THEN SubCodedOld(M8, a, b) ELSE SubWant(M8, a, b), SubWant(M8, a, b))
    /\ (b = -M8 /\ SubCodedOld(M8, a, b) = SubWant(M8, a, b) => PrintT(<<"REFUTED", "SubMinAlwaysWrong", a, b, 0, 0>>))
    /\ Chk("SubRepairedOK", SubRepaired(M8, a, b), SubWant(M8, a, b))
    /\ Chk("MulOK", MulCoded(M8, a, b), MulWant(M8, a, b))
=============================================================================
