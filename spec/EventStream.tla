----------------------------- MODULE EventStream -----------------------------
(* C20, part 3: the subscription protocol of pkg/events/event_streaming.go + event_system.go as the code  *)
(* DESIGNS it, and the property it has to meet.                                                            *)
(*                                                                                                         *)
(* Publisher (the event system goroutine), per event, two separately locked steps:                         *)
(*     RingAdd  : eventBuffer.Add(e)                                                                       *)
(*     Publish  : streaming.PublishEvent(e) - append e to the "local" channel of every registered consumer *)
(* Subscriber, CreateEventStream(name, count):                                                             *)
(*     Register    : createEventStreamInternal - the consumer is in eventStreams from here on              *)
(*     ReadHistory : buffer.GetRecentEvents(count); the forwarder goroutine first delivers that history    *)
(*                   and remembers it in `seen`                                                            *)
(*     Forward     : take the head of local; skip it when it is in `seen`; otherwise RESET seen and deliver*)
(*     Close       : RemoveEventStream - consumer leaves eventStreams, stop and local are closed           *)
(*     Stop        : the forwarder notices stop and closes the consumer channel (it may forward any part   *)
(*                   of what is still in local before; select picks at random)                             *)
(* Abstractions: events are their ids; the nil records the forwarder can emit between Close and Stop (a     *)
(* closed local channel yields nil) are not modelled (the harness drops them and counts them); the removal *)
(* of a slow consumer (local holds 1000 events) is not modelled; the ring never wraps here (RingCap >=     *)
(* NEvents) - wrapped histories are covered by EventRing.                                                  *)
EXTENDS Integers, Sequences, FiniteSets

CONSTANTS NEvents,       \* number of events published
          Subs,          \* subscribers: 1..n
          CountChoices,  \* history counts a subscriber may ask for; Unlimited = no limit
          RingCap,       \* capacity of the history
          AllowClose,    \* whether subscribers may close
          EagerForward   \* TRUE: while a running forwarder has something to forward, only Forward steps are taken. Forward
                         \* commutes with every other step (FIFO local channel, it touches nothing else) and is never disabled
                         \* by one, so the reduction preserves every terminal outcome (only without Close, see the
                         \* assumption below); FALSE explores all interleavings

Unlimited == -1

(* Close does not commute with Forward (a close truncates what is still to be forwarded), so the reduction is for models without Close *)
ASSUME ~(EagerForward /\ AllowClose)

VARIABLES added,      \* events recorded in the history: ids 0..added-1
          published,  \* events handed to the consumers: ids 0..published-1; published <= added <= published+1
          pc,         \* subscriber state: init, registered, running, closing, closed
          cnt,        \* requested history count
          local,      \* the consumer's local channel
          seen,       \* the forwarder's duplicate filter
          recv,       \* what the consumer channel has delivered
          kmin,       \* events completely processed (published) when the subscriber registered
          kmax,       \* events recorded when the subscriber read the history
          cpub,       \* events published when the subscriber closed
          sched       \* history variable: the steps a conformance harness can steer

vars == <<added, published, pc, cnt, local, seen, recv, kmin, kmax, cpub, sched>>

Min(a, b) == IF a < b THEN a ELSE b
Max(a, b) == IF a > b THEN a ELSE b
Range(a, b) == [i \in 1..(b - a + 1) |-> a + i - 1]
SeqSet(s) == {s[i] : i \in 1..Len(s)}

(* the most recent min(count, held) events when k events have been recorded (EventRing!Recent) *)
HistoryAt(k, c) == LET lowest == Max(0, k - RingCap)
                       from == IF c = Unlimited THEN lowest ELSE Max(lowest, k - c)
                   IN Range(from, k - 1)

Init == /\ added = 0 /\ published = 0
        /\ pc = [s \in Subs |-> "init"]
        /\ cnt = [s \in Subs |-> 0]
        /\ local = [s \in Subs |-> <<>>]
        /\ seen = [s \in Subs |-> {}]
        /\ recv = [s \in Subs |-> <<>>]
        /\ kmin = [s \in Subs |-> 0]
        /\ kmax = [s \in Subs |-> 0]
        /\ cpub = [s \in Subs |-> 0]
        /\ sched = <<>>

RingAdd == /\ added < NEvents /\ added = published
           /\ added' = added + 1
           /\ sched' = Append(sched, <<"add", added>>)
           /\ UNCHANGED <<published, pc, cnt, local, seen, recv, kmin, kmax, cpub>>

Publish == /\ published < added
           /\ published' = published + 1
           /\ local' = [s \in Subs |-> IF pc[s] \in {"registered", "running"} THEN Append(local[s], published) ELSE local[s]]
           /\ sched' = Append(sched, <<"pub", published>>)
           /\ UNCHANGED <<added, pc, cnt, seen, recv, kmin, kmax, cpub>>

(* subscribers register in a fixed order: the mirrored schedules add nothing *)
MayRegister(s) == \A t \in Subs : t < s => pc[t] # "init"

Register(s, c) == /\ pc[s] = "init" /\ MayRegister(s)
                  /\ pc' = [pc EXCEPT ![s] = "registered"]
                  /\ cnt' = [cnt EXCEPT ![s] = c]
                  /\ kmin' = [kmin EXCEPT ![s] = published]
                  /\ sched' = Append(sched, <<"reg", s, c>>)
                  /\ UNCHANGED <<added, published, local, seen, recv, kmax, cpub>>

ReadHistory(s) == /\ pc[s] = "registered"
                  /\ LET h == HistoryAt(added, cnt[s]) IN
                       /\ recv' = [recv EXCEPT ![s] = h]
                       /\ seen' = [seen EXCEPT ![s] = SeqSet(h)]
                  /\ kmax' = [kmax EXCEPT ![s] = added]
                  /\ pc' = [pc EXCEPT ![s] = "running"]
                  /\ sched' = Append(sched, <<"read", s>>)
                  /\ UNCHANGED <<added, published, cnt, local, kmin, cpub>>

Forward(s) == /\ pc[s] \in {"running", "closing"} /\ local[s] # <<>>
              /\ LET e == Head(local[s]) IN
                   IF e \in seen[s]
                   THEN UNCHANGED <<seen, recv>>
                   ELSE /\ seen' = [seen EXCEPT ![s] = {}]
                        /\ recv' = [recv EXCEPT ![s] = Append(recv[s], e)]
              /\ local' = [local EXCEPT ![s] = Tail(local[s])]
              /\ UNCHANGED <<added, published, pc, cnt, kmin, kmax, cpub, sched>>

Close(s) == /\ AllowClose /\ pc[s] = "running"
            /\ pc' = [pc EXCEPT ![s] = "closing"]
            /\ cpub' = [cpub EXCEPT ![s] = published]
            /\ sched' = Append(sched, <<"close", s>>)
            /\ UNCHANGED <<added, published, cnt, local, seen, recv, kmin, kmax>>

Stop(s) == /\ pc[s] = "closing"
           /\ pc' = [pc EXCEPT ![s] = "closed"]
           /\ local' = [local EXCEPT ![s] = <<>>]
           /\ UNCHANGED <<added, published, cnt, seen, recv, kmin, kmax, cpub, sched>>

ForwardPending == \E s \in Subs : pc[s] = "running" /\ local[s] # <<>>

Next == \/ \E s \in Subs : Forward(s)
        \/ /\ ~(EagerForward /\ ForwardPending)
           /\ \/ RingAdd \/ Publish
              \/ \E s \in Subs : \/ \E c \in CountChoices : Register(s, c)
                                 \/ ReadHistory(s) \/ Close(s) \/ Stop(s)

Spec == Init /\ [][Next]_vars

---------------------------------------------------------------------------
(* The property. Recording an event spans RingAdd..Publish, creating a subscription spans Register..       *)
(* ReadHistory; whatever overlaps may be ordered either way. So the subscription takes effect at some cut  *)
(* k with kmin <= k <= kmax: the consumer gets the requested history as of k events, then events k, k+1, ..*)
(* once and in order - all of them while it is open, a prefix (not beyond what was published at Close)     *)
(* when it was closed.                                                                                     *)
Quiescent(s) == (pc[s] = "running" /\ local[s] = <<>>) \/ pc[s] = "closed"
Terminal == published = NEvents /\ \A s \in Subs : Quiescent(s)

WantOpen(s) == {HistoryAt(k, cnt[s]) \o Range(k, published - 1) : k \in kmin[s]..kmax[s]}
WantClosed(s) == UNION {{HistoryAt(k, cnt[s]) \o Range(k, j - 1) : j \in k..Max(k, cpub[s])} : k \in kmin[s]..kmax[s]}
Want(s) == IF pc[s] = "closed" THEN WantClosed(s) ELSE WantOpen(s)

SubOK(s) == recv[s] \in Want(s)
StreamOK == Terminal => \A s \in Subs : SubOK(s)

(* safety while running: nothing is ever delivered twice or out of order *)
Ordered(s) == \A i \in 1..(Len(recv[s]) - 1) : recv[s][i] < recv[s][i + 1]
NoDupNoReorder == \A s \in Subs : Ordered(s)

TypeOK == /\ published <= added /\ added <= published + 1 /\ added <= NEvents
          /\ \A s \in Subs : SeqSet(local[s]) \subseteq 0..(NEvents - 1)
=============================================================================
