---------------------------- MODULE MC_EventStream ----------------------------
EXTENDS EventStream, TLC, Json
(* one line per terminal state: the steered schedule, what the design delivers, what the property admits *)
SubOut(s) == [count |-> cnt[s], closed |-> pc[s] = "closed", model |-> recv[s], want |-> Want(s), ok |-> SubOK(s),
              kmin |-> kmin[s], kmax |-> kmax[s]]
EmitSched == ~Terminal \/ PrintT(<<"SCHED", ToJson([sched |-> sched, subs |-> [s \in Subs |-> SubOut(s)]])>>)
MCCountsAll == {0, 1, 2, Unlimited}
MCCountsFew == {1, Unlimited}
=============================================================================
