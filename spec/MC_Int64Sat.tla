---------------------------- MODULE MC_Int64Sat ----------------------------
(* Apalache obligations for property C18, word width 64, ALL inputs (a, b range over the whole int64).   *)
(*   apalache-mc check --length=0 --init=Init --next=Next --inv=<Obligation> MC_Int64Sat.tla             *)
(* Each invariant is one obligation about the transcription in Int64Sat.tla.  Expected on the pinned     *)
(* tree: AddOK, SubOKExceptMin, SubMinAlwaysWrong, SubRepairedOK (and MulOK if the solver decides the     *)
(* non-linear query) hold; SubOK holds since the repair; before it SubOK was REFUTED (subVal(a, MinInt64) wrapped): SubOKExceptMin / SubMinAlwaysWrong speak about that old code.                 *)
EXTENDS Integers, Int64Sat

VARIABLES
    \* @type: Int;
    a,
    \* @type: Int;
    b

M64 == 9223372036854775808        \* 2^63

Init == /\ a \in Int /\ b \in Int
        /\ -M64 <= a /\ a <= M64 - 1
        /\ -M64 <= b /\ b <= M64 - 1
Next == UNCHANGED <<a, b>>

AddOK == AddCoded(M64, a, b) = AddWant(M64, a, b)
SubOK == SubCoded(M64, a, b) = SubWant(M64, a, b)
SubOKExceptMin == b # -M64 => SubCodedOld(M64, a, b) = SubWant(M64, a, b)
SubMinAlwaysWrong == b = -M64 => SubCodedOld(M64, a, b) # SubWant(M64, a, b)
SubRepairedOK == SubRepaired(M64, a, b) = SubWant(M64, a, b)
MulOK == MulCoded(M64, a, b) = MulWant(M64, a, b)
\* the multiplication restricted to one small factor (linear for the solver after case split)
MulSmallOK == b \in -4..4 => MulCoded(M64, a, b) = MulWant(M64, a, b)
=============================================================================
