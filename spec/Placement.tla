------------------------------ MODULE Placement ------------------------------
(* C17 - placement puts applications only where rules and ACLs allow.                                          *)
(*                                                                                                            *)
(* The DOCUMENTED meaning of the placement rule chain of yunikorn-core as one deterministic function          *)
(*      Place(rules, tree, app)  =  [rejected |-> FALSE, queue |-> path, ...]  |  [rejected |-> TRUE, ...]    *)
(* Sources: the doc comments of pkg/scheduler/placement/{placement,rule,provided_rule,user_rule,tag_rule,     *)
(* fixed_rule,recovery_rule,filter}.go, pkg/common/security/acl.go, objects.Queue.CheckSubmitAccess,          *)
(* PartitionContext.AddApplication / createQueue, and the outcomes asserted by the unit tests next to them     *)
(* (TestManagerPlaceApp, TestForcePlaceApp, TestManagerPlaceApp_Error, Test*RulePlace, Test*RuleParent).      *)
(*                                                                                                            *)
(* Abstract values                                                                                            *)
(*  - a NAME is a sequence of tokens, the text between the dots: "root.p.x" = <<"root","p","x">>, "" = <<>>.  *)
(*    A user name is a name too ("dot.ted" = <<"dot","ted">>).  Queue paths are names of lower-case tokens.    *)
(*  - tree : set of queue records [path, leaf, draining, managed, submit, admin, tmpl]; submit / admin are     *)
(*    ACLs [all : BOOLEAN, users, groups : sets]; tmpl identifies the child template configured ON a parent   *)
(*    queue (0 = none).  The root <<"root">> is always in the tree, and the tree is prefix closed.             *)
(*  - rule : [name \in {"provided","user","tag","fixed"}, value : name (tag: <<tag name>>, fixed: the queue),  *)
(*    create : BOOLEAN, filter : [type \in {"none","allow","deny"}, users, groups], parent : <<>> | <<rule>>]   *)
(*  - app  : [user : the user name as text, uparts : the same as a name, groups : set, queue : name requested  *)
(*    on submission, tags : [tag name -> name] (<<>> = tag absent), forced : BOOLEAN]                           *)
(*                                                                                                            *)
(* Deliberately NOT specified (no documented meaning; generators must not produce them):                      *)
(*  - a `fixed` value or a parent result that starts with "root" without being "root.<...>" (C15 owns it);    *)
(*  - an unqualified `fixed` value that contains dots (doc comment says the dots are replaced, the unit test   *)
(*    TestFixedRulePlace expects them to be kept);                                                            *)
(*  - filters whose single entry is a regular expression are specified through the set of users / groups the   *)
(*    expression matches (the model declares that set, see MC_Placement);                                      *)
(*  - whether the recovery queue inherits the root's child template; creation below a DRAINING parent;         *)
(*  - empty name parts ("root..a"), names longer than 64 characters, the part "@recovery@" anywhere but       *)
(*    directly below the root (the queues above it would be created before the creation fails).               *)
EXTENDS Integers, Sequences, FiniteSets

CONSTANTS
  UpperMap,       \* [token with upper-case letters -> the same token in lower case]: queue names are case-insensitive
  InvalidParts    \* tokens that are not valid queue name parts (valid: 1..64 characters of [a-zA-Z0-9_:#/@-])

NoRule == <<>>                                \* the value of the field `parent` of a rule without parent rule
Root         == <<"root">>
RecoveryPart == "@recovery@"                  \* common.RecoveryQueue
RecoveryPath == <<"root", RecoveryPart>>      \* common.RecoveryQueueFull
DefaultPath  == <<"root", "default">>         \* common.DefaultPlacementQueue
DotReplace   == "_dot_"                       \* configs.DotReplace

-----------------------------------------------------------------------------
(* names *)
Lower(t)     == IF t \in DOMAIN UpperMap THEN UpperMap[t] ELSE t
LowerName(n) == [i \in 1..Len(n) |-> Lower(n[i])]
Front(n)     == SubSeq(n, 1, Len(n) - 1)

\* "fully qualified, starts with root." (provided / tag / fixed rule doc comments); the test is case sensitive
Qualified(n) == Len(n) >= 2 /\ n[1] = "root"
ValidName(n) == \A i \in 1..Len(n) : n[i] \notin InvalidParts

\* "If the queue is not qualified all "." characters will be replaced": one token
RECURSIVE Flat(_)
Flat(n) == IF Len(n) = 1 THEN n[1] ELSE n[1] \o DotReplace \o Flat(Tail(n))

-----------------------------------------------------------------------------
(* the queue tree *)
Exists(tree, p) == \E q \in tree : q.path = p
Queue(tree, p)  == CHOOSE q \in tree : q.path = p

\* the queue itself or else its first existing ancestor ("walk up the tree if the queue does not exist")
RECURSIVE Anchor(_, _)
Anchor(tree, p) == IF Exists(tree, p) \/ Len(p) <= 1 THEN p ELSE Anchor(tree, Front(p))

\* the child template in force at parent queue p: its own, else the one it inherited from its parent
RECURSIVE Template(_, _)
Template(tree, p) == LET q == Queue(tree, p)
                     IN IF q.tmpl # 0 \/ Len(p) <= 1 THEN q.tmpl ELSE Template(tree, Front(p))

(* ACLs (security.ACL.CheckAccess): wildcard, or the user is listed, or one of the user's groups is listed *)
AclAdmits(acl, app) == acl.all \/ app.user \in acl.users \/ (app.groups \cap acl.groups) # {}

\* Queue.CheckSubmitAccess: submit OR admin ACL of the queue or of any ancestor; the recovery queue never passes
RECURSIVE MaySubmit(_, _, _)
MaySubmit(tree, p, app) ==
  /\ p # RecoveryPath
  /\ LET q == Queue(tree, p)
     IN \/ AclAdmits(q.submit, app)
        \/ AclAdmits(q.admin, app)
        \/ (Len(p) > 1 /\ MaySubmit(tree, Front(p), app))

-----------------------------------------------------------------------------
(* filters (filter.go allowUser): an empty filter returns its type; otherwise "allow" admits exactly the listed *)
(* users and members of listed groups, "deny" admits exactly the others                                        *)
FilterAdmits(f, app) ==
  IF f.type = "none" THEN TRUE
  ELSE IF f.users = {} /\ f.groups = {} THEN f.type = "allow"
  ELSE LET hit == app.user \in f.users \/ (app.groups \cap f.groups) # {}
       IN IF f.type = "allow" THEN hit ELSE ~hit

-----------------------------------------------------------------------------
(* one rule (rule.go): "Returns the fully qualified queue name if the rule finds a queue or an empty string if  *)
(* the rule did not match. The error must only be set if there is a failure while executing the rule"           *)
NoMatch     == [kind |-> "none"]
Failed(why) == [kind |-> "fail", why |-> why]
Found(p)    == [kind |-> "queue", path |-> p]

\* the name a rule works with; <<>> = nothing to work with, the rule does not match
Subject(r, app) == CASE r.name = "provided" -> app.queue
                     [] r.name = "user"     -> app.uparts
                     [] r.name = "tag"      -> IF r.value[1] \in DOMAIN app.tags THEN app.tags[r.value[1]] ELSE <<>>
                     [] r.name = "fixed"    -> r.value

RECURSIVE Eval(_, _, _)
Eval(r, tree, app) ==
  LET n         == Subject(r, app)
      \* "if we cannot create the queue must exist"
      Finish(p) == IF r.create \/ Exists(tree, p) THEN Found(p) ELSE NoMatch
  IN
  IF n = <<>> THEN NoMatch
  ELSE IF ~FilterAdmits(r.filter, app) THEN NoMatch
  ELSE IF r.name # "user" /\ Qualified(n)
       THEN \* "fully qualified ... the parent rule is skipped and the queue is created as provided"
            IF ValidName(n) THEN Finish(LowerName(n)) ELSE Failed("invalid queue name")
  ELSE IF ~ValidName(n) THEN Failed("invalid queue name")
  ELSE LET child == IF r.name = "fixed" THEN Lower(n[1]) ELSE Flat(LowerName(n))
       IN IF r.parent = NoRule THEN Finish(Root \o <<child>>)
          ELSE LET pr == Eval(r.parent[1], tree, app)
               IN IF pr.kind # "queue" THEN pr       \* no match / failure of the parent rule is the rule's result
                  ELSE IF Exists(tree, pr.path) /\ Queue(tree, pr.path).leaf
                       THEN Failed("parent rule returned a leaf queue")
                  ELSE Finish(pr.path \o <<child>>)

-----------------------------------------------------------------------------
(* the chain (AppPlacementManager.PlaceApplication + PartitionContext.AddApplication)                          *)
Rejected(why) == [rejected |-> TRUE, why |-> why, queue |-> <<>>, created |-> FALSE, tmpl |-> 0, rule |-> 0]
Accepted(p, created, tmpl, i) ==
                 [rejected |-> FALSE, why |-> "", queue |-> p, created |-> created, tmpl |-> tmpl, rule |-> i]

\* "empty list should result in a single provided rule" (buildRules)
Effective(rules) == IF rules = <<>>
                    THEN <<[name |-> "provided", value |-> <<>>, create |-> FALSE,
                            filter |-> [type |-> "none", users |-> {}, groups |-> {}], parent |-> NoRule]>>
                    ELSE rules

RECURSIVE Try(_, _, _, _)
Try(i, rules, tree, app) ==
  LET n    == Len(rules)
      \* after the configured rules: the implicit recovery rule ("only forced applications should resolve to the
      \* recovery queue"), and "if no queue found even after the last rule, try to place in the default queue"
      res  == IF i <= n THEN Eval(rules[i], tree, app)
              ELSE IF app.forced THEN Found(RecoveryPath)
              ELSE IF Exists(tree, DefaultPath) THEN Found(DefaultPath)
              ELSE NoMatch
      next == IF i <= n THEN Try(i + 1, rules, tree, app) ELSE Rejected("no placement rule matched")
  IN
  CASE res.kind = "fail" -> Rejected(res.why)            \* "rule execution failed": the application is rejected
    [] res.kind = "none" -> next
    [] OTHER ->
       LET p == res.path IN
       IF p = RecoveryPath
       THEN \* "Recovery queue cannot be returned by other rules" / only used for forced applications, no checks
            IF app.forced THEN Accepted(p, ~Exists(tree, p), -1, i) ELSE next
       ELSE IF Exists(tree, p)
       THEN LET q == Queue(tree, p)
            IN IF q.leaf /\ ~q.draining /\ MaySubmit(tree, p, app) THEN Accepted(p, FALSE, 0, i) ELSE next
       ELSE LET a == Anchor(tree, Front(p))
            IN IF ~MaySubmit(tree, a, app) THEN next
               \* createQueue: "creation of queue failed parent is already a leaf"
               ELSE IF Queue(tree, a).leaf THEN Rejected("parent of the queue to create is a leaf")
               \* NewDynamicQueue: "dynamic queue cannot be root.@recovery@" (here: a queue below the missing recovery queue)
               ELSE IF \E j \in 1..Len(p) : p[j] = RecoveryPart THEN Rejected("the recovery queue cannot be created by a rule")
               ELSE Accepted(p, TRUE, Template(tree, a), i)

Place(rules, tree, app) == Try(1, Effective(rules), tree, app)

-----------------------------------------------------------------------------
(* C17 as a theorem about Place (checked by TLC on every enumerated case, see MC_Placement!Sane):                *)
C17(rules, tree, app) ==
  LET w == Place(rules, tree, app) IN
  \/ w.rejected /\ w.why # ""
  \/ /\ ~w.rejected
     /\ (w.queue = RecoveryPath) => app.forced
     /\ (w.queue # RecoveryPath /\ ~w.created) =>
            /\ Exists(tree, w.queue) /\ Queue(tree, w.queue).leaf /\ ~Queue(tree, w.queue).draining
            /\ MaySubmit(tree, w.queue, app)
     /\ (w.queue # RecoveryPath /\ w.created) =>
            /\ ~Exists(tree, w.queue) /\ ValidName(w.queue)
            /\ ~Queue(tree, Anchor(tree, w.queue)).leaf
            /\ MaySubmit(tree, Anchor(tree, w.queue), app)
            /\ w.rule \in 1..Len(Effective(rules)) /\ Effective(rules)[w.rule].create
=============================================================================
