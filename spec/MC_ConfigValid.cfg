\* template: the pipeline writes one cfg per family and shard
CONSTANTS
  Fam = "F4"
  Mod = 1
  Seed = 1
  Shards = 1
  Shard = 0
INIT Init
NEXT Next
INVARIANT Emit
CHECK_DEADLOCK FALSE
