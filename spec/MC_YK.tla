------------------------------- MODULE MC_YK -------------------------------
(* Bounded instances of YuniKorn.tla. *)
EXTENDS YuniKorn
MCLeaves == {"root.a", "root.p.x"}
MCQMax == [q \in MCLeaves |-> IF q = "root.a" THEN 3 ELSE 0]
MCAppLeaf == [a \in Apps |-> IF a = "app0" THEN "root.a" ELSE "root.p.x"]
\* the state space is bounded by the length of the environment history that is recorded
Bound == Len(hist) < MaxHist
=============================================================================
