------------------------------- MODULE MC_YK -------------------------------
(* Bounded instances of YuniKorn.tla. *)
EXTENDS YuniKorn
MCLeaves == {"root.a", "root.p.x"}
MCQMax == [q \in MCLeaves |-> IF q = "root.a" THEN 3 ELSE 0]
MCAppLeaf == [a \in Apps |-> IF a = "app0" THEN "root.a" ELSE "root.p.x"]
MCGuar == [q \in MCLeaves |-> 0]
\* the preemption layout: root.p.x (guaranteed 2) asks, root.p.z (no guarantee) holds the victims
MCLeavesPre == {"root.p.x", "root.p.z"}
MCQMaxPre == [q \in MCLeavesPre |-> 0]
MCGuarPre == [q \in MCLeavesPre |-> IF q = "root.p.x" THEN 2 ELSE 0]
MCAppLeafPre == [a \in Apps |-> IF a = "app0" THEN "root.p.z" ELSE "root.p.x"]
\* the state space is bounded by the length of the environment history that is recorded
Bound == Len(hist) < MaxHist
=============================================================================
