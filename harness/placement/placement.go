// Package placement replays the C17 cases enumerated by TLC (spec/MC_Placement.tla: rule chain, ACL layout,
// application, and the outcome demanded by spec/Placement.tla) against a REAL ClusterContext and reports every
// disagreement.
//
// Input lines (TLC output, or bare JSON objects as stored in replay files):
//
//	<<"LAYOUT", "{\"id\":1,\"tree\":[{\"path\":[\"root\"],\"leaf\":false,\"draining\":false,\"submit\":{..},\"admin\":{..},\"tmpl\":5},..]}">>
//	<<"CASE", "{\"fam\":..,\"n\":..,\"rules\":[..],\"layout\":1,\"app\":{..},\"want\":{\"rejected\":..,\"queue\":[..],\"created\":..,\"tmpl\":..,\"rule\":..,\"why\":..}}">>
//
// A bare case may carry its layout inline ("tree": [...]).  For every configuration (rule chain + layout) one core is
// built from the rendered YAML configuration (drive.NewWorld); the draining leaf is produced the way a deployment gets
// one: by a configuration reload that no longer lists the queue.  Every case submits a fresh application through the
// SI entry point (ClusterContext.handleRMUpdateApplicationEvent) and observes the accepted / rejected message, the
// queue the application sits in, the queues that appeared, and the limits a created queue took from the child template.
// The expected values come from the specification only; this package converts representations and compares.
package placement

import (
	"bufio"
	"encoding/json"
	"fmt"
	"io"
	"runtime/debug"
	"sort"
	"strings"

	"github.com/apache/yunikorn-core/pkg/common/resources"
	"github.com/apache/yunikorn-core/pkg/scheduler/objects"

	"verif/harness/drive"
)

type ACL struct {
	All    bool     `json:"all"`
	Users  []string `json:"users"`
	Groups []string `json:"groups"`
}

type QueueRec struct {
	Path     []string `json:"path"`
	Leaf     bool     `json:"leaf"`
	Draining bool     `json:"draining"`
	Managed  bool     `json:"managed"`
	Submit   ACL      `json:"submit"`
	Admin    ACL      `json:"admin"`
	Tmpl     int      `json:"tmpl"`
}

type Filter struct {
	Type   string   `json:"type"`
	Users  []string `json:"users"`
	Groups []string `json:"groups"`
	Rx     string   `json:"rx"`
}

type Rule struct {
	Name   string   `json:"name"`
	Value  []string `json:"value"`
	Create bool     `json:"create"`
	Filter Filter   `json:"filter"`
	Parent []Rule   `json:"parent"`
}

type App struct {
	User   string              `json:"user"`
	UParts []string            `json:"uparts"`
	Groups []string            `json:"groups"`
	Queue  []string            `json:"queue"`
	Tags   map[string][]string `json:"tags"`
	Forced bool                `json:"forced"`
}

type Want struct {
	Rejected bool     `json:"rejected"`
	Why      string   `json:"why"`
	Queue    []string `json:"queue"`
	Created  bool     `json:"created"`
	Tmpl     int      `json:"tmpl"`
	Rule     int      `json:"rule"`
}

type Case struct {
	Fam    string     `json:"fam"`
	N      int        `json:"n"`
	Rules  []Rule     `json:"rules"`
	Layout int        `json:"layout"`
	Tree   []QueueRec `json:"tree,omitempty"`
	App    App        `json:"app"`
	Want   Want       `json:"want"`
}

// Got is what the real core did with one application.
type Got struct {
	Accepted  bool     `json:"accepted"`
	Rejected  bool     `json:"rejected"`
	Reason    string   `json:"reason"`
	Queue     string   `json:"queue"`
	Created   []string `json:"created"`
	LeafOK    bool     `json:"leafOK"`
	Managed   bool     `json:"managed"`
	MaxApps   uint64   `json:"maxApps"`
	Max       string   `json:"max"`
	Guar      string   `json:"guaranteed"`
	Panic     string   `json:"panic,omitempty"`
	Stack     string   `json:"stack,omitempty"`
	Recovery  bool     `json:"recoveryQueueUsed"`
	WasActive bool     `json:"wasActive"`
}

type Mismatch struct {
	Kind   string          `json:"kind"`
	Detail string          `json:"detail"`
	Want   Want            `json:"want"`
	Got    Got             `json:"got"`
	Config string          `json:"config"`
	Case   json.RawMessage `json:"case"`
}

type Summary struct {
	Cases           int            `json:"cases"`
	Configs         int            `json:"configs"`
	Worlds          int            `json:"worlds"`
	ConfigsRejected int            `json:"configsRejected"`
	CasesSkipped    int            `json:"casesSkipped"`
	RejectedConfigs []string       `json:"rejectedConfigSamples"`
	Accepted        int            `json:"accepted"`
	Rejected        int            `json:"rejected"`
	Created         int            `json:"created"`
	LaterRule       int            `json:"laterRule"`
	Recovery        int            `json:"recovery"`
	DefaultQueue    int            `json:"defaultQueue"`
	TemplateChecked int            `json:"templateChecked"`
	Panics          int            `json:"panics"`
	Mismatches      int            `json:"mismatches"`
	ByWhy           map[string]int `json:"byWhy"`
	ByFam           map[string]int `json:"byFam"`
	NonTrivial      int            `json:"nonTrivial"`
	Samples         []string       `json:"samples"`
}

type group struct {
	key   string
	rules []Rule
	tree  []QueueRec
	cases []int
}

type Runner struct {
	Out     io.Writer
	Log     io.Writer
	Sum     Summary
	layouts map[int][]QueueRec
	cases   []Case
	raws    []string
	groups  map[string]*group
	order   []string
	Shard   int
	Shards  int
	appSeq  int
}

func NewRunner(out io.Writer) *Runner {
	return &Runner{Out: out, layouts: map[int][]QueueRec{}, groups: map[string]*group{}, Shards: 1,
		Sum: Summary{ByWhy: map[string]int{}, ByFam: map[string]int{}}}
}

func unquote(line, tag string) (string, bool, error) {
	pre := `<<"` + tag + `", `
	if strings.HasPrefix(line, pre) && strings.HasSuffix(line, `>>`) {
		var raw string
		if err := json.Unmarshal([]byte(strings.TrimSuffix(strings.TrimPrefix(line, pre), `>>`)), &raw); err != nil {
			return "", true, fmt.Errorf("bad %s line: %v: %.200s", tag, err, line)
		}
		return raw, true, nil
	}
	return "", false, nil
}

// Read collects layouts and cases (grouped by configuration, in order of first appearance).
func (rn *Runner) Read(in io.Reader) error {
	sc := bufio.NewScanner(in)
	sc.Buffer(make([]byte, 1<<20), 1<<26)
	for sc.Scan() {
		line := sc.Text()
		if raw, ok, err := unquote(line, "LAYOUT"); ok {
			if err != nil {
				return err
			}
			var l struct {
				ID   int        `json:"id"`
				Tree []QueueRec `json:"tree"`
			}
			if err := json.Unmarshal([]byte(raw), &l); err != nil {
				return fmt.Errorf("bad layout: %v", err)
			}
			rn.layouts[l.ID] = l.Tree
			continue
		}
		raw, ok, err := unquote(line, "CASE")
		if err != nil {
			return err
		}
		if !ok {
			if strings.HasPrefix(line, "{") {
				raw = line
			} else {
				if rn.Log != nil && line != "" {
					fmt.Fprintln(rn.Log, line)
				}
				continue
			}
		}
		var c Case
		if err := json.Unmarshal([]byte(raw), &c); err != nil {
			return fmt.Errorf("bad case: %v: %.300s", err, raw)
		}
		if c.Tree == nil {
			t, ok := rn.layouts[c.Layout]
			if !ok {
				return fmt.Errorf("case refers to unknown layout %d", c.Layout)
			}
			c.Tree = t
		}
		rb, _ := json.Marshal(c.Rules)
		tb, _ := json.Marshal(c.Tree)
		key := string(rb) + "|" + string(tb)
		if rn.Shards > 1 && int(fnv(key)%uint32(rn.Shards)) != rn.Shard {
			continue
		}
		g, ok := rn.groups[key]
		if !ok {
			g = &group{key: key, rules: c.Rules, tree: c.Tree}
			rn.groups[key] = g
			rn.order = append(rn.order, key)
		}
		g.cases = append(g.cases, len(rn.cases))
		rn.cases = append(rn.cases, c)
		rn.raws = append(rn.raws, raw)
	}
	return sc.Err()
}

func fnv(s string) uint32 {
	h := uint32(2166136261)
	for i := 0; i < len(s); i++ {
		h ^= uint32(s[i])
		h *= 16777619
	}
	return h
}

func dotted(parts []string) string { return strings.Join(parts, ".") }

func aclString(a ACL) string {
	if a.All {
		return "*"
	}
	if len(a.Users) == 0 && len(a.Groups) == 0 {
		return ""
	}
	u := append([]string{}, a.Users...)
	g := append([]string{}, a.Groups...)
	sort.Strings(u)
	sort.Strings(g)
	return strings.Join(u, ",") + " " + strings.Join(g, ",")
}

func ruleConf(r Rule) drive.RuleConf {
	out := drive.RuleConf{Name: r.Name, Create: r.Create, Value: dotted(r.Value)}
	if r.Filter.Type != "none" && r.Filter.Type != "" {
		out.FilterType = r.Filter.Type
		if r.Filter.Rx != "" {
			// a single entry with regular expression characters: the expression (the specification holds the set it matches)
			out.FilterUsers = []string{r.Filter.Rx}
		} else {
			out.FilterUsers = append([]string{}, r.Filter.Users...)
			sort.Strings(out.FilterUsers)
		}
		out.FilterGrps = append([]string{}, r.Filter.Groups...)
		sort.Strings(out.FilterGrps)
	}
	if len(r.Parent) > 0 {
		p := ruleConf(r.Parent[0])
		out.Parent = &p
	}
	return out
}

// template identified by n: maxApplications n, max {memory: 100n}, guaranteed {memory: 10n}
func tmplMax(n int) map[string]int64  { return map[string]int64{"memory": int64(100 * n)} }
func tmplGuar(n int) map[string]int64 { return map[string]int64{"memory": int64(10 * n)} }

// confs renders the configuration the core is started with (every queue of the tree) and, if the tree has draining
// queues, the configuration that is loaded afterwards (the same without them).
func confs(rules []Rule, tree []QueueRec) (*drive.Conf, *drive.Conf) {
	mk := func(withDraining bool) *drive.Conf {
		c := &drive.Conf{Name: "c17", Valid: true}
		for _, q := range tree {
			if q.Draining && !withDraining {
				continue
			}
			qc := drive.QConf{Path: dotted(q.Path), Parent: !q.Leaf, SubmitACL: aclString(q.Submit), AdminACL: aclString(q.Admin)}
			if q.Tmpl != 0 {
				qc.Tmpl, qc.TmplMaxApps, qc.TmplMax, qc.TmplGuar = true, uint64(q.Tmpl), tmplMax(q.Tmpl), tmplGuar(q.Tmpl)
			}
			c.Queues = append(c.Queues, qc)
		}
		for _, r := range rules {
			c.Rules = append(c.Rules, ruleConf(r))
		}
		return c
	}
	first := mk(true)
	for _, q := range tree {
		if q.Draining {
			return first, mk(false)
		}
	}
	return first, nil
}

type world struct {
	w      *drive.World
	before map[string]bool
}

func queueSet(root *objects.Queue) map[string]bool {
	out := map[string]bool{}
	var walk func(q *objects.Queue)
	walk = func(q *objects.Queue) {
		out[q.GetQueuePath()] = true
		for _, c := range q.GetCopyOfChildren() {
			walk(c)
		}
	}
	walk(root)
	return out
}

// build creates the real core for a configuration and checks that it has the shape the case describes.
func build(g *group) (wd *world, cfgErr error, err error) {
	defer func() {
		if r := recover(); r != nil {
			err = fmt.Errorf("panic while building the core: %v | %s", r, trim(string(debug.Stack())))
		}
	}()
	c1, c2 := confs(g.rules, g.tree)
	w, e := drive.NewWorld(c1)
	if e != nil {
		return nil, e, nil
	}
	if c2 != nil {
		c2.Normalize()
		if e := w.CC.UpdateRMSchedulerConfig(drive.RmID, c2.YAML()); e != nil {
			return nil, e, nil
		}
	}
	// the tree of the case must be the tree of the core (harness self-check, never a verdict)
	for _, q := range g.tree {
		rq := w.P.GetQueue(dotted(q.Path))
		if rq == nil {
			return nil, nil, fmt.Errorf("queue %s missing after configuration", dotted(q.Path))
		}
		if rq.IsLeafQueue() != q.Leaf || rq.IsDraining() != q.Draining || rq.IsManaged() != q.Managed {
			return nil, nil, fmt.Errorf("queue %s: leaf/draining/managed = %v/%v/%v, the case says %v/%v/%v", dotted(q.Path),
				rq.IsLeafQueue(), rq.IsDraining(), rq.IsManaged(), q.Leaf, q.Draining, q.Managed)
		}
	}
	qs := queueSet(w.P.VerifRoot())
	if len(qs) != len(g.tree) {
		return nil, nil, fmt.Errorf("core has %d queues, the case %d", len(qs), len(g.tree))
	}
	return &world{w: w, before: qs}, nil, nil
}

func trim(s string) string {
	lines := strings.Split(s, "\n")
	out := []string{}
	for _, l := range lines {
		if strings.Contains(l, "yunikorn-core/pkg") && !strings.Contains(l, "\t") {
			out = append(out, strings.TrimSpace(l))
		}
		if len(out) >= 6 {
			break
		}
	}
	return strings.Join(out, " | ")
}

// submit feeds one application to the real core and observes what happened.
func (wd *world) submit(id string, a App) (got Got) {
	w := wd.w
	defer func() {
		if r := recover(); r != nil {
			got.Panic = fmt.Sprint(r)
			got.Stack = trim(string(debug.Stack()))
		}
	}()
	tags := map[string]string{}
	for k, v := range a.Tags {
		if len(v) > 0 {
			tags[k] = dotted(v)
		}
	}
	// World.Apply "addApp": builds the si.AddApplicationRequest (user, groups, tags, the force-create tag) and hands it to
	// ClusterContext.handleRMUpdateApplicationEvent; panics of the core are caught and reported in the line
	w.H.Drain()
	line := w.Apply(drive.M{"op": "addApp", "app": id, "queue": dotted(a.Queue), "user": a.User, "groups": append([]string{}, a.Groups...),
		"tags": tags, "forced": a.Forced})
	if p, _ := line["panic"].(string); p != "" {
		got.Panic = p
		got.Stack, _ = line["stack"].(string)
		return got
	}
	msgs, _ := w.H.Drain()
	for _, m := range msgs {
		if m["app"] != id {
			continue
		}
		switch m["t"] {
		case "appAccepted":
			got.Accepted = true
		case "appRejected":
			got.Rejected = true
			got.Reason = fmt.Sprint(m["reason"])
		}
	}
	after := queueSet(w.P.VerifRoot())
	for q := range after {
		if !wd.before[q] {
			got.Created = append(got.Created, q)
		}
	}
	sort.Strings(got.Created)
	if app := w.P.GetApplication(id); app != nil {
		got.Queue = app.GetQueuePath()
		if q := w.P.GetQueue(got.Queue); q != nil {
			got.LeafOK = q.IsLeafQueue() && q.GetCopyOfApps()[id] != nil
			got.WasActive = !q.IsDraining()
			got.Managed = q.IsManaged()
			got.MaxApps = q.GetMaxApps()
			got.Max = resString(q.GetMaxResource())
			got.Guar = resString(q.GetGuaranteedResource())
		}
	}
	got.Recovery = after["root.@recovery@"]
	return got
}

func resStr(m map[string]int64) string {
	if len(m) == 0 {
		return "none"
	}
	keys := []string{}
	for k := range m {
		keys = append(keys, k)
	}
	sort.Strings(keys)
	out := []string{}
	for _, k := range keys {
		out = append(out, fmt.Sprintf("%s:%d", k, m[k]))
	}
	return strings.Join(out, ",")
}

func resString(r *resources.Resource) string {
	if r == nil {
		return "none"
	}
	return resStr(r.DAOMap())
}

// compare returns "" if the real outcome is the outcome the specification demands.
func compare(c *Case, got Got) (kind, detail string) {
	w := c.Want
	if got.Panic != "" {
		return "panic", got.Panic
	}
	if got.Accepted == got.Rejected {
		return "protocol", fmt.Sprintf("accepted=%v rejected=%v: exactly one answer expected", got.Accepted, got.Rejected)
	}
	if w.Rejected {
		if got.Accepted {
			return "accepted-should-reject", fmt.Sprintf("accepted into %s; the specification rejects: %s", got.Queue, w.Why)
		}
		if strings.TrimSpace(got.Reason) == "" {
			return "no-reason", "rejected without a reason"
		}
		if len(got.Created) > 0 {
			return "created-on-reject", fmt.Sprintf("rejected, but queues appeared: %v", got.Created)
		}
		return "", ""
	}
	wq := dotted(w.Queue)
	if got.Rejected {
		return "rejected-should-accept", fmt.Sprintf("rejected (%s); the specification places it in %s", got.Reason, wq)
	}
	if got.Queue != wq {
		return "wrong-queue", fmt.Sprintf("placed in %s, the specification says %s", got.Queue, wq)
	}
	if !got.LeafOK {
		return "not-in-leaf", fmt.Sprintf("queue %s is not a leaf that lists the application", got.Queue)
	}
	if !got.WasActive {
		return "draining", fmt.Sprintf("queue %s is draining", got.Queue)
	}
	if w.Created {
		// exactly the missing part of the path appears, nothing else
		want := []string{}
		for i := 2; i <= len(w.Queue); i++ {
			p := dotted(w.Queue[:i])
			found := false
			for _, q := range c.Tree {
				if dotted(q.Path) == p {
					found = true
				}
			}
			if !found {
				want = append(want, p)
			}
		}
		if strings.Join(want, ",") != strings.Join(got.Created, ",") {
			return "created-set", fmt.Sprintf("queues created %v, expected %v", got.Created, want)
		}
		if got.Managed {
			return "created-managed", "the created queue is marked managed"
		}
		if w.Tmpl >= 0 {
			wantApps, wantMax, wantGuar := uint64(w.Tmpl), "none", "none"
			if w.Tmpl > 0 {
				wantMax, wantGuar = resStr(tmplMax(w.Tmpl)), resStr(tmplGuar(w.Tmpl))
			}
			if got.MaxApps != wantApps || got.Max != wantMax || got.Guar != wantGuar {
				return "template", fmt.Sprintf("created queue has maxApps=%d max=%s guaranteed=%s; the parent's child template gives maxApps=%d max=%s guaranteed=%s",
					got.MaxApps, got.Max, got.Guar, wantApps, wantMax, wantGuar)
			}
		}
	} else if len(got.Created) > 0 {
		return "created-unexpected", fmt.Sprintf("queues appeared: %v", got.Created)
	}
	return "", ""
}

func (rn *Runner) mismatch(idx int, g *group, kind, detail string, got Got) {
	c := &rn.cases[idx]
	full := *c
	full.Tree = g.tree // replay files must be self-contained
	cb, _ := json.Marshal(full)
	c1, c2 := confs(g.rules, g.tree)
	c1.Normalize()
	cfg := string(c1.YAML())
	if c2 != nil {
		cfg += "\n# then reloaded without the draining queue(s)\n"
	}
	m := Mismatch{Kind: kind, Detail: detail, Want: c.Want, Got: got, Config: cfg, Case: cb}
	b, _ := json.Marshal(m)
	fmt.Fprintln(rn.Out, string(b))
	rn.Sum.Mismatches++
}

// Run replays all cases that were read.
func (rn *Runner) Run() error {
	for _, key := range rn.order {
		g := rn.groups[key]
		rn.Sum.Configs++
		var wd *world
		for _, idx := range g.cases {
			c := &rn.cases[idx]
			if wd == nil {
				var cfgErr, err error
				wd, cfgErr, err = build(g)
				if err != nil {
					return fmt.Errorf("%v (rules %s)", err, key)
				}
				if cfgErr != nil {
					// the configuration is not accepted by the core: its validity is the subject of C15, no placement happens
					rn.Sum.ConfigsRejected++
					rn.Sum.CasesSkipped += len(g.cases)
					if len(rn.Sum.RejectedConfigs) < 5 {
						rb, _ := json.Marshal(g.rules)
						rn.Sum.RejectedConfigs = append(rn.Sum.RejectedConfigs, cfgErr.Error()+" :: "+string(rb))
					}
					break
				}
				rn.Sum.Worlds++
			}
			rn.appSeq++
			id := fmt.Sprintf("app-%d", rn.appSeq)
			got := wd.submit(id, c.App)
			kind, detail := compare(c, got)
			rn.count(c, got)
			if kind != "" {
				rn.mismatch(idx, g, kind, detail, got)
			} else if len(rn.Sum.Samples) < 8 && (rn.Sum.Cases%97 == 1) {
				rn.Sum.Samples = append(rn.Sum.Samples, rn.raws[idx])
			}
			// the next case must see the configured tree again
			if got.Panic != "" || len(got.Created) > 0 || wd.w.P.GetQueue("root.@recovery@") != nil {
				wd = nil
				continue
			}
			if got.Accepted {
				func() {
					defer func() {
						if r := recover(); r != nil {
							wd = nil
						}
					}()
					wd.w.Apply(drive.M{"op": "removeApp", "app": id})
					wd.w.H.Drain()
					if wd.w.P.GetApplication(id) != nil {
						wd = nil
					}
				}()
			}
		}
	}
	return nil
}

func (rn *Runner) count(c *Case, got Got) {
	s := &rn.Sum
	s.Cases++
	s.ByFam[c.Fam]++
	w := c.Want
	if got.Panic != "" {
		s.Panics++
	}
	if w.Rejected {
		s.Rejected++
		s.ByWhy[w.Why]++
	} else {
		s.Accepted++
		wq := dotted(w.Queue)
		if w.Created {
			s.Created++
			if w.Tmpl >= 0 {
				s.TemplateChecked++
			}
		}
		if wq == "root.@recovery@" {
			s.Recovery++
		} else if w.Rule > len(c.Rules) && len(c.Rules) > 0 {
			s.DefaultQueue++
		}
		if w.Rule > 1 && w.Rule <= len(c.Rules) {
			s.LaterRule++
		}
	}
	if len(c.Rules) > 0 && (len(c.App.Queue) > 0 || !w.Rejected) {
		s.NonTrivial++
	}
}
