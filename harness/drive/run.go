package drive

import (
	"bufio"
	"encoding/json"
	"io"
	"sort"
	"time"
)

// Runner writes one NDJSON line per step.
type Runner struct {
	Enc      *json.Encoder
	W        *World
	Steps    int
	Traces   int
	Teardown bool
	// AllowIllegal lets requests through that a well-behaved shim would never send (malformed-request profile)
	AllowIllegal bool
	// shim bookkeeping for teardown / restart
}

func (r *Runner) emit(line M) error {
	r.Steps++
	return r.Enc.Encode(line)
}

// Step applies one operation (reset included) and logs it.
func (r *Runner) Step(op M) error {
	if gs(op, "op") == "reset" {
		var c *Conf
		w0 := &World{}
		c = w0.confFromOp(op)
		w, err := NewWorld(c)
		if err != nil {
			return err
		}
		r.W = w
		r.Traces++
		op["conf"] = c
		op["panic"] = ""
		op["dpanic"] = 0
		op["hang"] = false
		w.AfterStep(op)
		return r.emit(op)
	}
	w := r.W
	if w == nil || w.dead {
		return nil // the core hung earlier in this trace: nothing more can be observed until the next reset
	}
	// a legal shim never updates an allocation it knows to be gone (released by the core, e.g. with its node);
	// such requests belong to the malformed-request profile only
	if !r.AllowIllegal && gs(op, "op") == "updateAsk" {
		if a, ok := w.sAsks[gs(op, "key")]; !ok || a.App != gs(op, "app") {
			op = M{"op": "noop", "skipped": "updateAsk of an allocation the shim no longer owns"}
		}
	}
	// ... and never names a new ask with an allocation key that is still alive for ANOTHER application (keys are unique
	// per pod; a TLC-generated history can ask for it when the model and the core disagree about which asks are left)
	if !r.AllowIllegal && (gs(op, "op") == "addAsk" || gs(op, "op") == "reportBound") {
		if a, ok := w.sAsks[gs(op, "key")]; ok && a.App != gs(op, "app") {
			op = M{"op": "noop", "skipped": "allocation key still in use by another application"}
		}
	}
	w.trackBefore(op)
	done := make(chan M, 1)
	go func() { done <- w.Apply(op) }()
	var line M
	select {
	case line = <-done:
		line["hang"] = false
	case <-time.After(20 * time.Second):
		// the core did not return: a lock is held for ever or a goroutine waits for something that never comes
		w.dead = true
		line = cloneM(op)
		line["panic"], line["hang"], line["dpanic"] = "", true, 0
		line["msgs"], line["pred"] = []M{}, []M{}
		line["state"] = w.lastState
		r.Steps++
		return r.Enc.Encode(line)
	}
	w.AfterStep(line)
	w.trackAfter(line)
	return r.emit(line)
}

// Finish releases everything the shim knows about and removes all applications and nodes; the final line is the
// "endDrain" marker on which the validator requires every ledger to be exactly empty (C03: nothing leaks).
func (r *Runner) Finish() error {
	if r.W == nil || !r.Teardown || r.W.dead {
		return nil
	}
	w := r.W
	step := func(op M) error { return r.Step(op) }
	confirmAll := func() error {
		for n := 0; len(w.PendingRel) > 0 && n < 200; n++ {
			if err := step(M{"op": "confirm", "i": 0, "keep": false, "td": true}); err != nil {
				return err
			}
		}
		return nil
	}
	if err := confirmAll(); err != nil {
		return err
	}
	keys := make([]string, 0, len(w.sAsks))
	for k := range w.sAsks {
		keys = append(keys, k)
	}
	sort.Strings(keys)
	for _, k := range keys {
		if a, ok := w.sAsks[k]; ok {
			if err := step(M{"op": "release", "app": a.App, "key": k, "term": "STOPPED_BY_RM", "td": true}); err != nil {
				return err
			}
		}
	}
	if err := confirmAll(); err != nil {
		return err
	}
	apps := make([]string, 0)
	for a := range w.sApps {
		apps = append(apps, a)
	}
	sort.Strings(apps)
	for _, a := range apps {
		if err := step(M{"op": "removeApp", "app": a, "td": true}); err != nil {
			return err
		}
	}
	if err := confirmAll(); err != nil {
		return err
	}
	fk := make([]string, 0)
	for k := range w.sForeign {
		fk = append(fk, k)
	}
	sort.Strings(fk)
	for _, k := range fk {
		if err := step(M{"op": "foreignRemove", "key": k, "td": true}); err != nil {
			return err
		}
	}
	nodes := make([]string, 0)
	for n := range w.sNodes {
		nodes = append(nodes, n)
	}
	sort.Strings(nodes)
	for _, n := range nodes {
		if err := step(M{"op": "removeNode", "node": n, "td": true}); err != nil {
			return err
		}
	}
	return step(M{"op": "endDrain"})
}

// trackBefore/After maintain what the shim knows (used by teardown and restart).
func (w *World) trackBefore(op M) {
	switch gs(op, "op") {
	case "release":
		if gs(op, "term") == "STOPPED_BY_RM" {
			if a, ok := w.sAsks[gs(op, "key")]; ok && a.App == gs(op, "app") {
				delete(w.sAsks, gs(op, "key"))
			}
		}
	case "releaseAll":
		for k, a := range w.sAsks {
			if a.App == gs(op, "app") {
				delete(w.sAsks, k)
			}
		}
	case "removeApp":
		for k, a := range w.sAsks {
			if a.App == gs(op, "app") {
				delete(w.sAsks, k)
			}
		}
		delete(w.sApps, gs(op, "app"))
	case "removeNode":
		delete(w.sNodes, gs(op, "node"))
		for k, f := range w.sForeign {
			if f.NodeID == gs(op, "node") {
				delete(w.sForeign, k)
			}
		}
	case "foreignRemove":
		delete(w.sForeign, gs(op, "key"))
	}
}

func (w *World) trackAfter(line M) {
	msgs, _ := line["msgs"].([]M)
	has := func(t, field, val string) bool {
		for _, m := range msgs {
			if m["t"] == t && m[field] == val {
				return true
			}
		}
		return false
	}
	switch gs(line, "op") {
	case "addNode":
		if has("nodeAccepted", "node", gs(line, "node")) {
			w.sNodes[gs(line, "node")] = w.nodeReq(gs(line, "node"), 0, gres(line, "cap")).Nodes[0]
			w.sDrained(gs(line, "node"), gb(line, "drained"))
		}
	case "updateNode":
		if n, ok := w.sNodes[gs(line, "node")]; ok {
			n.SchedulableResource = sires(gres(line, "cap"))
		}
	case "drain":
		w.sDrained(gs(line, "node"), true)
	case "undrain":
		w.sDrained(gs(line, "node"), false)
	case "addApp":
		if has("appAccepted", "app", gs(line, "app")) {
			w.sApps[gs(line, "app")] = nil
			w.sAppOps[gs(line, "app")] = cloneM(line)
		}
	case "addAsk", "reportBound":
		if !has("allocRejected", "key", gs(line, "key")) && gs(line, "panic") == "" {
			if _, dup := w.sAsks[gs(line, "key")]; !dup {
				w.sAsks[gs(line, "key")] = &shimAsk{App: gs(line, "app"), Key: gs(line, "key"), Node: gs(line, "node")}
				w.sAskOps[gs(line, "key")] = cloneM(line)
			}
		}
	case "updateAsk":
		if o, ok := w.sAskOps[gs(line, "key")]; ok && !has("allocRejected", "key", gs(line, "key")) && gs(o, "app") == gs(line, "app") {
			o["res"] = line["res"]
		}
	case "foreign":
		if n, ok := w.sNodes[gs(line, "node")]; ok && n != nil {
			if f, ok := w.sForeign[gs(line, "key")]; !ok || f.NodeID == gs(line, "node") {
				w.sForeign[gs(line, "key")] = w.foreignSI(line)
			}
		}
	case "confirm":
		// (a confirmation that will be repeated later - keep - has released the pod all the same: the shim no longer holds it)
		if !gb(line, "none") {
			if a, ok := w.sAsks[gs(line, "key")]; ok && a.App == gs(line, "app") {
				delete(w.sAsks, gs(line, "key"))
			}
		}
	}
	for _, m := range msgs {
		switch m["t"] {
		case "alloc":
			if a, ok := w.sAsks[m["key"].(string)]; ok {
				a.Node = m["node"].(string)
			}
		case "release":
			if m["term"] == "STOPPED_BY_RM" {
				if a, ok := w.sAsks[m["key"].(string)]; ok && a.App == m["app"] {
					delete(w.sAsks, m["key"].(string))
					if gs(line, "op") != "release" && len(w.goneKeys) < 64 {
						w.goneKeys = append(w.goneKeys, [2]string{a.App, a.Key})
					}
				}
			}
		case "appState":
			if st := m["state"]; st == "Completed" || st == "Failed" || st == "Rejected" || st == "Expired" {
				delete(w.sApps, m["app"].(string))
				for k, a := range w.sAsks {
					if a.App == m["app"] {
						delete(w.sAsks, k)
					}
				}
			}
		}
	}
}

func cloneM(m M) M {
	b, _ := json.Marshal(m)
	out := M{}
	_ = json.Unmarshal(b, &out)
	delete(out, "state")
	delete(out, "msgs")
	delete(out, "pred")
	return out
}

// ReadOps reads an NDJSON file of operations.
func ReadOps(rd io.Reader, f func(M) error) error {
	sc := bufio.NewScanner(rd)
	sc.Buffer(make([]byte, 1<<20), 1<<26)
	for sc.Scan() {
		if len(sc.Bytes()) == 0 {
			continue
		}
		op := M{}
		if err := json.Unmarshal(sc.Bytes(), &op); err != nil {
			return err
		}
		if err := f(op); err != nil {
			return err
		}
	}
	return sc.Err()
}
