package drive

import (
	"strings"
	"time"
)

func ageCut() time.Time { return time.Now().Add(-30 * time.Minute) }

func r1(t string, v int64) map[string]int64 { return map[string]int64{t: v} }
func r2(t1 string, v1 int64, t2 string, v2 int64) map[string]int64 {
	return map[string]int64{t1: v1, t2: v2}
}

// NamedConf returns one of the library configurations used by the seeded workload profiles. The TLC generated
// operation sequences carry their configuration inline instead.
func NamedConf(name string) *Conf {
	var c *Conf
	// "<name>Case": the same configuration with queue names spelled with a capital first letter in the YAML
	if strings.HasSuffix(name, "Case") {
		c = NamedConf(strings.TrimSuffix(name, "Case"))
		c.Name, c.MixedCase = name, true
		return c
	}
	switch name {
	case "base":
		c = &Conf{Valid: true, Queues: []QConf{
			{Path: "root.a", MaxApps: 1, Max: r1("memory", 6)},
			{Path: "root.p", Parent: true, MaxApps: 2, Max: r2("memory", 8, "pods", 4)},
			{Path: "root.p.x", MaxApps: 2, Guar: r1("memory", 2)},
			{Path: "root.p.y", MaxApps: 1},
		}}
	case "mc": // the queue layout of spec/MC_YK.tla
		c = &Conf{Valid: true, Queues: []QConf{
			{Path: "root.a", Max: r1("memory", 3)},
			{Path: "root.p", Parent: true},
			{Path: "root.p.x"},
		}}
	case "mcpre": // the preemption layout of spec/MC_YK.tla (MC_YK_pre.cfg)
		c = &Conf{Valid: true, Preemption: true, Queues: []QConf{
			{Path: "root.p", Parent: true},
			{Path: "root.p.x", Guar: r1("memory", 2)},
			{Path: "root.p.z"},
		}}
	case "B":
		c = &Conf{Valid: true, Queues: []QConf{
			{Path: "root.a", MaxApps: 2, Max: r1("memory", 3)},
			{Path: "root.p", Parent: true, MaxApps: 3, Max: r2("memory", 8, "pods", 4)},
			{Path: "root.p.x", MaxApps: 2},
		}}
	case "C":
		c = &Conf{Valid: true, Queues: []QConf{
			{Path: "root.a", Max: r2("memory", 6, "pods", 3)},
			{Path: "root.p", Parent: true, Max: r1("memory", 5), Props: map[string]string{"application.sort.policy": "fair"}},
			{Path: "root.p.x", Guar: r1("memory", 1)},
			{Path: "root.p.y"},
			{Path: "root.p.w"},
			{Path: "root.q", Props: map[string]string{"priority.offset": "2"}},
		}}
	case "D":
		c = &Conf{Valid: true, Queues: []QConf{
			{Path: "root.a", Max: r1("memory", 2), MaxApps: 3},
			{Path: "root.p", Parent: true, Max: r2("memory", 4, "pods", 2), Props: map[string]string{"preemption.policy": "fence", "priority.policy": "fence"}},
			{Path: "root.p.x", Max: r1("memory", 3), Guar: r1("memory", 1)},
			{Path: "root.p.y", Max: r1("pods", 1)},
		}}
	case "bad":
		c = &Conf{Valid: false, Queues: []QConf{
			{Path: "root.a", Max: r1("memory", 3), Guar: r1("memory", 5)},
		}}
	case "bad2":
		c = &Conf{Valid: false, Queues: []QConf{
			{Path: "root.p", Parent: true, Max: r1("memory", 3)},
			{Path: "root.p.x", Max: r1("memory", 5)},
		}}
	case "bad3": // passes validation, fails when the partition is updated (a placement rule nobody can build); everything else differs
		c = &Conf{Valid: false, Queues: []QConf{
			{Path: "root", SubmitACL: "*", Limits: []LimitConf{{Users: []string{"u0"}, Max: r1("memory", 1), MaxApps: 1}, {Groups: []string{"g1"}, Max: r1("memory", 1), MaxApps: 1}}},
			{Path: "root.a", MaxApps: 5, Max: r1("memory", 1)},
			{Path: "root.zz", Max: r1("memory", 9)},
		}, Rules: []RuleConf{{Name: "nosuchrule"}}}
	case "pre":
		c = &Conf{Valid: true, Preemption: true, Queues: []QConf{
			{Path: "root.p", Parent: true, Max: r1("memory", 12)},
			{Path: "root.p.x", Guar: r1("memory", 4)},
			{Path: "root.p.y", Guar: r1("memory", 2), Props: map[string]string{"priority.offset": "1"}},
			{Path: "root.p.z"},
			{Path: "root.f", Parent: true, Props: map[string]string{"preemption.policy": "fence"}},
			{Path: "root.f.u", Guar: r1("memory", 3)},
			{Path: "root.f.v"},
			{Path: "root.nop", Props: map[string]string{"preemption.policy": "disabled"}},
		}}
	case "pre2":
		c = &Conf{Valid: true, Preemption: true, Queues: []QConf{
			{Path: "root.p", Parent: true, Guar: r1("memory", 6), Props: map[string]string{"priority.policy": "fence"}},
			{Path: "root.p.x", Guar: r2("memory", 3, "pods", 2)},
			{Path: "root.p.y", Props: map[string]string{"priority.offset": "-1"}},
			{Path: "root.q", Guar: r1("memory", 2), Props: map[string]string{"priority.offset": "1"}},
			{Path: "root.r", Parent: true},
			{Path: "root.r.s", Guar: r1("memory", 2)},
			{Path: "root.r.t", Props: map[string]string{"preemption.policy": "disabled"}},
		}}
	case "pre4": // the parent's maximum binds before the nodes do; one victim queue is guaranteed in two resource types
		c = &Conf{Valid: true, Preemption: true, Queues: []QConf{
			{Path: "root.p", Parent: true, Max: r2("memory", 8, "pods", 8)},
			{Path: "root.p.x", Guar: r1("memory", 3)},
			{Path: "root.p.y", Guar: r2("memory", 3, "pods", 1)},
			{Path: "root.p.z"},
			{Path: "root.f", Parent: true, Props: map[string]string{"preemption.policy": "fence"}},
			{Path: "root.f.u", Guar: r1("memory", 2)},
			{Path: "root.f.v"},
			{Path: "root.nop", Props: map[string]string{"preemption.policy": "disabled"}},
		}}
	case "pre3": // askers below negative priority offsets, victims behind priority fences with positive offsets
		c = &Conf{Valid: true, Preemption: true, Queues: []QConf{
			{Path: "root.p", Parent: true, Guar: r1("memory", 6)},
			{Path: "root.p.x", Guar: r1("memory", 3), Props: map[string]string{"priority.offset": "-2"}},
			{Path: "root.p.y", Guar: r1("memory", 2), Props: map[string]string{"priority.offset": "-1"}},
			{Path: "root.q", Props: map[string]string{"priority.policy": "fence", "priority.offset": "1"}},
			{Path: "root.r", Parent: true, Props: map[string]string{"priority.policy": "fence", "priority.offset": "2"}},
			{Path: "root.r.s"},
			{Path: "root.r.t", Props: map[string]string{"priority.offset": "-1"}},
		}}
	case "quota":
		c = &Conf{Valid: true, Preemption: true, QuotaPreempt: true, Queues: []QConf{
			{Path: "root.a", Max: r1("memory", 8), Props: map[string]string{"quota.preemption.delay": "1s"}},
			{Path: "root.p", Parent: true, Max: r1("memory", 10), Props: map[string]string{"quota.preemption.delay": "1s"}},
			{Path: "root.p.x", Guar: r1("memory", 2)},
			{Path: "root.p.y"},
		}}
	case "quotaLow":
		c = &Conf{Valid: true, Preemption: true, QuotaPreempt: true, Queues: []QConf{
			{Path: "root.a", Max: r1("memory", 2), Props: map[string]string{"quota.preemption.delay": "1s"}},
			{Path: "root.p", Parent: true, Max: r1("memory", 3), Props: map[string]string{"quota.preemption.delay": "1s"}},
			{Path: "root.p.x", Guar: r1("memory", 2)},
			{Path: "root.p.y"},
		}}
	case "limits":
		c = &Conf{Valid: true, Queues: []QConf{
			{Path: "root", SubmitACL: "*", Limits: []LimitConf{{Users: []string{"u0"}, Max: r1("memory", 6), MaxApps: 3}, {Groups: []string{"g1"}, Max: r1("memory", 8), MaxApps: 4}}},
			{Path: "root.a", Limits: []LimitConf{{Users: []string{"*"}, Max: r1("memory", 3), MaxApps: 2}}},
			{Path: "root.p", Parent: true, Limits: []LimitConf{{Users: []string{"u1"}, Max: r2("memory", 4, "pods", 2), MaxApps: 2}, {Groups: []string{"g2"}, Max: r1("memory", 6)}, {Groups: []string{"*"}, Max: r1("memory", 5)}}},
			{Path: "root.p.x", Limits: []LimitConf{{Users: []string{"u0"}, Max: r1("memory", 2), MaxApps: 1}}},
			{Path: "root.p.y", Limits: []LimitConf{{Groups: []string{"g2"}, Max: r1("memory", 2), MaxApps: 1}}},
		}}
	case "limits2":
		c = &Conf{Valid: true, Queues: []QConf{
			{Path: "root", SubmitACL: "*", Limits: []LimitConf{{Users: []string{"u0"}, Max: r1("memory", 5), MaxApps: 3}}},
			{Path: "root.a", Limits: []LimitConf{{Users: []string{"u1"}, Max: r1("memory", 2), MaxApps: 1}}},
			{Path: "root.p", Parent: true, Limits: []LimitConf{{Users: []string{"*"}, Max: r1("memory", 4)}, {Groups: []string{"g1"}, Max: r1("memory", 6), MaxApps: 2}}},
			{Path: "root.p.x"},
			{Path: "root.p.y", Limits: []LimitConf{{Users: []string{"u1"}, Max: r1("memory", 1), MaxApps: 1}}},
		}}
	case "dyn2": // as dyn, the template forbids one resource type outright (maximum 0) and guarantees another
		c = NamedConf("dyn")
		for i := range c.Queues {
			if c.Queues[i].Path == "root.d" {
				c.Queues[i].TmplMax = r2("memory", 3, "pods", 0)
				c.Queues[i].TmplGuar = r1("memory", 1)
			}
		}
		c.Name = name
		return c
	case "dyn":
		c = &Conf{Valid: true, Queues: []QConf{
			{Path: "root", SubmitACL: "*"},
			{Path: "root.a", Max: r1("memory", 6)},
			{Path: "root.d", Parent: true, Max: r2("memory", 8, "pods", 6), Tmpl: true, TmplMax: r1("memory", 3), TmplMaxApps: 1, TmplProps: map[string]string{"application.sort.policy": "fair"}},
			{Path: "root.e", Parent: true, MaxApps: 2},
		}, Rules: []RuleConf{
			{Name: "provided", Create: true},
			{Name: "user", Create: true, Parent: &RuleConf{Name: "fixed", Value: "root.d"}},
		}}
	default:
		panic("unknown conf " + name)
	}
	c.Name = name
	c.Normalize()
	return c
}
