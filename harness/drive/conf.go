package drive

import (
	"sort"
	"strconv"
	"strings"

	"go.yaml.in/yaml/v3"

	"github.com/apache/yunikorn-core/pkg/common/configs"
)

// Abstract configuration record: this is the form the TLA+ specification reasons about (spec/Queues.tla,
// spec/UGM.tla). The harness renders it to YAML; the validator reads it from the trace line.

type LimitConf struct {
	Users   []string         `json:"users"`
	Groups  []string         `json:"groups"`
	Max     map[string]int64 `json:"max"`
	MaxApps uint64           `json:"maxApps"`
}

type QConf struct {
	Path        string            `json:"path"`
	Parent      bool              `json:"parent"`
	Max         map[string]int64  `json:"max"`
	Guar        map[string]int64  `json:"guar"`
	MaxApps     uint64            `json:"maxApps"`
	Props       map[string]string `json:"props"`
	SubmitACL   string            `json:"submitacl"`
	AdminACL    string            `json:"adminacl"`
	Tmpl        bool              `json:"tmpl"`
	TmplMax     map[string]int64  `json:"tmplMax"`
	TmplGuar    map[string]int64  `json:"tmplGuar"`
	TmplMaxApps uint64            `json:"tmplMaxApps"`
	TmplProps   map[string]string `json:"tmplProps"`
	Limits      []LimitConf       `json:"limits"`
}

type RuleConf struct {
	Name        string    `json:"name"`
	Create      bool      `json:"create"`
	Value       string    `json:"value"`
	FilterType  string    `json:"filterType"`
	FilterUsers []string  `json:"filterUsers"`
	FilterGrps  []string  `json:"filterGroups"`
	Parent      *RuleConf `json:"parent,omitempty"`
}

type Conf struct {
	Name         string     `json:"name"`
	Queues       []QConf    `json:"queues"` // every queue except root; root itself may be listed for ACL/props/limits
	Rules        []RuleConf `json:"rules"`
	Preemption   bool       `json:"preemption"`
	QuotaPreempt bool       `json:"quotaPreempt"`
	NodeSort     string     `json:"nodeSort"`
	MixedCase    bool       `json:"mixedCase"` // the YAML spells queue names with a capital first letter (queue names are case insensitive)
	Valid        bool       `json:"valid"`     // what the generator expects validation to say
}

func resStr(m map[string]int64) map[string]string {
	if m == nil {
		return nil
	}
	out := map[string]string{}
	for k, v := range m {
		out[k] = strconv.FormatInt(v, 10)
	}
	return out
}

func (c *Conf) Normalize() {
	for i := range c.Queues {
		q := &c.Queues[i]
		if q.Max == nil {
			q.Max = map[string]int64{}
		}
		if q.Guar == nil {
			q.Guar = map[string]int64{}
		}
		if q.Props == nil {
			q.Props = map[string]string{}
		}
		if q.TmplMax == nil {
			q.TmplMax = map[string]int64{}
		}
		if q.TmplGuar == nil {
			q.TmplGuar = map[string]int64{}
		}
		if q.TmplProps == nil {
			q.TmplProps = map[string]string{}
		}
		if q.Limits == nil {
			q.Limits = []LimitConf{}
		}
		for j := range q.Limits {
			l := &q.Limits[j]
			if l.Users == nil {
				l.Users = []string{}
			}
			if l.Groups == nil {
				l.Groups = []string{}
			}
			if l.Max == nil {
				l.Max = map[string]int64{}
			}
		}
	}
	if c.Rules == nil {
		c.Rules = []RuleConf{}
	}
	for i := range c.Rules {
		for r := &c.Rules[i]; r != nil; r = r.Parent {
			if r.FilterUsers == nil {
				r.FilterUsers = []string{}
			}
			if r.FilterGrps == nil {
				r.FilterGrps = []string{}
			}
		}
	}
	sort.SliceStable(c.Queues, func(i, j int) bool { return c.Queues[i].Path < c.Queues[j].Path })
}

func ruleToCfg(r *RuleConf) configs.PlacementRule {
	out := configs.PlacementRule{Name: r.Name, Create: r.Create, Value: r.Value}
	if r.FilterType != "" || len(r.FilterUsers) > 0 || len(r.FilterGrps) > 0 {
		out.Filter = configs.Filter{Type: r.FilterType, Users: r.FilterUsers, Groups: r.FilterGrps}
	}
	if r.Parent != nil {
		p := ruleToCfg(r.Parent)
		out.Parent = &p
	}
	return out
}

// YAML renders the abstract configuration as a scheduler configuration document.
func (c *Conf) YAML() []byte {
	byPath := map[string]*QConf{}
	for i := range c.Queues {
		byPath[c.Queues[i].Path] = &c.Queues[i]
	}
	var build func(path, name string) configs.QueueConfig
	build = func(path, name string) configs.QueueConfig {
		qc := configs.QueueConfig{Name: name}
		if c.MixedCase && name != "root" {
			qc.Name = strings.ToUpper(name[:1]) + name[1:]
		}
		if q, ok := byPath[path]; ok {
			qc.Parent = q.Parent
			qc.Resources = configs.Resources{Max: nilIfEmpty(resStr(q.Max)), Guaranteed: nilIfEmpty(resStr(q.Guar))}
			qc.MaxApplications = q.MaxApps
			if len(q.Props) > 0 {
				qc.Properties = q.Props
			}
			qc.SubmitACL = q.SubmitACL
			qc.AdminACL = q.AdminACL
			if q.Tmpl {
				qc.ChildTemplate = configs.ChildTemplate{MaxApplications: q.TmplMaxApps, Properties: q.TmplProps,
					Resources: configs.Resources{Max: nilIfEmpty(resStr(q.TmplMax)), Guaranteed: nilIfEmpty(resStr(q.TmplGuar))}}
			}
			for _, l := range q.Limits {
				qc.Limits = append(qc.Limits, configs.Limit{Limit: "l", Users: l.Users, Groups: l.Groups, MaxResources: nilIfEmpty(resStr(l.Max)), MaxApplications: l.MaxApps})
			}
		}
		// children in path order
		var kids []string
		for p := range byPath {
			if strings.HasPrefix(p, path+".") && !strings.Contains(p[len(path)+1:], ".") {
				kids = append(kids, p)
			}
		}
		sort.Strings(kids)
		for _, k := range kids {
			qc.Queues = append(qc.Queues, build(k, k[len(path)+1:]))
		}
		return qc
	}
	root := build("root", "root")
	if _, ok := byPath["root"]; !ok {
		root.SubmitACL = "*"
	}
	pc := configs.PartitionConfig{Name: "default", Queues: []configs.QueueConfig{root}}
	for i := range c.Rules {
		pc.PlacementRules = append(pc.PlacementRules, ruleToCfg(&c.Rules[i]))
	}
	t, f := true, false
	if c.Preemption {
		pc.Preemption.Enabled = &t
	} else {
		pc.Preemption.Enabled = &f
	}
	if c.QuotaPreempt {
		pc.Preemption.QuotaPreemptionEnabled = &t
	}
	if c.NodeSort != "" {
		pc.NodeSortPolicy = configs.NodeSortingPolicy{Type: c.NodeSort}
	}
	sc := configs.SchedulerConfig{Partitions: []configs.PartitionConfig{pc}}
	b, err := yaml.Marshal(&sc)
	if err != nil {
		panic(err)
	}
	return b
}

func nilIfEmpty(m map[string]string) map[string]string {
	if len(m) == 0 {
		return nil
	}
	return m
}
