package drive

import (
	"encoding/json"
	"fmt"
	"runtime/debug"
	"sort"
	"strconv"
	"strings"
	"sync/atomic"
	"time"

	"github.com/apache/yunikorn-core/pkg/plugins"
	"github.com/apache/yunikorn-core/pkg/scheduler"
	"github.com/apache/yunikorn-core/pkg/scheduler/objects"
	"github.com/apache/yunikorn-core/pkg/scheduler/ugm"
	siCommon "github.com/apache/yunikorn-scheduler-interface/lib/go/common"
	"github.com/apache/yunikorn-scheduler-interface/lib/go/si"
)

const (
	RmID = "rm"
	Part = "[rm]default"
)

// shim's own knowledge (what a real shim would be able to replay after a core restart)
type shimAsk struct {
	App, Key string
	Req      *si.Allocation
	Node     string // bound node as told by the core ("" = outstanding)
}

type World struct {
	CC      *scheduler.ClusterContext
	P       *scheduler.PartitionContext
	H       *Shim
	Conf    *Conf
	seenLog map[string]int
	// pending core initiated releases awaiting a shim confirmation, in announcement order
	PendingRel []M
	// shim knowledge for restart
	sNodes    map[string]*si.NodeInfo
	sApps     map[string]*si.AddApplicationRequest
	sAsks     map[string]*shimAsk
	sForeign  map[string]*si.Allocation
	sAppOps   map[string]M
	sAskOps   map[string]M
	sDrain    map[string]bool
	step      int
	termDone  atomic.Int64 // terminated-application callbacks that have run to completion
	goneKeys  [][2]string  // (app, key) of allocations the core released on its own (the shim no longer owns them)
	dead      bool         // the core hung: the trace cannot continue
	unsettled bool         // the settle barrier timed out (harness fault, never a verdict)
	lastState M
}

// termCB replaces the partition's terminated-application callback (same body, via the export shim) so that the
// settle barrier can tell when the callback goroutine the core started has finished.
func (w *World) termCB(appID string) {
	w.P.VerifMoveTerminatedApp(appID)
	w.termDone.Add(1)
}

func (w *World) ownCallback(appID string) {
	if a := w.P.GetApplication(appID); a != nil {
		a.SetTerminatedCallback(w.termCB)
	}
}

func sires(m map[string]int64) *si.Resource {
	r := &si.Resource{Resources: map[string]*si.Quantity{}}
	for k, v := range m {
		r.Resources[k] = &si.Quantity{Value: v}
	}
	return r
}

func resetSingletons() {
	um := ugm.GetUserManager()
	um.ClearUserTrackers()
	um.ClearGroupTrackers()
	um.ClearConfigLimits()
}

// NewWorld builds a fresh core from the abstract configuration.
func NewWorld(c *Conf) (*World, error) {
	InitLogger()
	objects.SetCompletingTimeout(time.Hour)
	resetSingletons()
	c.Normalize()
	cc, err := scheduler.NewClusterContext(RmID, "pg", c.YAML())
	if err != nil {
		return nil, err
	}
	cc.VerifStopCleaners()
	h := NewShim()
	cc.VerifSetEventHandler(h)
	plugins.UnregisterSchedulerPlugins()
	plugins.RegisterSchedulerPlugin(h)
	w := &World{CC: cc, P: cc.GetPartition(Part), H: h, Conf: c, seenLog: map[string]int{},
		sNodes: map[string]*si.NodeInfo{}, sApps: map[string]*si.AddApplicationRequest{}, sAsks: map[string]*shimAsk{}, sForeign: map[string]*si.Allocation{}, sAppOps: map[string]M{}, sAskOps: map[string]M{}, sDrain: map[string]bool{}}
	return w, nil
}

func gs(op M, k string) string {
	if v, ok := op[k]; ok && v != nil {
		if s, ok := v.(string); ok {
			return s
		}
		return fmt.Sprint(v)
	}
	return ""
}
func gb(op M, k string) bool {
	if v, ok := op[k]; ok {
		if b, ok := v.(bool); ok {
			return b
		}
	}
	return false
}
func gi(op M, k string) int64 {
	if v, ok := op[k]; ok {
		switch x := v.(type) {
		case float64:
			return int64(x)
		case int:
			return int64(x)
		case int64:
			return x
		case int32:
			return int64(x)
		case json.Number:
			n, _ := x.Int64()
			return n
		}
	}
	return 0
}
func gres(op M, k string) map[string]int64 {
	out := map[string]int64{}
	switch m := op[k].(type) {
	case map[string]interface{}:
		for t, v := range m {
			out[t] = gi(M{"v": v}, "v")
		}
	case map[string]int64:
		for t, v := range m {
			out[t] = v
		}
	}
	return out
}
func gstrs(op M, k string) []string {
	out := []string{}
	switch l := op[k].(type) {
	case []interface{}:
		for _, v := range l {
			out = append(out, fmt.Sprint(v))
		}
	case []string:
		out = append(out, l...)
	}
	return out
}
func gsmap(op M, k string) map[string]string {
	out := map[string]string{}
	switch m := op[k].(type) {
	case map[string]interface{}:
		for t, v := range m {
			out[t] = fmt.Sprint(v)
		}
	case map[string]string:
		for t, v := range m {
			out[t] = v
		}
	}
	return out
}

var nodeAttrs = map[string]string{siCommon.NodePartition: Part}

func (w *World) nodeReq(id string, act si.NodeInfo_ActionFromRM, cap map[string]int64) *si.NodeRequest {
	ni := &si.NodeInfo{NodeID: id, Action: act, Attributes: nodeAttrs}
	if cap != nil {
		ni.SchedulableResource = sires(cap)
	}
	return &si.NodeRequest{RmID: RmID, Nodes: []*si.NodeInfo{ni}}
}

func (w *World) askFromOp(op M) *si.Allocation {
	tags := map[string]string{}
	if gb(op, "aged") {
		tags[siCommon.CreationTime] = strconv.FormatInt(time.Now().Add(-time.Hour).Unix(), 10)
	}
	if rn := gs(op, "reqNode"); rn != "" {
		tags[siCommon.DomainYuniKorn+siCommon.KeyRequiredNode] = rn
	}
	pp := &si.PreemptionPolicy{AllowPreemptSelf: true, AllowPreemptOther: true}
	if v, ok := op["preemptOther"]; ok {
		pp.AllowPreemptOther = v.(bool)
	}
	if v, ok := op["preemptSelf"]; ok {
		pp.AllowPreemptSelf = v.(bool)
	}
	return &si.Allocation{AllocationKey: gs(op, "key"), ApplicationID: gs(op, "app"), PartitionName: Part, NodeID: gs(op, "node"),
		ResourcePerAlloc: sires(gres(op, "res")), Placeholder: gb(op, "ph"), TaskGroupName: gs(op, "tg"), AllocationTags: tags,
		Priority: int32(gi(op, "prio")), PreemptionPolicy: pp, Originator: gb(op, "originator")}
}

func (w *World) releaseReq(app, key string, tt si.TerminationType) *si.AllocationRequest {
	return &si.AllocationRequest{RmID: RmID, Releases: &si.AllocationReleasesRequest{AllocationsToRelease: []*si.AllocationRelease{
		{PartitionName: Part, ApplicationID: app, AllocationKey: key, TerminationType: tt}}}}
}

// Apply performs one environment operation against the real core and returns the trace line (without state).
// Fields the driver resolves (e.g. which release "confirm i" refers to) are written back into op.
func (w *World) Apply(op M) (line M) {
	line = op
	defer func() {
		if r := recover(); r != nil {
			line["panic"] = fmt.Sprint(r)
			line["stack"] = trimStack(string(debug.Stack()))
		}
	}()
	line["panic"] = ""
	dp0 := dpanics.Load()
	w.dispatch(op, line)
	w.settle()
	line["unsettled"] = w.unsettled
	line["dpanic"] = dpanics.Load() - dp0
	return line
}

// dispatch translates one operation into SI requests / harness calls against the core
func (w *World) dispatch(op M, line M) {
	switch gs(op, "op") {
	case "noop":
	case "addNode":
		act := si.NodeInfo_CREATE
		if gb(op, "drained") {
			act = si.NodeInfo_CREATE_DRAIN
		}
		req := w.nodeReq(gs(op, "node"), act, gres(op, "cap"))
		w.CC.VerifProcessNodes(req)
	case "updateNode":
		w.CC.VerifProcessNodes(w.nodeReq(gs(op, "node"), si.NodeInfo_UPDATE, gres(op, "cap")))
	case "drain":
		w.CC.VerifProcessNodes(w.nodeReq(gs(op, "node"), si.NodeInfo_DRAIN_NODE, nil))
	case "undrain":
		w.CC.VerifProcessNodes(w.nodeReq(gs(op, "node"), si.NodeInfo_DRAIN_TO_SCHEDULABLE, nil))
	case "removeNode":
		w.CC.VerifProcessNodes(w.nodeReq(gs(op, "node"), si.NodeInfo_DECOMISSION, nil))
	case "foreign":
		w.CC.VerifUpdateAllocations(&si.AllocationRequest{RmID: RmID, Allocations: []*si.Allocation{w.foreignSI(op)}})
	case "foreignRemove":
		w.CC.VerifUpdateAllocations(w.releaseReq("", gs(op, "key"), si.TerminationType_STOPPED_BY_RM))
	case "addApp":
		req := &si.AddApplicationRequest{ApplicationID: gs(op, "app"), QueueName: gs(op, "queue"), PartitionName: Part,
			Ugi: &si.UserGroupInformation{User: gs(op, "user"), Groups: gstrs(op, "groups")}, Tags: gsmap(op, "tags"), ExecutionTimeoutMilliSeconds: 3600000}
		if gb(op, "noUgi") {
			req.Ugi = nil
		}
		if gb(op, "forced") {
			req.Tags[siCommon.AppTagCreateForce] = "true"
		}
		if gb(op, "gang") {
			req.PlaceholderAsk = sires(gres(op, "phAsk"))
			req.GangSchedulingStyle = gs(op, "style")
		}
		existed := w.P.GetApplication(req.ApplicationID) != nil
		w.CC.VerifUpdateApplications(&si.ApplicationRequest{RmID: RmID, New: []*si.AddApplicationRequest{req}})
		if !existed {
			w.ownCallback(req.ApplicationID)
		}
	case "removeApp":
		w.CC.VerifUpdateApplications(&si.ApplicationRequest{RmID: RmID, Remove: []*si.RemoveApplicationRequest{{ApplicationID: gs(op, "app"), PartitionName: Part}}})
	case "addAsk", "reportBound", "updateAsk":
		a := w.askFromOp(op)
		w.CC.VerifUpdateAllocations(&si.AllocationRequest{RmID: RmID, Allocations: []*si.Allocation{a}})
	case "release":
		tt := si.TerminationType(si.TerminationType_value[gs(op, "term")])
		w.CC.VerifUpdateAllocations(w.releaseReq(gs(op, "app"), gs(op, "key"), tt))
	case "releaseAll":
		w.CC.VerifUpdateAllocations(w.releaseReq(gs(op, "app"), "", si.TerminationType_STOPPED_BY_RM))
	case "confirm":
		if len(w.PendingRel) == 0 {
			line["key"], line["app"], line["term"], line["none"] = "", "", "", true
			break
		}
		i := int(gi(op, "i")) % len(w.PendingRel)
		r := w.PendingRel[i]
		if !gb(op, "keep") { // keep => the shim will confirm this one again later (duplicate confirmation)
			w.PendingRel = append(w.PendingRel[:i:i], w.PendingRel[i+1:]...)
		}
		line["key"], line["app"], line["term"], line["none"] = r["key"], r["app"], r["term"], false
		tt := si.TerminationType(si.TerminationType_value[r["term"].(string)])
		w.CC.VerifUpdateAllocations(w.releaseReq(r["app"].(string), r["key"].(string), tt))
	case "schedule":
		w.CC.VerifSchedule()
	case "firePhTimer":
		line["armed"], line["was"], line["style"] = false, "", "Soft"
		if o, ok := w.sAppOps[gs(op, "app")]; ok && gs(o, "style") != "" {
			line["style"] = gs(o, "style")
		}
		if a := w.P.GetApplication(gs(op, "app")); a != nil {
			line["was"] = a.CurrentState()
			line["armed"], _ = a.VerifTimersArmed()
			a.VerifFirePlaceholderTimer()
		}
	case "fireStateTimer":
		line["armed"], line["was"] = false, ""
		if a := w.P.GetApplication(gs(op, "app")); a != nil {
			line["was"] = a.CurrentState()
			_, st := a.VerifTimersArmed()
			line["armed"] = st
			a.VerifFireStateTimer()
		}
	case "quotaTick":
		line["elapsed"] = []string{}
		elapsed := []string{}
		var walk func(q *objects.Queue)
		walk = func(q *objects.Queue) {
			if q.VerifQuotaPreemptionElapse() {
				elapsed = append(elapsed, q.GetQueuePath())
			}
			for _, c := range q.GetCopyOfChildren() {
				walk(c)
			}
		}
		walk(w.P.VerifRoot())
		sort.Strings(elapsed)
		line["elapsed"] = elapsed
		w.CC.VerifQuotaPreemption()
	case "reload":
		c := w.confFromOp(op)
		c.Normalize()
		line["conf"], line["ok"], line["err"] = c, false, "panic"
		err := w.CC.UpdateRMSchedulerConfig(RmID, c.YAML())
		line["ok"] = err == nil
		line["err"] = ""
		if err != nil {
			line["err"] = err.Error()
		} else {
			w.Conf = c
		}
		line["conf"] = c
	case "bad":
		w.applyBad(op, line)
	case "restart":
		line["old"], line["expect"], line["inflight"], line["replayed"], line["asks"] = M{}, M{}, 0, 0, M{}
		w.restart(op, line)
	case "deny":
		w.H.SetDeny(gs(op, "key"), gs(op, "node"), true)
	case "cleanQueues":
		w.CC.VerifCleanQueues()
	default:
		line["unknown"] = true
	}
}

func trimStack(s string) string {
	lines := strings.Split(s, "\n")
	out := []string{}
	for _, l := range lines {
		if strings.Contains(l, "yunikorn-core/pkg") && !strings.Contains(l, "\t") {
			out = append(out, strings.TrimSpace(l))
		}
		if len(out) >= 6 {
			break
		}
	}
	return strings.Join(out, " | ")
}

func (w *World) confFromOp(op M) *Conf {
	switch v := op["conf"].(type) {
	case *Conf:
		return v
	case string:
		c := NamedConf(v)
		return c
	default:
		b, _ := json.Marshal(v)
		c := &Conf{}
		if err := json.Unmarshal(b, c); err != nil {
			panic(err)
		}
		return c
	}
}

// settle is the barrier after each step: terminated applications are moved to the completed list by a callback
// goroutine and quota preemption runs in its own goroutine; wait until both are done so that the projection is
// taken at a quiescent point.
func (w *World) settle() {
	for i := 0; i < 200000; i++ {
		busy := w.termDone.Load() < w.H.termExpected.Load()
		if !busy {
			busy = quotaRunning(w.P.VerifRoot())
		}
		if !busy {
			return
		}
		time.Sleep(50 * time.Microsecond)
	}
	w.unsettled = true
}

func quotaRunning(q *objects.Queue) bool {
	if q.VerifQuotaPreemptionRunning() {
		return true
	}
	for _, c := range q.GetCopyOfChildren() {
		if quotaRunning(c) {
			return true
		}
	}
	return false
}

// AfterStep harvests what the step emitted: messages, predicate denials, and maintains the list of core initiated
// releases that the shim still has to confirm.
func (w *World) AfterStep(line M) {
	msgs, pred := w.H.Drain()
	for _, m := range msgs {
		if m["t"] == "release" && m["term"] != "STOPPED_BY_RM" {
			w.PendingRel = append(w.PendingRel, m)
		}
	}
	line["msgs"], line["pred"] = msgs, pred
	st := w.Project()
	line["state"] = st
	w.lastState = st
	w.step++
}

func (w *World) foreignSI(op M) *si.Allocation {
	return &si.Allocation{AllocationKey: gs(op, "key"), PartitionName: Part, NodeID: gs(op, "node"), ResourcePerAlloc: sires(gres(op, "res")),
		AllocationTags: map[string]string{siCommon.Foreign: siCommon.AllocTypeDefault}}
}

func (w *World) sDrained(node string, d bool) {
	if _, ok := w.sNodes[node]; ok {
		w.sDrain[node] = d
	}
}

func sortStrings(s []string) { sort.Strings(s) }
