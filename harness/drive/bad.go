package drive

import (
	"fmt"
	"math/rand"

	siCommon "github.com/apache/yunikorn-scheduler-interface/lib/go/common"
	"github.com/apache/yunikorn-scheduler-interface/lib/go/si"
)

// Malformed-request classes (property C13). Every class is a request that a protobuf decoder can produce but a
// well-behaved shim would not send. "expect": "unchanged" = the item is invalid, the core must answer with the matching
// rejection (field "rej": "app" | "alloc" | "node" | "") and leave every ledger exactly as it was; "any" = the request is
// unusual but meaningful (e.g. a release with an unexpected termination type still releases), only panics, hangs and broken
// invariants count.
type badClass struct {
	kind, expect, rej string
}

var BadClasses = []badClass{
	{"app.dup", "unchanged", "app"},
	{"app.nopartition", "unchanged", "app"},
	{"app.noqueue", "unchanged", "app"},
	{"app.nougi", "unchanged", "app"},
	{"app.nougi.forced", "any", ""},
	{"app.emptyrequest", "unchanged", ""},
	{"app.remove.unknown", "unchanged", ""},
	{"ask.unknownapp", "unchanged", "alloc"},
	{"ask.nopartition", "unchanged", "alloc"},
	{"ask.nores", "unchanged", "alloc"},
	{"ask.zero", "unchanged", "alloc"},
	{"ask.negative", "unchanged", "alloc"},
	{"ask.update.negative", "unchanged", "alloc"},
	{"ask.phnotg", "unchanged", ""},
	{"ask.dup", "unchanged", ""},
	{"ask.unknownnode", "unchanged", "alloc"},
	{"ask.nilpolicy", "any", ""},
	{"ask.update.released", "unchanged", ""},
	{"foreign.nonode", "unchanged", "alloc"},
	{"foreign.unknownnode", "unchanged", "alloc"},
	{"foreign.move", "any", ""},
	{"alloc.emptyrequest", "unchanged", ""},
	{"rel.unknownapp", "unchanged", ""},
	{"rel.unknownkey", "unchanged", ""},
	{"rel.nopartition", "unchanged", ""},
	{"rel.timeout.pending", "unchanged", ""},
	{"rel.replaced.noswap", "any", ""},
	{"rel.preempted.unmarked", "any", ""},
	{"rel.unknownterm", "any", ""},
	{"node.update.unknown", "unchanged", ""},
	{"node.drain.unknown", "unchanged", ""},
	{"node.remove.unknown", "unchanged", ""},
	{"node.dup", "unchanged", "node"},
	{"node.nopartition", "unchanged", ""},
	{"node.unknownaction", "unchanged", ""},
	{"node.emptyrequest", "unchanged", ""},
	{"node.nores", "any", ""},
}

func badClassOf(kind string) *badClass {
	for i := range BadClasses {
		if BadClasses[i].kind == kind {
			return &BadClasses[i]
		}
	}
	return nil
}

// pickers over what the shim knows (deterministic: sorted)
func (w *World) anyKey(rnd int, filter func(a *shimAsk) bool) *shimAsk {
	keys := sortedKeys(w.sAsks)
	var c []*shimAsk
	for _, k := range keys {
		if filter == nil || filter(w.sAsks[k]) {
			c = append(c, w.sAsks[k])
		}
	}
	if len(c) == 0 {
		return nil
	}
	return c[rnd%len(c)]
}

func sortedKeys[T any](m map[string]T) []string {
	out := make([]string, 0, len(m))
	for k := range m {
		out = append(out, k)
	}
	sortStrings(out)
	return out
}

// applyBad sends the malformed request of class op["kind"]. It fills in expect/rej and the concrete ids it used; when the
// current state offers no object the class needs (e.g. no bound allocation) the step degrades to a no-op ("skipped").
func (w *World) applyBad(op M, line M) {
	kind := gs(op, "kind")
	bc := badClassOf(kind)
	if bc == nil {
		line["skipped"] = "unknown class"
		line["expect"], line["rej"] = "any", ""
		return
	}
	r := int(gi(op, "r"))
	line["expect"], line["rej"], line["skipped"] = bc.expect, bc.rej, ""
	line["app"], line["key"], line["node"] = "", "", ""
	apps := sortedKeys(w.sApps)
	nodes := sortedKeys(w.sNodes)
	ask := func(a *si.Allocation) {
		line["app"], line["key"] = a.ApplicationID, a.AllocationKey
		w.CC.VerifUpdateAllocations(&si.AllocationRequest{RmID: RmID, Allocations: []*si.Allocation{a}})
	}
	rel := func(app, key, part string, tt si.TerminationType) {
		line["app"], line["key"] = app, key
		w.CC.VerifUpdateAllocations(&si.AllocationRequest{RmID: RmID, Releases: &si.AllocationReleasesRequest{AllocationsToRelease: []*si.AllocationRelease{
			{PartitionName: part, ApplicationID: app, AllocationKey: key, TerminationType: tt}}}})
	}
	goodAsk := func(app, key string) *si.Allocation {
		return &si.Allocation{AllocationKey: key, ApplicationID: app, PartitionName: Part, ResourcePerAlloc: sires(map[string]int64{"memory": 1}),
			PreemptionPolicy: &si.PreemptionPolicy{AllowPreemptSelf: true}, AllocationTags: map[string]string{}}
	}
	needApp := func() (string, bool) {
		if len(apps) == 0 {
			line["skipped"] = "no application"
			return "", false
		}
		return apps[r%len(apps)], true
	}
	needNode := func() (string, bool) {
		if len(nodes) == 0 {
			line["skipped"] = "no node"
			return "", false
		}
		return nodes[r%len(nodes)], true
	}
	fresh := fmt.Sprintf("bad%d", w.step)
	switch kind {
	case "app.dup":
		if a, ok := needApp(); ok {
			line["app"] = a
			w.CC.VerifUpdateApplications(&si.ApplicationRequest{RmID: RmID, New: []*si.AddApplicationRequest{{ApplicationID: a, QueueName: "root.a", PartitionName: Part,
				Ugi: &si.UserGroupInformation{User: "u0"}}}})
		}
	case "app.nopartition":
		line["app"] = fresh
		w.CC.VerifUpdateApplications(&si.ApplicationRequest{RmID: RmID, New: []*si.AddApplicationRequest{{ApplicationID: fresh, QueueName: "root.a", PartitionName: "[rm]nope",
			Ugi: &si.UserGroupInformation{User: "u0"}}}})
	case "app.noqueue":
		line["app"] = fresh
		w.CC.VerifUpdateApplications(&si.ApplicationRequest{RmID: RmID, New: []*si.AddApplicationRequest{{ApplicationID: fresh, QueueName: "root.does.not.exist", PartitionName: Part,
			Ugi: &si.UserGroupInformation{User: "u0"}}}})
	case "app.nougi":
		line["app"] = fresh
		w.CC.VerifUpdateApplications(&si.ApplicationRequest{RmID: RmID, New: []*si.AddApplicationRequest{{ApplicationID: fresh, QueueName: "root.a", PartitionName: Part}}})
	case "app.nougi.forced":
		line["app"] = fresh
		w.CC.VerifUpdateApplications(&si.ApplicationRequest{RmID: RmID, New: []*si.AddApplicationRequest{{ApplicationID: fresh, QueueName: "root.a", PartitionName: Part,
			Tags: map[string]string{siCommon.AppTagCreateForce: "true"}}}})
		w.ownCallback(fresh)
		if w.P.GetApplication(fresh) != nil {
			w.sApps[fresh] = nil
		}
	case "app.emptyrequest":
		w.CC.VerifUpdateApplications(&si.ApplicationRequest{RmID: RmID})
	case "app.remove.unknown":
		line["app"] = fresh
		w.CC.VerifUpdateApplications(&si.ApplicationRequest{RmID: RmID, Remove: []*si.RemoveApplicationRequest{{ApplicationID: fresh, PartitionName: Part}}})
	case "ask.unknownapp":
		ask(goodAsk(fresh, fresh+"k"))
	case "ask.nopartition":
		if a, ok := needApp(); ok {
			x := goodAsk(a, fresh)
			x.PartitionName = "[rm]nope"
			ask(x)
		}
	case "ask.nores":
		if a, ok := needApp(); ok {
			x := goodAsk(a, fresh)
			x.ResourcePerAlloc = nil
			ask(x)
		}
	case "ask.zero":
		if a, ok := needApp(); ok {
			x := goodAsk(a, fresh)
			x.ResourcePerAlloc = sires(map[string]int64{"memory": 0})
			ask(x)
		}
	case "ask.negative":
		if a, ok := needApp(); ok {
			x := goodAsk(a, fresh)
			x.ResourcePerAlloc = sires(map[string]int64{"memory": 2, "pods": -1})
			ask(x)
		}
	case "ask.update.negative":
		// a key the core knows (outstanding ask or bound allocation) is sent again with a negative quantity
		if k := w.anyKey(r, func(a *shimAsk) bool { return w.sAskOps[a.Key] != nil }); k != nil {
			x := w.askFromOp(w.sAskOps[k.Key])
			x.NodeID = k.Node
			x.ResourcePerAlloc = sires(map[string]int64{"memory": int64(r%3 + 1), "pods": -1})
			line["app"], line["key"] = k.App, k.Key
			ask(x)
		} else {
			line["skipped"] = "no known key"
		}
	case "ask.phnotg":
		if a, ok := needApp(); ok {
			x := goodAsk(a, fresh)
			x.Placeholder = true
			ask(x)
		}
	case "ask.dup":
		// a duplicate of an ask that is still outstanding: not bound, and not one the core has already told the shim to release
		outstanding := func(a *shimAsk) bool {
			if a.Node != "" || w.sAskOps[a.Key] == nil {
				return false
			}
			app := w.P.GetApplication(a.App)
			return app != nil && app.GetAllocationAsk(a.Key) != nil && !app.GetAllocationAsk(a.Key).IsAllocated()
		}
		if k := w.anyKey(r, outstanding); k != nil {
			o := w.sAskOps[k.Key]
			x := w.askFromOp(o)
			x.NodeID = ""
			ask(x)
		} else {
			line["skipped"] = "no outstanding ask"
		}
	case "ask.unknownnode":
		if a, ok := needApp(); ok {
			x := goodAsk(a, fresh)
			x.NodeID = "no-such-node"
			ask(x)
		}
	case "ask.nilpolicy":
		if a, ok := needApp(); ok {
			x := goodAsk(a, fresh)
			x.PreemptionPolicy, x.AllocationTags = nil, nil
			ask(x)
			if aa := w.P.GetApplication(a); aa != nil && aa.GetAllocationAsk(fresh) != nil {
				w.sAsks[fresh] = &shimAsk{App: a, Key: fresh}
				w.sAskOps[fresh] = M{"op": "addAsk", "app": a, "key": fresh, "res": map[string]interface{}{"memory": 1}}
			}
		}
	case "ask.update.released":
		// an in place update for an allocation the core has released (e.g. together with its node): the shim no longer owns it
		if len(w.goneKeys) == 0 {
			line["skipped"] = "no released allocation"
			break
		}
		g := w.goneKeys[r%len(w.goneKeys)]
		// the class only exists while the core still holds the stale request (otherwise this is simply a new ask)
		if a := w.P.GetApplication(g[0]); a == nil || a.GetAllocationAsk(g[1]) == nil || !a.GetAllocationAsk(g[1]).IsAllocated() {
			line["skipped"] = "the released allocation has no stale request"
			break
		}
		x := goodAsk(g[0], g[1])
		x.ResourcePerAlloc = sires(map[string]int64{"memory": int64(r%3 + 1)})
		ask(x)
	case "foreign.nonode":
		line["key"] = fresh
		w.CC.VerifUpdateAllocations(&si.AllocationRequest{RmID: RmID, Allocations: []*si.Allocation{{AllocationKey: fresh, PartitionName: Part,
			ResourcePerAlloc: sires(map[string]int64{"memory": 1}), AllocationTags: map[string]string{siCommon.Foreign: siCommon.AllocTypeDefault}}}})
	case "foreign.unknownnode":
		line["key"] = fresh
		w.CC.VerifUpdateAllocations(&si.AllocationRequest{RmID: RmID, Allocations: []*si.Allocation{{AllocationKey: fresh, PartitionName: Part, NodeID: "no-such-node",
			ResourcePerAlloc: sires(map[string]int64{"memory": 1}), AllocationTags: map[string]string{siCommon.Foreign: siCommon.AllocTypeDefault}}}})
	case "foreign.move":
		fk := sortedKeys(w.sForeign)
		if len(fk) == 0 || len(nodes) < 2 {
			line["skipped"] = "needs a foreign allocation and two nodes"
			break
		}
		f := w.sForeign[fk[r%len(fk)]]
		other := ""
		for _, n := range nodes {
			if n != f.NodeID {
				other = n
				break
			}
		}
		line["key"], line["node"] = f.AllocationKey, other
		w.CC.VerifUpdateAllocations(&si.AllocationRequest{RmID: RmID, Allocations: []*si.Allocation{{AllocationKey: f.AllocationKey, PartitionName: Part, NodeID: other,
			ResourcePerAlloc: f.ResourcePerAlloc, AllocationTags: map[string]string{siCommon.Foreign: siCommon.AllocTypeDefault}}}})
	case "alloc.emptyrequest":
		w.CC.VerifUpdateAllocations(&si.AllocationRequest{RmID: RmID})
		w.CC.VerifUpdateAllocations(&si.AllocationRequest{RmID: RmID, Releases: &si.AllocationReleasesRequest{}})
	case "rel.unknownapp":
		rel(fresh, "k0", Part, si.TerminationType_STOPPED_BY_RM)
	case "rel.unknownkey":
		if a, ok := needApp(); ok {
			rel(a, fresh, Part, si.TerminationType_STOPPED_BY_RM)
		}
	case "rel.nopartition":
		if k := w.anyKey(r, nil); k != nil {
			rel(k.App, k.Key, "[rm]nope", si.TerminationType_STOPPED_BY_RM)
		} else {
			line["skipped"] = "no key"
		}
	case "rel.timeout.pending":
		if k := w.anyKey(r, func(a *shimAsk) bool { return a.Node == "" }); k != nil {
			rel(k.App, k.Key, Part, si.TerminationType_TIMEOUT)
		} else {
			line["skipped"] = "no outstanding ask"
		}
	case "rel.replaced.noswap", "rel.preempted.unmarked", "rel.unknownterm":
		if k := w.anyKey(r, func(a *shimAsk) bool { return a.Node != "" }); k != nil {
			tt := map[string]si.TerminationType{"rel.replaced.noswap": si.TerminationType_PLACEHOLDER_REPLACED, "rel.preempted.unmarked": si.TerminationType_PREEMPTED_BY_SCHEDULER,
				"rel.unknownterm": si.TerminationType(77)}[kind]
			rel(k.App, k.Key, Part, tt)
			// whatever the core made of it, the shim regards the key as gone
			delete(w.sAsks, k.Key)
		} else {
			line["skipped"] = "no bound allocation"
		}
	case "node.update.unknown":
		line["node"] = "no-such-node"
		w.CC.VerifProcessNodes(w.nodeReq("no-such-node", si.NodeInfo_UPDATE, map[string]int64{"memory": 5}))
	case "node.drain.unknown":
		line["node"] = "no-such-node"
		w.CC.VerifProcessNodes(w.nodeReq("no-such-node", si.NodeInfo_DRAIN_NODE, nil))
	case "node.remove.unknown":
		line["node"] = "no-such-node"
		w.CC.VerifProcessNodes(w.nodeReq("no-such-node", si.NodeInfo_DECOMISSION, nil))
	case "node.dup":
		if n, ok := needNode(); ok {
			line["node"] = n
			w.CC.VerifProcessNodes(w.nodeReq(n, si.NodeInfo_CREATE, map[string]int64{"memory": 9, "pods": 9}))
		}
	case "node.nopartition":
		if n, ok := needNode(); ok {
			line["node"] = n
			w.CC.VerifProcessNodes(&si.NodeRequest{RmID: RmID, Nodes: []*si.NodeInfo{{NodeID: n, Action: si.NodeInfo_UPDATE, SchedulableResource: sires(map[string]int64{"memory": 1})}}})
		}
	case "node.unknownaction":
		if n, ok := needNode(); ok {
			line["node"] = n
			w.CC.VerifProcessNodes(w.nodeReq(n, si.NodeInfo_ActionFromRM(99), map[string]int64{"memory": 1}))
		}
	case "node.emptyrequest":
		w.CC.VerifProcessNodes(&si.NodeRequest{RmID: RmID})
	case "node.nores":
		line["node"] = fresh
		w.CC.VerifProcessNodes(w.nodeReq(fresh, si.NodeInfo_CREATE, nil))
		if w.P.GetNode(fresh) != nil {
			w.sNodes[fresh] = w.nodeReq(fresh, 0, map[string]int64{}).Nodes[0]
		}
	}
}

func randBad(rng *rand.Rand) M {
	return M{"op": "bad", "kind": BadClasses[rng.Intn(len(BadClasses))].kind, "r": rng.Intn(1000)}
}
