package drive

import (
	"encoding/json"
	"time"

	"github.com/apache/yunikorn-core/pkg/scheduler"
	"github.com/apache/yunikorn-core/pkg/scheduler/objects"
)

// Gate replay (property C14): a TLC interleaving of spec/YKConc.tla is forced on the real code. One operation ("gated")
// runs in its own goroutine and is parked at a gate point compiled into the verif build; while it is parked the "during"
// operations run to completion; then the parked goroutine is released. Everything else is the sequential driver, so
// every line is validated by YKTrace.tla like any other trace.
type GateScenario struct {
	Name   string `json:"name"`
	Conf   string `json:"conf"`
	Setup  []M    `json:"setup"`
	Gated  M      `json:"gated"`
	Point  string `json:"point"`
	ID     string `json:"id"`
	During []M    `json:"during"`
	After  []M    `json:"after"`
}

func RunGateScenario(sc *GateScenario, r *Runner) error {
	if err := r.Step(M{"op": "reset", "conf": sc.Conf, "profile": "gate-" + sc.Name}); err != nil {
		return err
	}
	for _, op := range sc.Setup {
		if err := r.Step(op); err != nil {
			return err
		}
	}
	w := r.W
	reached := make(chan struct{}, 1)
	release := make(chan struct{})
	hit := false
	gate := func(point, id string) {
		if point == sc.Point && id == sc.ID && !hit {
			hit = true
			reached <- struct{}{}
			<-release
		}
	}
	objects.VerifSetGate(gate)
	scheduler.VerifSetGate(gate)
	defer objects.VerifSetGate(nil)
	defer scheduler.VerifSetGate(nil)
	done := make(chan M, 1)
	gop := cloneM(sc.Gated)
	go func() { done <- w.Apply(gop) }()
	parked := false
	select {
	case <-reached:
		parked = true
	case l := <-done:
		done <- l
	case <-time.After(10 * time.Second):
	}
	type pendingOp struct {
		line     M
		finished chan struct{}
	}
	var late []pendingOp
	if parked {
		// the parked goroutine holds locks of the core (the application lock inside a scheduling cycle): the "during"
		// operations are sent to the core but the state cannot be projected until the parked goroutine is released
		for _, op := range sc.During {
			line := cloneM(op)
			line["panic"], line["dpanic"], line["hang"], line["unsettled"], line["stale"] = "", 0, false, false, true
			finished := make(chan struct{})
			go func() {
				defer func() {
					if rec := recover(); rec != nil {
						line["panic"] = "panic in a during-operation"
					}
					close(finished)
				}()
				w.dispatch(op, line)
			}()
			select {
			case <-finished:
			case <-time.After(3 * time.Second):
				// the operation waits for a lock the parked goroutine holds: it will complete AFTER the gated operation,
				// so this is not the interleaving the scenario asks for; its line is written after the gated one
				line["blockedByParked"] = true
				late = append(late, pendingOp{line, finished})
				continue
			}
			line["msgs"], line["pred"] = w.H.Drain()
			line["state"] = w.lastState
			if err := r.emit(line); err != nil {
				return err
			}
		}
	}
	close(release)
	var line M
	select {
	case line = <-done:
		line["hang"] = false
	case <-time.After(20 * time.Second):
		line = cloneM(sc.Gated)
		line["panic"], line["hang"], line["dpanic"] = "", true, 0
		w.dead = true
	}
	// operations that could only run after the gated one: wait for them before looking at the state
	for _, lp := range late {
		select {
		case <-lp.finished:
		case <-time.After(20 * time.Second):
			lp.line["hang"] = true
			line["hang"] = true
		}
	}
	b, _ := json.Marshal(sc.Gated)
	line["gatedOp"] = string(b)
	line["op"] = "gated"
	line["point"], line["parked"] = sc.Point, parked
	during := []string{}
	for _, op := range sc.During {
		during = append(during, gs(op, "op"))
	}
	line["during"] = during
	line["lateOps"] = len(late)
	if !w.dead {
		w.settle()
		w.AfterStep(line)
	} else {
		line["msgs"], line["pred"], line["state"] = []M{}, []M{}, w.lastState
	}
	if err := r.emit(line); err != nil {
		return err
	}
	for _, lp := range late {
		lp.line["msgs"], lp.line["pred"], lp.line["state"] = []M{}, []M{}, w.lastState
		if err := r.emit(lp.line); err != nil {
			return err
		}
	}
	for _, op := range sc.After {
		if err := r.Step(op); err != nil {
			return err
		}
	}
	return r.Finish()
}
