// Package drive is the conformance harness for the TLA+ specification under /verif/spec: a synchronous,
// single goroutine driver of the real yunikorn-core ClusterContext that applies one environment operation
// at a time, records the SI messages the core emitted and projects the core's abstract state after each step.
package drive

import (
	"fmt"
	"sync"
	"sync/atomic"

	"go.uber.org/zap"
	"go.uber.org/zap/zapcore"

	"github.com/apache/yunikorn-core/pkg/log"
	"github.com/apache/yunikorn-core/pkg/rmproxy/rmevent"
	"github.com/apache/yunikorn-scheduler-interface/lib/go/si"
)

// M is a JSON object.
type M = map[string]interface{}

// dpanicCore counts log entries at DPanic level or above without ever panicking (production logger behaviour).
type dpanicCore struct{ n *atomic.Int64 }

func (c dpanicCore) Enabled(l zapcore.Level) bool      { return l >= zapcore.DPanicLevel }
func (c dpanicCore) With([]zapcore.Field) zapcore.Core { return c }
func (c dpanicCore) Check(e zapcore.Entry, ce *zapcore.CheckedEntry) *zapcore.CheckedEntry {
	if c.Enabled(e.Level) {
		return ce.AddCore(e, c)
	}
	return ce
}
func (c dpanicCore) Write(e zapcore.Entry, _ []zapcore.Field) error {
	c.n.Add(1)
	if len(lastDPanic) < 8 {
		lastDPanic = append(lastDPanic, e.Message)
	}
	return nil
}
func (c dpanicCore) Sync() error { return nil }

var dpanics atomic.Int64
var lastDPanic []string
var logOnce sync.Once

// InitLogger installs a production-mode logger that discards everything and counts DPanic entries.
// The default development logger turns DPanic into a real panic, which a deployed core never does.
func InitLogger() {
	logOnce.Do(func() {
		l := zap.New(dpanicCore{n: &dpanics})
		log.InitializeLogger(l, &zap.Config{Level: zap.NewAtomicLevelAt(zapcore.DPanicLevel)})
	})
}

// Shim plays the resource manager: it is the core's event handler and its scheduler plugin.
type Shim struct {
	sync.Mutex
	msgs []M
	deny map[string]bool // key@node -> predicate denies allocation there
	pred []M
	// number of terminated-application callbacks the core must have started (one per Completed/Failed state change)
	termExpected atomic.Int64
}

func NewShim() *Shim { return &Shim{deny: map[string]bool{}} }

func (h *Shim) add(m M) { h.Lock(); h.msgs = append(h.msgs, m); h.Unlock() }

// Drain returns and clears the messages and predicate denials recorded since the last call.
func (h *Shim) Drain() ([]M, []M) {
	h.Lock()
	defer h.Unlock()
	m, p := h.msgs, h.pred
	h.msgs, h.pred = nil, nil
	if m == nil {
		m = []M{}
	}
	if p == nil {
		p = []M{}
	}
	return m, p
}

func (h *Shim) Peek() []M {
	h.Lock()
	defer h.Unlock()
	return append([]M{}, h.msgs...)
}

func (h *Shim) SetDeny(key, node string, on bool) {
	h.Lock()
	defer h.Unlock()
	if on {
		h.deny[key+"@"+node] = true
	} else {
		delete(h.deny, key+"@"+node)
	}
}

func (h *Shim) HandleEvent(ev interface{}) {
	switch v := ev.(type) {
	case *rmevent.RMNewAllocationsEvent:
		for _, a := range v.Allocations {
			h.add(M{"t": "alloc", "key": a.AllocationKey, "app": a.ApplicationID, "node": a.NodeID, "res": siResMap(a.ResourcePerAlloc), "ph": a.Placeholder})
		}
		go func() { v.Channel <- &rmevent.Result{Succeeded: true} }()
	case *rmevent.RMReleaseAllocationEvent:
		for _, a := range v.ReleasedAllocations {
			h.add(M{"t": "release", "key": a.AllocationKey, "app": a.ApplicationID, "term": a.TerminationType.String()})
		}
		go func() { v.Channel <- &rmevent.Result{Succeeded: true} }()
	case *rmevent.RMApplicationUpdateEvent:
		for _, a := range v.AcceptedApplications {
			h.add(M{"t": "appAccepted", "app": a.ApplicationID})
		}
		for _, a := range v.RejectedApplications {
			h.add(M{"t": "appRejected", "app": a.ApplicationID, "reason": a.Reason})
		}
		for _, a := range v.UpdatedApplications {
			h.add(M{"t": "appState", "app": a.ApplicationID, "state": a.State})
			if a.State == "Completed" || a.State == "Failed" {
				h.termExpected.Add(1)
			}
		}
	case *rmevent.RMNodeUpdateEvent:
		for _, a := range v.AcceptedNodes {
			h.add(M{"t": "nodeAccepted", "node": a.NodeID})
		}
		for _, a := range v.RejectedNodes {
			h.add(M{"t": "nodeRejected", "node": a.NodeID})
		}
	case *rmevent.RMRejectedAllocationEvent:
		for _, a := range v.RejectedAllocations {
			h.add(M{"t": "allocRejected", "key": a.AllocationKey, "app": a.ApplicationID})
		}
	}
}

func siResMap(r *si.Resource) map[string]int64 {
	out := map[string]int64{}
	if r == nil {
		return out
	}
	for k, v := range r.Resources {
		if v != nil {
			out[k] = v.Value
		}
	}
	return out
}

// ResourceManagerCallback
func (h *Shim) UpdateAllocation(*si.AllocationResponse) error   { return nil }
func (h *Shim) UpdateApplication(*si.ApplicationResponse) error { return nil }
func (h *Shim) UpdateNode(*si.NodeResponse) error               { return nil }
func (h *Shim) Predicates(a *si.PredicatesArgs) error {
	h.Lock()
	defer h.Unlock()
	if h.deny[a.AllocationKey+"@"+a.NodeID] {
		h.pred = append(h.pred, M{"key": a.AllocationKey, "node": a.NodeID, "allocate": a.Allocate})
		return fmt.Errorf("denied")
	}
	return nil
}
func (h *Shim) PreemptionPredicates(a *si.PreemptionPredicatesArgs) *si.PreemptionPredicatesResponse {
	return &si.PreemptionPredicatesResponse{Success: true, Index: a.StartIndex}
}
func (h *Shim) SendEvent([]*si.EventRecord)                                              {}
func (h *Shim) UpdateContainerSchedulingState(*si.UpdateContainerSchedulingStateRequest) {}
