package drive

import (
	"fmt"
	"math/rand"
)

// Gen is the seeded workload generator. It depends only on its own history (never on the core's state) so that a
// seed fixes the operation sequence; operations that refer to scheduler choices are index based ("confirm i").

type askInfo struct {
	app, key string
	ph       bool
}

type Profile struct {
	Name    string
	Conf    string
	Confs   []string // alternatives for the initial configuration, one is picked per trace (Conf when empty)
	Reloads []string
	Queues  []string
	Apps    int
	Nodes   int
	Users   []string
	Groups  [][]string
	// weights
	W map[string]int
	// tuning
	GangPct   int // % of addApp that are gang applications
	ReqNode   int // 1 in N asks names a required node (0 = never)
	MaxPrio   int
	NodeMem   [2]int // capacity range memory [lo, hi]
	AskMem    int    // asks memory 1..AskMem
	ForcedPct int
	AgedPct   int // % of asks created "one hour ago" (default 50)
	NodeSort  string
	// BindExisting: reportBound also names asks submitted earlier (the shim reports them bound elsewhere, possibly resized)
	BindExisting bool
}

var baseW = map[string]int{"addNode": 6, "removeNode": 3, "drain": 1, "undrain": 1, "updateNode": 1, "foreign": 2, "foreignRemove": 1, "addApp": 7, "removeApp": 2,
	"addAsk": 20, "release": 8, "releaseAll": 1, "confirm": 9, "firePhTimer": 2, "fireStateTimer": 3, "deny": 2, "reportBound": 1, "updateAsk": 1, "schedule": 31}

func withW(over map[string]int) map[string]int {
	out := map[string]int{}
	for k, v := range baseW {
		out[k] = v
	}
	for k, v := range over {
		out[k] = v
	}
	return out
}

func GetProfile(name string) *Profile {
	u2 := []string{"u0", "u1"}
	g := [][]string{{"g1"}, {"g2", "g1"}, {}}
	switch name {
	case "core":
		return &Profile{Name: name, Conf: "base", Queues: []string{"root.a", "root.p.x", "root.p.y"}, Apps: 4, Nodes: 3, Users: u2, Groups: g, W: withW(nil),
			GangPct: 30, ReqNode: 12, MaxPrio: 3, NodeMem: [2]int{2, 5}, AskMem: 3}
	case "capacity":
		return &Profile{Name: name, Conf: "C", Queues: []string{"root.a", "root.p.x", "root.q"}, Apps: 4, Nodes: 3, Users: u2, Groups: g,
			W:       withW(map[string]int{"drain": 3, "undrain": 3, "updateNode": 4, "foreign": 6, "foreignRemove": 3, "deny": 4, "reportBound": 3, "updateAsk": 3}),
			GangPct: 15, ReqNode: 6, MaxPrio: 2, NodeMem: [2]int{2, 4}, AskMem: 3}
	case "extbind": // the capacity profile plus external placement of asks the core already knows (judged for reservations only)
		p := GetProfile("capacity")
		p.Name, p.BindExisting = name, true
		p.W = withW(map[string]int{"drain": 3, "undrain": 3, "updateNode": 2, "foreign": 4, "foreignRemove": 3, "deny": 4, "reportBound": 8, "updateAsk": 1, "addAsk": 26})
		return p
	case "gang":
		return &Profile{Name: name, Conf: "base", Confs: []string{"base", "base", "D"}, Queues: []string{"root.a", "root.p.x", "root.p.y"}, Apps: 3, Nodes: 3, Users: u2, Groups: g,
			W:       withW(map[string]int{"firePhTimer": 5, "fireStateTimer": 4, "deny": 5, "confirm": 14, "removeNode": 4, "foreign": 0, "foreignRemove": 0, "updateNode": 0, "reportBound": 0, "updateAsk": 0}),
			GangPct: 80, ReqNode: 0, MaxPrio: 2, NodeMem: [2]int{3, 6}, AskMem: 3}
	case "reserve":
		return &Profile{Name: name, Conf: "C", Queues: []string{"root.a", "root.p.x", "root.p.y", "root.q"}, Apps: 4, Nodes: 3, Users: u2, Groups: g,
			W:       withW(map[string]int{"drain": 2, "undrain": 2, "deny": 3, "addAsk": 24, "release": 10}),
			GangPct: 10, ReqNode: 5, MaxPrio: 3, NodeMem: [2]int{2, 4}, AskMem: 4}
	case "reload":
		return &Profile{Name: name, Conf: "base", Confs: []string{"base", "base", "baseCase"}, Reloads: []string{"base", "B", "C", "D", "bad", "bad2", "bad3", "BCase", "CCase"}, Queues: []string{"root.a", "root.p.x", "root.p.y", "root.p.w", "root.q"}, Apps: 4, Nodes: 3, Users: u2, Groups: g,
			W:       withW(map[string]int{"reload": 6, "cleanQueues": 3}),
			GangPct: 15, ReqNode: 0, MaxPrio: 2, NodeMem: [2]int{2, 5}, AskMem: 3}
	case "preempt":
		return &Profile{Name: name, Conf: "pre", Confs: []string{"pre", "pre", "pre4"}, Queues: []string{"root.p.x", "root.p.y", "root.p.z", "root.f.u", "root.f.v", "root.nop"}, Apps: 6, Nodes: 3, Users: u2, Groups: g,
			W:       withW(map[string]int{"firePhTimer": 0, "deny": 0, "foreign": 1, "foreignRemove": 1, "addAsk": 30, "release": 3, "removeNode": 1, "removeApp": 1, "addNode": 8, "schedule": 45, "confirm": 12, "reportBound": 0, "updateAsk": 0}),
			GangPct: 0, ReqNode: 10, MaxPrio: 4, NodeMem: [2]int{3, 6}, AskMem: 3, AgedPct: 80}
	case "preempt2":
		return &Profile{Name: name, Conf: "pre2", Confs: []string{"pre2", "pre3"}, Queues: []string{"root.p.x", "root.p.y", "root.q", "root.r.s", "root.r.t"}, Apps: 6, Nodes: 3, Users: u2, Groups: g,
			W:       withW(map[string]int{"firePhTimer": 0, "deny": 0, "foreign": 1, "foreignRemove": 1, "addAsk": 30, "release": 3, "removeNode": 1, "removeApp": 1, "addNode": 8, "schedule": 45, "confirm": 12, "reportBound": 0, "updateAsk": 0}),
			GangPct: 0, ReqNode: 14, MaxPrio: 4, NodeMem: [2]int{3, 6}, AskMem: 3, AgedPct: 80}
	case "quota":
		return &Profile{Name: name, Conf: "quota", Reloads: []string{"quota", "quotaLow"}, Queues: []string{"root.a", "root.p.x", "root.p.y"}, Apps: 4, Nodes: 3, Users: u2, Groups: g,
			W:       withW(map[string]int{"reload": 5, "quotaTick": 6, "firePhTimer": 0, "deny": 0, "confirm": 12, "reportBound": 2}),
			GangPct: 0, ReqNode: 0, MaxPrio: 3, NodeMem: [2]int{4, 7}, AskMem: 3}
	case "limits":
		return &Profile{Name: name, Conf: "limits", Reloads: []string{"limits", "limits2"}, Queues: []string{"root.a", "root.p.x", "root.p.y"}, Apps: 5, Nodes: 3, Users: u2, Groups: g,
			W:       withW(map[string]int{"reload": 3, "addApp": 9, "removeApp": 3}),
			GangPct: 15, ReqNode: 0, MaxPrio: 2, NodeMem: [2]int{4, 8}, AskMem: 3}
	case "restart":
		return &Profile{Name: name, Conf: "C", Queues: []string{"root.a", "root.p.x", "root.p.y", "root.q"}, Apps: 4, Nodes: 3, Users: u2, Groups: g,
			W:       withW(map[string]int{"restart": 4, "foreign": 4, "foreignRemove": 1, "reportBound": 1, "updateAsk": 0, "removeNode": 2, "confirm": 14}),
			GangPct: 25, ReqNode: 12, MaxPrio: 3, NodeMem: [2]int{3, 6}, AskMem: 3}
	case "bad":
		return &Profile{Name: name, Conf: "base", Queues: []string{"root.a", "root.p.x", "root.p.y"}, Apps: 4, Nodes: 3, Users: u2, Groups: g,
			W:       withW(map[string]int{"bad": 30, "foreign": 4, "foreignRemove": 1, "reportBound": 2, "removeNode": 4}),
			GangPct: 25, ReqNode: 10, MaxPrio: 3, NodeMem: [2]int{3, 6}, AskMem: 3}
	case "dyn":
		return &Profile{Name: name, Conf: "dyn", Confs: []string{"dyn", "dyn2"}, Queues: []string{"root.a", "root.d.u0", "root.d.u1", "root.e.k", "root.e.m", "", "root.zz.y"}, Apps: 5, Nodes: 3, Users: u2, Groups: g,
			W:       withW(map[string]int{"cleanQueues": 4, "addApp": 9, "removeApp": 4}),
			GangPct: 10, ReqNode: 0, MaxPrio: 2, NodeMem: [2]int{3, 6}, AskMem: 3}
	}
	panic("unknown profile " + name)
}

type Gen struct {
	P       *Profile
	rng     *rand.Rand
	nextKey int
	keys    []askInfo
	gang    map[string]bool
	live    map[string]bool // applications the generator believes are live (submitted, not removed)
	tot     int
	names   []string
	conf    string // the configuration First() picked for this trace
}

var opOrder = []string{"addNode", "removeNode", "drain", "undrain", "updateNode", "foreign", "foreignRemove", "addApp", "removeApp", "addAsk", "release", "releaseAll", "confirm",
	"firePhTimer", "fireStateTimer", "deny", "reportBound", "updateAsk", "reload", "cleanQueues", "quotaTick", "restart", "bad", "schedule"}

func NewGen(p *Profile, seed int64) *Gen {
	g := &Gen{P: p, rng: rand.New(rand.NewSource(seed)), gang: map[string]bool{}, live: map[string]bool{}}
	for _, n := range opOrder {
		if p.W[n] > 0 {
			g.names = append(g.names, n)
			g.tot += p.W[n]
		}
	}
	return g
}

func (g *Gen) pick() string {
	c := g.rng.Intn(g.tot)
	for _, n := range g.names {
		if c < g.P.W[n] {
			return n
		}
		c -= g.P.W[n]
	}
	return "schedule"
}

func (g *Gen) agedPct() int {
	if g.P.AgedPct > 0 {
		return g.P.AgedPct
	}
	return 50
}

func (g *Gen) node() string { return fmt.Sprintf("n%d", g.rng.Intn(g.P.Nodes)) }
func (g *Gen) app() string  { return fmt.Sprintf("app%d", g.rng.Intn(g.P.Apps)) }

// liveApp prefers an application that was submitted and not removed (the request is then usually meaningful)
func (g *Gen) liveApp() string {
	if len(g.live) > 0 && g.rng.Intn(10) != 0 {
		ids := make([]string, 0, len(g.live))
		for i := 0; i < g.P.Apps; i++ {
			if id := fmt.Sprintf("app%d", i); g.live[id] {
				ids = append(ids, id)
			}
		}
		return ids[g.rng.Intn(len(ids))]
	}
	return g.app()
}
func (g *Gen) cap() map[string]int64 {
	return map[string]int64{"memory": int64(g.P.NodeMem[0] + g.rng.Intn(g.P.NodeMem[1]-g.P.NodeMem[0]+1)), "pods": int64(g.rng.Intn(3) + 1)}
}

// First returns the reset line of a trace.
func (g *Gen) First() M {
	conf := g.P.Conf
	if len(g.P.Confs) > 0 {
		conf = g.P.Confs[g.rng.Intn(len(g.P.Confs))]
	}
	g.conf = conf
	return M{"op": "reset", "conf": conf, "profile": g.P.Name}
}

// Prologue returns scripted operations that bring a trace quickly into the regime the profile is about (for the
// preemption profiles: full nodes held by applications in queues without guarantee, then aged asks in guaranteed queues).
func (g *Gen) Prologue() []M {
	switch g.P.Name {
	case "preempt", "preempt2":
		return g.preemptPrologue()
	case "gang":
		switch g.rng.Intn(6) {
		case 0:
			return g.twoSwapPrologue()
		case 1, 2, 3:
			return g.gangPrologue()
		}
	case "limits":
		switch g.rng.Intn(3) {
		case 0:
			return g.pressurePrologue()
		case 1:
			return g.quotaPrologue()
		}
	case "quota":
		if g.rng.Intn(3) != 0 {
			return g.quotaChangePrologue()
		}
	case "reserve", "capacity", "restart":
		if g.rng.Intn(2) == 0 {
			return g.pressurePrologue()
		}
	}
	return nil
}

func (g *Gen) mkAsk(ops *[]M, app string, res map[string]int64, prio int, aged bool, ph bool, tg string, reqNode string) string {
	key := fmt.Sprintf("k%d", g.nextKey)
	g.nextKey++
	*ops = append(*ops, M{"op": "addAsk", "app": app, "key": key, "res": res, "ph": ph, "tg": tg, "aged": aged, "reqNode": reqNode,
		"prio": prio, "preemptOther": true, "preemptSelf": true, "originator": false, "node": ""})
	g.keys = append(g.keys, askInfo{app, key, ph})
	return key
}

func (g *Gen) mkApp(ops *[]M, app, queue string, gang bool) {
	op := M{"op": "addApp", "app": app, "queue": queue, "user": g.P.Users[g.rng.Intn(len(g.P.Users))], "groups": g.P.Groups[g.rng.Intn(len(g.P.Groups))],
		"gang": gang, "style": "", "forced": false, "tags": map[string]string{}}
	if gang {
		op["phAsk"], op["style"] = map[string]int64{"memory": int64(2 + 2*g.rng.Intn(2))}, []string{"Soft", "Hard"}[g.rng.Intn(2)]
	}
	g.gang[app] = gang
	g.live[app] = true
	*ops = append(*ops, op)
}

func (g *Gen) sched(ops *[]M, n int) {
	for i := 0; i < n; i++ {
		*ops = append(*ops, M{"op": "schedule"})
	}
}

// gangPrologue: the placeholder swap regime. Placeholders of one task group are allocated, then real tasks of the group
// arrive that are smaller / equal / carry a resource type the placeholder lacks, some of them cannot use the placeholder's
// node (predicate failure), so swaps happen in place and across nodes; what follows (confirmations in any order, node
// removal, timers, releases) is left to the random part.
func (g *Gen) gangPrologue() []M {
	rng := g.rng
	var ops []M
	for n := 0; n < g.P.Nodes; n++ {
		ops = append(ops, M{"op": "addNode", "node": fmt.Sprintf("n%d", n), "cap": map[string]int64{"memory": int64(3 + rng.Intn(4)), "pods": int64(1 + rng.Intn(2))}, "drained": false})
	}
	if rng.Intn(2) == 0 { // somebody else holds pods / memory
		g.mkApp(&ops, "app2", g.P.Queues[rng.Intn(len(g.P.Queues))], false)
		for j := 0; j < 1+rng.Intn(3); j++ {
			g.mkAsk(&ops, "app2", map[string]int64{"memory": 1, "pods": 1}, 0, false, false, "", "")
		}
		g.sched(&ops, 3)
	}
	// cross: the real tasks are refused (predicates) on all nodes but one, so the swap has to go to another node
	// whenever no placeholder sits on that node
	cross := rng.Intn(2) == 0
	nph := 2 + rng.Intn(2)
	if cross {
		nph = 1 + rng.Intn(2)
	}
	g.mkApp(&ops, "app0", g.P.Queues[rng.Intn(len(g.P.Queues))], true)
	for j := 0; j < nph; j++ {
		g.mkAsk(&ops, "app0", map[string]int64{"memory": 2}, 0, false, true, "tg", "")
	}
	g.sched(&ops, 3+rng.Intn(2))
	var reals []string
	for j := 0; j < 1+rng.Intn(3); j++ {
		rs := map[string]int64{"memory": int64(1 + rng.Intn(2))}
		switch rng.Intn(5) {
		case 0, 1:
			rs["pods"] = 1
		case 2:
			rs["gpu"] = 1 // a resource type no node provides
		}
		reals = append(reals, g.mkAsk(&ops, "app0", rs, 0, rng.Intn(2) == 0, false, "tg", ""))
	}
	keep := -1
	for _, k := range reals {
		if cross {
			keep = rng.Intn(g.P.Nodes)
			for n := 0; n < g.P.Nodes; n++ {
				if n != keep {
					ops = append(ops, M{"op": "deny", "key": k, "node": fmt.Sprintf("n%d", n)})
				}
			}
			continue
		}
		for rng.Intn(2) == 0 {
			ops = append(ops, M{"op": "deny", "key": k, "node": g.node()})
		}
	}
	g.sched(&ops, 1+rng.Intn(3))
	// something happens while swaps may be in flight (before the shim has confirmed anything)
	switch rng.Intn(11) {
	case 0, 8:
		// a node other than the one the last real task was steered to: likely one that holds a placeholder
		n := rng.Intn(g.P.Nodes)
		if n == keep {
			n = (n + 1) % g.P.Nodes
		}
		ops = append(ops, M{"op": "removeNode", "node": fmt.Sprintf("n%d", n)})
	case 1:
		ops = append(ops, M{"op": "removeApp", "app": "app0"})
		delete(g.live, "app0")
	case 2:
		ops = append(ops, M{"op": "releaseAll", "app": "app0"})
	case 3:
		ki := g.keys[rng.Intn(len(g.keys))]
		ops = append(ops, M{"op": "release", "app": ki.app, "key": ki.key, "term": "STOPPED_BY_RM"})
	case 4:
		ops = append(ops, M{"op": "firePhTimer", "app": "app0"})
	case 5:
		ops = append(ops, M{"op": "drain", "node": g.node()})
	case 6, 7:
		// one swap is confirmed, the next one decided, then a real task that already runs finishes while that swap is in flight
		ops = append(ops, M{"op": "confirm", "i": 0, "keep": false})
		g.sched(&ops, 1+rng.Intn(2))
		ops = append(ops, M{"op": "release", "app": "app0", "key": reals[rng.Intn(len(reals))], "term": "STOPPED_BY_RM"})
		ops = append(ops, M{"op": "confirm", "i": 0, "keep": false})
	}
	return ops
}

// twoSwapPrologue: two placeholders, the first one replaced and confirmed, the second replacement decided; then the real task
// that already runs finishes (or something else happens) while the second replacement is still waiting for its confirmation.
func (g *Gen) twoSwapPrologue() []M {
	rng := g.rng
	var ops []M
	for n := 0; n < g.P.Nodes; n++ {
		ops = append(ops, M{"op": "addNode", "node": fmt.Sprintf("n%d", n), "cap": map[string]int64{"memory": int64(4 + rng.Intn(3)), "pods": 3}, "drained": false})
	}
	g.mkApp(&ops, "app0", g.P.Queues[rng.Intn(len(g.P.Queues))], true)
	ops[len(ops)-1]["phAsk"] = map[string]int64{"memory": 4}
	g.mkAsk(&ops, "app0", map[string]int64{"memory": 2}, 0, false, true, "tg", "")
	g.mkAsk(&ops, "app0", map[string]int64{"memory": 2}, 0, false, true, "tg", "")
	third := rng.Intn(2) == 0 // a placeholder that stays unused
	if third {
		ops[len(ops)-3]["phAsk"] = map[string]int64{"memory": 6}
		g.mkAsk(&ops, "app0", map[string]int64{"memory": 2}, 0, false, true, "tg", "")
	}
	g.sched(&ops, 4)
	r1 := g.mkAsk(&ops, "app0", map[string]int64{"memory": int64(1 + rng.Intn(2))}, 0, false, false, "tg", "")
	g.sched(&ops, 2)
	ops = append(ops, M{"op": "confirm", "i": 0, "keep": false})
	g.mkAsk(&ops, "app0", map[string]int64{"memory": int64(1 + rng.Intn(2))}, 0, false, false, "tg", "")
	g.sched(&ops, 2)
	switch rng.Intn(4) {
	case 0:
		ops = append(ops, M{"op": "removeNode", "node": g.node()})
	case 1:
		ops = append(ops, M{"op": "firePhTimer", "app": "app0"})
	default:
		ops = append(ops, M{"op": "release", "app": "app0", "key": r1, "term": "STOPPED_BY_RM"})
		if rng.Intn(2) == 0 { // the completing timeout passes before the shim confirms the second replacement
			ops = append(ops, M{"op": "fireStateTimer", "app": "app0"})
			if third {
				ops = append(ops, M{"op": "confirm", "i": 1, "keep": false})
			}
		}
	}
	ops = append(ops, M{"op": "confirm", "i": 0, "keep": false})
	g.sched(&ops, 1)
	return ops
}

// pressurePrologue: full, fragmented nodes and waiting requests. Small allocations of several applications fill the
// nodes, aged larger requests get reserved, further small requests eat the space (and the user's quota headroom) that was
// left, a required-node request may land on a reserved node, then something is released so that room appears on a node
// that is or is not the reserved one.
func (g *Gen) pressurePrologue() []M {
	rng := g.rng
	var ops []M
	for n := 0; n < g.P.Nodes; n++ {
		ops = append(ops, M{"op": "addNode", "node": fmt.Sprintf("n%d", n), "cap": map[string]int64{"memory": int64(2 + rng.Intn(3)), "pods": int64(2 + rng.Intn(3))}, "drained": false})
	}
	napps := 3
	var first []string
	for i := 0; i < napps; i++ {
		app := fmt.Sprintf("app%d", i)
		g.mkApp(&ops, app, g.P.Queues[rng.Intn(len(g.P.Queues))], false)
		for j := 0; j < 1+rng.Intn(3); j++ {
			first = append(first, g.mkAsk(&ops, app, map[string]int64{"memory": int64(1 + rng.Intn(2))}, rng.Intn(2), false, false, "", ""))
		}
	}
	g.sched(&ops, 5)
	for j := 0; j < 2+rng.Intn(2); j++ {
		g.mkAsk(&ops, fmt.Sprintf("app%d", rng.Intn(napps)), map[string]int64{"memory": int64(2 + rng.Intn(3))}, rng.Intn(3), true, false, "", "")
	}
	g.sched(&ops, 3)
	for j := 0; j < 1+rng.Intn(3); j++ {
		req := ""
		if rng.Intn(3) == 0 {
			req = g.node()
		}
		g.mkAsk(&ops, fmt.Sprintf("app%d", rng.Intn(napps)), map[string]int64{"memory": 1}, rng.Intn(3), true, false, "", req)
	}
	g.sched(&ops, 2)
	for j := 0; j < 1+rng.Intn(2); j++ {
		k := first[rng.Intn(len(first))]
		for _, ki := range g.keys {
			if ki.key == k {
				ops = append(ops, M{"op": "release", "app": ki.app, "key": k, "term": "STOPPED_BY_RM"})
			}
		}
	}
	g.sched(&ops, 2)
	return ops
}

// quotaPrologue: one user close to a limit on nodes that are nearly full with pods the scheduler does not manage. A larger
// aged request of the user gets reserved, small requests of the same user (same or another application) use up what is
// left of the nodes and of the user's quota, then one of the foreign pods goes away so that room appears on some node while
// the user's usage stays where it is.
func (g *Gen) quotaPrologue() []M {
	rng := g.rng
	var ops []M
	nn := 2 + rng.Intn(g.P.Nodes-1)
	for n := 0; n < nn; n++ {
		c := 4 + rng.Intn(2)
		ops = append(ops, M{"op": "addNode", "node": fmt.Sprintf("n%d", n), "cap": map[string]int64{"memory": int64(c), "pods": 4}, "drained": false})
		ops = append(ops, M{"op": "foreign", "node": fmt.Sprintf("n%d", n), "key": fmt.Sprintf("f%d", n), "res": map[string]int64{"memory": int64(c - 1 - rng.Intn(2))}})
	}
	user := g.P.Users[rng.Intn(len(g.P.Users))]
	groups := g.P.Groups[rng.Intn(len(g.P.Groups))]
	q := g.P.Queues[rng.Intn(len(g.P.Queues))]
	app := func(id string) {
		if rng.Intn(3) == 0 {
			q = g.P.Queues[rng.Intn(len(g.P.Queues))]
		}
		ops = append(ops, M{"op": "addApp", "app": id, "queue": q, "user": user, "groups": groups, "gang": false, "style": "", "forced": false, "tags": map[string]string{}})
		g.gang[id], g.live[id] = false, true
	}
	app("app0")
	app("app1")
	g.mkAsk(&ops, "app1", map[string]int64{"memory": int64(2 + rng.Intn(2))}, 0, true, false, "", "")
	g.sched(&ops, 2)
	for j := 0; j < 1+rng.Intn(3); j++ {
		g.mkAsk(&ops, fmt.Sprintf("app%d", rng.Intn(2)), map[string]int64{"memory": 1}, 0, true, false, "", "")
	}
	g.sched(&ops, 3)
	ops = append(ops, M{"op": "foreignRemove", "key": fmt.Sprintf("f%d", rng.Intn(nn))})
	g.sched(&ops, 2)
	return ops
}

// quotaBoundPrologue (configuration pre4): big nodes, so the parent's maximum is what runs out. Victim applications in
// root.p.y (guaranteed in two resource types) and root.p.z (no guarantee) fill the parent's quota with allocations that use
// memory and pods, then an application in the guaranteed queue root.p.x asks for memory only: the ask fits the nodes but
// not the parent, so victims have to be found by quota rather than by node.
func (g *Gen) quotaBoundPrologue() []M {
	rng := g.rng
	var ops []M
	for n := 0; n < g.P.Nodes; n++ {
		ops = append(ops, M{"op": "addNode", "node": fmt.Sprintf("n%d", n), "cap": map[string]int64{"memory": 8, "pods": 6}, "drained": false})
	}
	for i, q := range []string{"root.p.y", "root.p.z"} {
		app := fmt.Sprintf("app%d", i)
		g.mkApp(&ops, app, q, false)
		for j := 0; j < 3+rng.Intn(3); j++ {
			rs := map[string]int64{"memory": int64(1 + rng.Intn(2))}
			if rng.Intn(3) != 0 {
				rs["pods"] = 1
			}
			g.mkAsk(&ops, app, rs, rng.Intn(2), false, false, "", "")
		}
	}
	g.sched(&ops, 12)
	g.mkApp(&ops, "app2", "root.p.x", false)
	for j := 0; j < 1+rng.Intn(3); j++ {
		g.mkAsk(&ops, "app2", map[string]int64{"memory": int64(1 + rng.Intn(2))}, 1+rng.Intn(3), true, false, "", "")
	}
	return ops
}

// quotaChangePrologue: several applications fill a queue, then its maximum is lowered by a reload and the quota tick runs -
// once, or a second time (after another reload or not) while the victims of the first run are still waiting for the shim.
func (g *Gen) quotaChangePrologue() []M {
	rng := g.rng
	var ops []M
	for n := 0; n < g.P.Nodes; n++ {
		ops = append(ops, M{"op": "addNode", "node": fmt.Sprintf("n%d", n), "cap": map[string]int64{"memory": int64(5 + rng.Intn(3)), "pods": 6}, "drained": false})
	}
	queues := []string{"root.a", "root.p.x", "root.p.y"}
	napps := 2 + rng.Intn(2)
	for i := 0; i < napps; i++ {
		app := fmt.Sprintf("app%d", i)
		q := queues[rng.Intn(len(queues))]
		if i == 1 && rng.Intn(2) == 0 { // two applications in one leaf
			q = gs(ops[len(ops)-1-0], "queue")
			for j := len(ops) - 1; j >= 0; j-- {
				if gs(ops[j], "op") == "addApp" {
					q = gs(ops[j], "queue")
					break
				}
			}
		}
		g.mkApp(&ops, app, q, false)
		for j := 0; j < 2+rng.Intn(3); j++ {
			g.mkAsk(&ops, app, map[string]int64{"memory": int64(1 + rng.Intn(2))}, rng.Intn(3), false, false, "", "")
		}
	}
	g.sched(&ops, 10)
	ops = append(ops, M{"op": "reload", "conf": "quotaLow"})
	ops = append(ops, M{"op": "quotaTick"})
	switch rng.Intn(3) {
	case 0:
		ops = append(ops, M{"op": "quotaTick"})
	case 1:
		ops = append(ops, M{"op": "confirm", "i": 0, "keep": false}, M{"op": "quotaTick"})
	}
	return ops
}

func (g *Gen) preemptPrologue() []M {
	if g.conf == "pre4" {
		return g.quotaBoundPrologue()
	}
	rng := g.rng
	var ops []M
	for n := 0; n < g.P.Nodes; n++ {
		ops = append(ops, M{"op": "addNode", "node": fmt.Sprintf("n%d", n), "cap": g.cap(), "drained": false})
	}
	// the last queues of the profile have no guarantee: victims live there; the first ones are guaranteed: askers
	nq := len(g.P.Queues)
	ask := func(app string, mem int, prio int, aged bool) {
		key := fmt.Sprintf("k%d", g.nextKey)
		g.nextKey++
		ops = append(ops, M{"op": "addAsk", "app": app, "key": key, "res": map[string]int64{"memory": int64(mem)}, "ph": false, "tg": "", "aged": aged, "reqNode": "",
			"prio": prio, "preemptOther": true, "preemptSelf": true, "originator": false, "node": ""})
		g.keys = append(g.keys, askInfo{app, key, false})
	}
	for i := 0; i < 3; i++ {
		app := fmt.Sprintf("app%d", i)
		q := g.P.Queues[nq-1-rng.Intn(3)]
		ops = append(ops, M{"op": "addApp", "app": app, "queue": q, "user": g.P.Users[rng.Intn(len(g.P.Users))], "groups": []string{"g1"}, "gang": false, "style": "", "forced": false, "tags": map[string]string{}})
		g.live[app] = true
		for j := 0; j < 4+rng.Intn(4); j++ {
			ask(app, 1+rng.Intn(2), rng.Intn(2), false)
		}
	}
	for i := 0; i < 14; i++ {
		ops = append(ops, M{"op": "schedule"})
	}
	for i := 3; i < 5; i++ {
		app := fmt.Sprintf("app%d", i)
		q := g.P.Queues[rng.Intn(2)]
		ops = append(ops, M{"op": "addApp", "app": app, "queue": q, "user": g.P.Users[rng.Intn(len(g.P.Users))], "groups": []string{"g1"}, "gang": false, "style": "", "forced": false, "tags": map[string]string{}})
		g.live[app] = true
		for j := 0; j < 2+rng.Intn(2); j++ {
			ask(app, 1+rng.Intn(2), 1+rng.Intn(3), true)
		}
	}
	return ops
}

func (g *Gen) Next() M {
	rng := g.rng
	switch name := g.pick(); name {
	case "addNode":
		return M{"op": "addNode", "node": g.node(), "cap": g.cap(), "drained": rng.Intn(12) == 0}
	case "removeNode", "drain", "undrain":
		return M{"op": name, "node": g.node()}
	case "updateNode":
		return M{"op": "updateNode", "node": g.node(), "cap": g.cap()}
	case "foreign":
		// a foreign allocation (a pod not managed by yunikorn) never moves: its key determines its node
		fi := rng.Intn(4)
		return M{"op": "foreign", "node": fmt.Sprintf("n%d", fi%g.P.Nodes), "key": fmt.Sprintf("f%d", fi), "res": map[string]int64{"memory": int64(rng.Intn(2) + 1)}}
	case "foreignRemove":
		return M{"op": "foreignRemove", "key": fmt.Sprintf("f%d", rng.Intn(4))}
	case "addApp":
		id := g.app()
		q := g.P.Queues[rng.Intn(len(g.P.Queues))]
		ui := rng.Intn(len(g.P.Users))
		op := M{"op": "addApp", "app": id, "queue": q, "user": g.P.Users[ui], "groups": g.P.Groups[rng.Intn(len(g.P.Groups))], "gang": false, "style": "", "forced": false, "tags": map[string]string{}}
		if rng.Intn(100) < g.P.GangPct {
			// the placeholder total the application announces: with 4 it stays Accepted until two placeholders are allocated
			op["gang"], op["phAsk"], op["style"] = true, map[string]int64{"memory": int64(2 + 2*rng.Intn(2))}, []string{"Soft", "Hard"}[rng.Intn(2)]
		}
		// dynamic queues without a child template take an application limit from the application's namespace tag
		if g.P.Name == "dyn" && (q == "root.e.k" || q == "root.e.m" || q == "root.zz.y") && rng.Intn(3) == 0 {
			n := 1 + rng.Intn(2)
			op["tags"], op["tagMaxApps"] = map[string]string{"namespace.resourcemaxapps": fmt.Sprint(n)}, n
		}
		if g.P.ForcedPct > 0 && rng.Intn(100) < g.P.ForcedPct {
			op["forced"] = true
		}
		if !g.live[id] {
			g.gang[id] = op["gang"].(bool)
		}
		g.live[id] = true
		return op
	case "removeApp":
		id := g.liveApp()
		delete(g.live, id)
		return M{"op": "removeApp", "app": id}
	case "addAsk", "reportBound":
		if g.P.BindExisting && name == "reportBound" && len(g.keys) > 0 && rng.Intn(2) == 0 {
			// the shim reports an ask it submitted earlier as bound by somebody else, possibly with another size in the same message
			if ki := g.keys[rng.Intn(len(g.keys))]; !ki.ph {
				return M{"op": "reportBound", "app": ki.app, "key": ki.key, "res": map[string]int64{"memory": int64(rng.Intn(g.P.AskMem) + 1)}, "ph": false, "tg": "", "aged": false,
					"reqNode": "", "prio": 0, "preemptOther": true, "preemptSelf": true, "originator": false, "node": g.node()}
			}
		}
		app := g.liveApp()
		key := fmt.Sprintf("k%d", g.nextKey)
		g.nextKey++
		rs := map[string]int64{"memory": int64(rng.Intn(g.P.AskMem) + 1)}
		if rng.Intn(3) == 0 {
			rs["pods"] = 1
		}
		ph, tg := false, ""
		if g.gang[app] {
			tg = []string{"tg", "tg", "tg2"}[rng.Intn(3)]
			if rng.Intn(2) == 0 {
				ph, rs = true, map[string]int64{"memory": 2}
			} else if rng.Intn(8) == 0 {
				tg = ""
			}
		}
		reqNode := ""
		if g.P.ReqNode > 0 && rng.Intn(g.P.ReqNode) == 0 {
			reqNode = g.node()
		}
		op := M{"op": name, "app": app, "key": key, "res": rs, "ph": ph, "tg": tg, "aged": rng.Intn(100) < g.agedPct(), "reqNode": reqNode, "prio": rng.Intn(g.P.MaxPrio),
			"preemptOther": rng.Intn(5) != 0, "preemptSelf": rng.Intn(5) != 0, "originator": rng.Intn(6) == 0, "node": ""}
		if name == "reportBound" {
			op["node"] = g.node()
			op["reqNode"] = ""
		}
		g.keys = append(g.keys, askInfo{app, key, ph})
		return op
	case "updateAsk":
		if len(g.keys) == 0 {
			return M{"op": "noop"}
		}
		ki := g.keys[rng.Intn(len(g.keys))]
		if ki.ph {
			return M{"op": "noop"}
		}
		tg := ""
		if g.gang[ki.app] {
			tg = "tg"
		}
		return M{"op": "updateAsk", "app": ki.app, "key": ki.key, "res": map[string]int64{"memory": int64(rng.Intn(g.P.AskMem) + 1)}, "ph": false, "tg": tg, "aged": false, "reqNode": "", "prio": 0, "node": ""}
	case "release":
		if len(g.keys) == 0 {
			return M{"op": "noop"}
		}
		ki := g.keys[rng.Intn(len(g.keys))]
		// a shim initiated release is always STOPPED_BY_RM; the other termination types are confirmations of a
		// core initiated release ("confirm") or belong to the malformed-request profile ("bad")
		return M{"op": "release", "app": ki.app, "key": ki.key, "term": "STOPPED_BY_RM"}
	case "releaseAll":
		// an allocation release without a key: the shim gives up everything the application holds and asks for
		return M{"op": "releaseAll", "app": g.liveApp()}
	case "confirm":
		return M{"op": "confirm", "i": rng.Intn(8), "keep": rng.Intn(6) == 0}
	case "firePhTimer", "fireStateTimer":
		return M{"op": name, "app": g.liveApp()}
	case "deny":
		if len(g.keys) == 0 {
			return M{"op": "noop"}
		}
		ki := g.keys[rng.Intn(len(g.keys))]
		return M{"op": "deny", "key": ki.key, "node": g.node()}
	case "reload":
		return M{"op": "reload", "conf": g.P.Reloads[rng.Intn(len(g.P.Reloads))]}
	case "bad":
		return randBad(rng)
	case "restart":
		return M{"op": "restart", "order": rng.Intn(1 << 30)}
	case "cleanQueues", "quotaTick":
		return M{"op": name}
	}
	return M{"op": "schedule"}
}
