package drive

import (
	"sort"

	"github.com/apache/yunikorn-core/pkg/common/resources"
	"github.com/apache/yunikorn-core/pkg/scheduler/objects"
	"github.com/apache/yunikorn-core/pkg/scheduler/ugm"
	"github.com/apache/yunikorn-core/pkg/webservice/dao"
)

func rmap(r *resources.Resource) map[string]int64 {
	m := r.DAOMap()
	if m == nil {
		return map[string]int64{}
	}
	return m
}

// pz drops explicit zero entries: for usage-type quantities (allocated, pending, preempting, occupied, tracked usage)
// an explicit zero and an absent type mean the same, and the core prunes them at different moments
func pz(m map[string]int64) map[string]int64 {
	out := map[string]int64{}
	for k, v := range m {
		if v != 0 {
			out[k] = v
		}
	}
	return out
}

func i64map(m map[string]int64) map[string]int64 {
	if m == nil {
		return map[string]int64{}
	}
	return m
}

func strs(s []string) []string {
	out := append([]string{}, s...)
	sort.Strings(out)
	return out
}

func flatQueues(q dao.PartitionQueueDAOInfo, out M) {
	props := q.Properties
	if props == nil {
		props = map[string]string{}
	}
	out[q.QueueName] = M{"alloc": pz(q.AllocatedResource), "pending": pz(q.PendingResource), "max": i64map(q.MaxResource), "guar": i64map(q.GuaranteedResource),
		"hasMax": q.MaxResource != nil, "hasHeadroom": q.HeadRoom != nil,
		"preempting": pz(q.PreemptingResource), "leaf": q.IsLeaf, "managed": q.IsManaged, "status": q.Status, "parent": q.Parent,
		"maxApps": q.MaxRunningApps, "preemptEnabled": q.PreemptionEnabled, "fence": q.IsPreemptionFence, "prioFence": q.IsPriorityFence,
		"prioOffset": q.PriorityOffset, "running": q.RunningApps, "allocating": strs(q.AllocatingAcceptedApps), "headroom": i64map(q.HeadRoom),
		"props": props, "sortPolicy": q.SortingPolicy, "prioSort": q.PrioritySorting, "curPrio": q.CurrentPriority, "preemptDelay": q.PreemptionDelay}
	for _, c := range q.Children {
		flatQueues(c, out)
	}
}

func allocProj(r *objects.Allocation) M {
	rel := ""
	if r.GetRelease() != nil {
		rel = r.GetRelease().GetAllocationKey()
	}
	return M{"allocated": r.IsAllocated(), "node": r.GetNodeID(), "res": rmap(r.GetAllocatedResource()), "ph": r.IsPlaceholder(), "tg": r.GetTaskGroup(),
		"released": r.IsReleased(), "preempted": r.IsPreempted(), "rel": rel, "reqNode": r.GetRequiredNode(), "prio": r.GetPriority(),
		"trig": r.HasTriggeredPreemption(), "preemptOther": r.IsAllowPreemptOther(), "preemptSelf": r.IsAllowPreemptSelf(), "originator": r.IsOriginator(),
		"aged": r.GetCreateTime().Before(ageCut())}
}

func usageTree(q *dao.ResourceUsageDAOInfo, out M) {
	if q == nil {
		return
	}
	out[q.QueuePath] = M{"usage": pz(q.ResourceUsage), "max": i64map(q.MaxResources), "hasMax": q.MaxResources != nil, "maxApps": q.MaxApplications, "apps": strs(q.RunningApplications)}
	for _, c := range q.Children {
		usageTree(c, out)
	}
}

// Project returns the abstract state of the core (the value of the specification's variables), built only from
// exported getters, REST DAOs and the build-tagged export shims.
func (w *World) Project() M {
	p := w.P
	nodes := M{}
	for _, n := range p.GetNodes() {
		keys := []string{}
		for _, a := range n.GetYunikornAllocations() {
			keys = append(keys, a.GetAllocationKey())
		}
		sort.Strings(keys)
		fk := M{}
		for _, a := range n.GetForeignAllocations() {
			fk[a.GetAllocationKey()] = rmap(a.GetAllocatedResource())
		}
		nodes[n.NodeID] = M{"cap": rmap(n.GetCapacity()), "occ": pz(rmap(n.GetOccupiedResource())), "alloc": pz(rmap(n.GetAllocatedResource())), "avail": rmap(n.GetAvailableResource()),
			"keys": keys, "foreign": fk, "sched": n.IsSchedulable(), "resv": strs(n.GetReservationKeys())}
	}
	queues := M{}
	flatQueues(p.GetPartitionQueues(), queues)
	for qn := range queues {
		ra := map[string]int{}
		if q := p.GetQueue(qn); q != nil {
			for k, v := range q.GetReservedApps() {
				ra[k] = v
			}
		}
		queues[qn].(M)["reservedApps"] = ra
	}
	apps := M{}
	for _, a := range p.GetApplications() {
		asks := M{}
		for _, r := range a.GetAllRequests() {
			asks[r.GetAllocationKey()] = allocProj(r)
		}
		allocs := M{}
		for _, r := range a.GetAllAllocations() {
			allocs[r.GetAllocationKey()] = allocProj(r)
		}
		resv := M{}
		for _, k := range a.GetReservations() {
			resv[k] = a.NodeReservedForAsk(k)
		}
		sl := a.GetStateLog()
		newLog := []string{}
		for i := w.seenLog[a.ApplicationID]; i < len(sl); i++ {
			newLog = append(newLog, sl[i].ApplicationState)
		}
		w.seenLog[a.ApplicationID] = len(sl)
		phd := M{}
		for _, d := range a.GetAllPlaceholderData() {
			phd[d.TaskGroupName] = M{"count": d.Count, "replaced": d.Replaced, "timedOut": d.TimedOut}
		}
		phT, stT := a.VerifTimersArmed()
		ug := a.GetUser()
		apps[a.ApplicationID] = M{"state": a.CurrentState(), "newlog": newLog, "queue": a.GetQueuePath(), "alloc": pz(rmap(a.GetAllocatedResource())), "phAlloc": pz(rmap(a.GetPlaceholderResource())),
			"pending": pz(rmap(a.GetPendingResource())), "asks": asks, "allocs": allocs, "resv": resv, "phd": phd, "user": ug.User, "groups": append([]string{}, ug.Groups...),
			"forced": a.IsCreateForced(), "phTimer": phT, "stTimer": stT, "hasQueue": a.GetQueue() != nil}
	}
	done := []string{}
	for _, a := range p.GetCompletedApplications() {
		done = append(done, a.ApplicationID+":"+a.CurrentState())
	}
	sort.Strings(done)
	rej := []string{}
	for _, a := range p.GetRejectedApplications() {
		rej = append(rej, a.ApplicationID)
	}
	sort.Strings(rej)
	users := M{}
	for _, ut := range ugm.GetUserManager().GetUserTrackers() {
		d := ut.GetResourceUsageDAOInfo()
		um := M{}
		usageTree(d.Queues, um)
		users[d.UserName] = um
	}
	groups := M{}
	for _, gt := range ugm.GetUserManager().GetGroupTrackers() {
		d := gt.GetResourceUsageDAOInfo()
		gm := M{}
		usageTree(d.Queues, gm)
		groups[d.GroupName] = M{"q": gm, "apps": strs(d.Applications)}
	}
	return M{"nodes": nodes, "queues": queues, "apps": apps, "done": done, "rejected": rej, "users": users, "groups": groups,
		"counters": M{"allocs": p.GetTotalAllocationCount(), "resv": p.VerifReservationCount(), "ph": p.VerifPlaceholderCount()},
		"total":    rmap(p.GetTotalPartitionResource())}
}
