package drive

import (
	"math/rand"
	"sort"

	"github.com/apache/yunikorn-core/pkg/plugins"
	"github.com/apache/yunikorn-core/pkg/scheduler"
	siCommon "github.com/apache/yunikorn-scheduler-interface/lib/go/common"
	"github.com/apache/yunikorn-scheduler-interface/lib/go/si"
)

func addRes(a, b map[string]int64) map[string]int64 {
	out := map[string]int64{}
	for k, v := range a {
		out[k] = v
	}
	for k, v := range b {
		out[k] += v
	}
	return out
}

// restart models a crash of the core at this point: a new, empty core is created and the shim replays what IT knows
// (nodes, applications with force-create, foreign allocations, bound allocations, outstanding asks) in a seed-chosen
// legal order (nodes and applications before the allocations that refer to them). The trace line carries the totals
// the shim's knowledge implies ("expect") and the old core's projection ("old").
func (w *World) restart(op M, line M) {
	rng := rand.New(rand.NewSource(gi(op, "order")))
	line["old"] = w.Project()
	line["inflight"] = len(w.PendingRel)
	// ---- what the shim knows
	expNodes, expApps := M{}, M{}
	nodeIDs := sortedKeys(w.sNodes)
	for _, n := range nodeIDs {
		expNodes[n] = M{"alloc": map[string]int64{}, "occ": map[string]int64{}, "sched": !w.sDrain[n]}
	}
	appIDs := sortedKeys(w.sApps)
	for _, a := range appIDs {
		expApps[a] = M{"alloc": map[string]int64{}, "phAlloc": map[string]int64{}, "pending": map[string]int64{}}
	}
	keys := sortedKeys(w.sAsks)
	for _, k := range keys {
		a := w.sAsks[k]
		o := w.sAskOps[k]
		ea, ok := expApps[a.App].(M)
		if !ok || o == nil {
			continue
		}
		res := gres(o, "res")
		switch {
		case a.Node == "":
			ea["pending"] = addRes(ea["pending"].(map[string]int64), res)
		case gb(o, "ph"):
			ea["phAlloc"] = addRes(ea["phAlloc"].(map[string]int64), res)
		default:
			ea["alloc"] = addRes(ea["alloc"].(map[string]int64), res)
		}
		if a.Node != "" {
			if en, ok := expNodes[a.Node].(M); ok {
				en["alloc"] = addRes(en["alloc"].(map[string]int64), res)
			}
		}
	}
	fks := sortedKeys(w.sForeign)
	for _, k := range fks {
		f := w.sForeign[k]
		if en, ok := expNodes[f.NodeID].(M); ok {
			en["occ"] = addRes(en["occ"].(map[string]int64), siResMap(f.ResourcePerAlloc))
		}
	}
	line["expect"] = M{"nodes": expNodes, "apps": expApps}
	asks := M{}
	for _, k := range keys {
		asks[k] = M{"app": w.sAsks[k].App, "node": w.sAsks[k].Node}
	}
	line["asks"] = asks

	// ---- the new core
	resetSingletons()
	cc, err := scheduler.NewClusterContext(RmID, "pg", w.Conf.YAML())
	if err != nil {
		panic(err)
	}
	cc.VerifStopCleaners()
	cc.VerifSetEventHandler(w.H)
	plugins.UnregisterSchedulerPlugins()
	plugins.RegisterSchedulerPlugin(w.H)
	w.CC, w.P = cc, cc.GetPartition(Part)
	w.seenLog = map[string]int{}
	w.PendingRel = nil
	w.goneKeys = nil

	// ---- replay: nodes and applications first (any order), then everything that refers to them (any order)
	type item struct {
		kind, id string
	}
	var first, second []item
	for _, n := range nodeIDs {
		first = append(first, item{"node", n})
	}
	for _, a := range appIDs {
		first = append(first, item{"app", a})
	}
	for _, k := range keys {
		second = append(second, item{"ask", k})
	}
	for _, k := range fks {
		second = append(second, item{"foreign", k})
	}
	rng.Shuffle(len(first), func(i, j int) { first[i], first[j] = first[j], first[i] })
	rng.Shuffle(len(second), func(i, j int) { second[i], second[j] = second[j], second[i] })
	order := []string{}
	for _, it := range append(first, second...) {
		order = append(order, it.kind+":"+it.id)
		switch it.kind {
		case "node":
			ni := w.sNodes[it.id]
			act := si.NodeInfo_CREATE
			if w.sDrain[it.id] {
				act = si.NodeInfo_CREATE_DRAIN
			}
			w.CC.VerifProcessNodes(&si.NodeRequest{RmID: RmID, Nodes: []*si.NodeInfo{{NodeID: it.id, Action: act, SchedulableResource: ni.SchedulableResource, Attributes: nodeAttrs}}})
		case "app":
			o := w.sAppOps[it.id]
			req := &si.AddApplicationRequest{ApplicationID: it.id, QueueName: gs(o, "queue"), PartitionName: Part,
				Ugi: &si.UserGroupInformation{User: gs(o, "user"), Groups: gstrs(o, "groups")}, Tags: gsmap(o, "tags"), ExecutionTimeoutMilliSeconds: 3600000}
			req.Tags[siCommon.AppTagCreateForce] = "true"
			if gb(o, "gang") {
				req.PlaceholderAsk = sires(gres(o, "phAsk"))
				req.GangSchedulingStyle = gs(o, "style")
			}
			w.CC.VerifUpdateApplications(&si.ApplicationRequest{RmID: RmID, New: []*si.AddApplicationRequest{req}})
			w.ownCallback(it.id)
		case "ask":
			a := w.sAsks[it.id]
			x := w.askFromOp(w.sAskOps[it.id])
			x.NodeID = a.Node
			w.CC.VerifUpdateAllocations(&si.AllocationRequest{RmID: RmID, Allocations: []*si.Allocation{x}})
		case "foreign":
			w.CC.VerifUpdateAllocations(&si.AllocationRequest{RmID: RmID, Allocations: []*si.Allocation{w.sForeign[it.id]}})
		}
	}
	sort.Strings(order[:0])
	line["order"] = order
	line["replayed"] = len(order)
}
