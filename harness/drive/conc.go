package drive

import (
	"encoding/json"
	"fmt"
	"math/rand"
	"os"
	"runtime"
	"sort"
	"strings"
	"sync"
	"sync/atomic"
	"time"

	"github.com/apache/yunikorn-core/pkg/locking"
	"github.com/apache/yunikorn-core/pkg/metrics"
	"github.com/apache/yunikorn-core/pkg/scheduler"
	"github.com/apache/yunikorn-scheduler-interface/lib/go/si"
)

func ttOf(term string) si.TerminationType { return si.TerminationType(si.TerminationType_value[term]) }

// applyRaw performs one request against the core without any of the sequential driver's bookkeeping
func (w *World) applyRaw(op M) {
	w.dispatch(op, M{})
}

// Concurrent mode (property C14): the scheduling loop, several RM request streams, node churn, configuration
// reloads, quota preemption ticks, timers, confirmations and REST/DAO readers all run in their own goroutines against
// ONE real ClusterContext. When the input stops and the system has settled, the final state is projected and
// validated by the same specification (state invariants of YKTrace.tla) as the sequential traces. The binary is
// built with -race; lock acquisitions are recorded (locking.VerifRecordLocks) and written out for LockOrder.tla.

type ConcResult struct {
	Ops        int64    `json:"ops"`
	Cycles     int64    `json:"cycles"`
	Allocs     int64    `json:"allocs"`
	Panics     []string `json:"panics"`
	Blocked    []string `json:"blocked"`
	Deadlock   bool     `json:"deadlock"`
	Settled    bool     `json:"settled"`
	LockEdges  int      `json:"lockEdges"`
	DurationMs int64    `json:"durationMs"`
}

type concWorld struct {
	*World
	mu sync.Mutex // serialises the harness' own bookkeeping (shim knowledge), never held while calling the core
}

func safely(res *ConcResult, mu *sync.Mutex, what string, f func()) {
	defer func() {
		if r := recover(); r != nil {
			buf := make([]byte, 4096)
			n := runtime.Stack(buf, false)
			mu.Lock()
			if len(res.Panics) < 10 {
				res.Panics = append(res.Panics, fmt.Sprintf("%s: %v | %s", what, r, trimStack(string(buf[:n]))))
			}
			mu.Unlock()
		}
	}()
	f()
}

// RunConcurrent runs one concurrent session and writes <out> (NDJSON: reset line + final line) and <out>.locks.json.
func RunConcurrent(profile string, seed int64, dur time.Duration, workers int, out string, recordLocks bool) (*ConcResult, error) {
	p := GetProfile(profile)
	conf := NamedConf(p.Conf)
	w, err := NewWorld(conf)
	if err != nil {
		return nil, err
	}
	locking.VerifResetLockEdges()
	locking.VerifRecordLocks(recordLocks)
	defer locking.VerifRecordLocks(false)
	res := &ConcResult{}
	var rmu sync.Mutex
	var seq atomic.Int64
	var opLog []M
	logOp := func(who string, op M, when string) {
		n := seq.Add(1)
		rmu.Lock()
		opLog = append(opLog, M{"n": n, "who": who, "when": when, "op": gs(op, "op"), "app": gs(op, "app"), "key": gs(op, "key"), "node": gs(op, "node"), "term": gs(op, "term")})
		rmu.Unlock()
	}
	var stopDrivers, stopAll atomic.Bool
	var wg, bg sync.WaitGroup
	start := time.Now()
	reloaded := atomic.Bool{}

	// the scheduling loop
	bg.Add(1)
	go func() {
		defer bg.Done()
		for !stopAll.Load() {
			did := false
			safely(res, &rmu, "schedule", func() { did = w.CC.VerifSchedule() })
			atomic.AddInt64(&res.Cycles, 1)
			if !did {
				time.Sleep(100 * time.Microsecond)
			}
		}
	}()
	// confirmations: the shim answers core initiated releases late, sometimes twice
	bg.Add(1)
	go func() {
		defer bg.Done()
		rng := rand.New(rand.NewSource(seed*7 + 1))
		seen := 0
		var todo []M
		for !stopAll.Load() {
			msgs := w.H.Peek()
			for ; seen < len(msgs); seen++ {
				m := msgs[seen]
				if m["t"] == "release" && m["term"] != "STOPPED_BY_RM" {
					todo = append(todo, m)
				}
				if m["t"] == "alloc" {
					atomic.AddInt64(&res.Allocs, 1)
				}
			}
			if len(todo) > 0 && (rng.Intn(3) == 0 || stopDrivers.Load()) {
				i := rng.Intn(len(todo))
				m := todo[i]
				if rng.Intn(8) != 0 {
					todo = append(todo[:i], todo[i+1:]...)
				}
				logOp("confirm", M{"op": "confirm", "app": m["app"], "key": m["key"], "term": m["term"]}, "start")
				safely(res, &rmu, "confirm", func() {
					w.CC.VerifUpdateAllocations(w.releaseReq(m["app"].(string), m["key"].(string), ttOf(m["term"].(string))))
				})
			}
			time.Sleep(200 * time.Microsecond)
		}
	}()
	// readers: REST style DAO access and the full projection
	for r := 0; r < 2; r++ {
		bg.Add(1)
		go func() {
			defer bg.Done()
			for !stopAll.Load() {
				safely(res, &rmu, "reader", func() {
					_ = w.P.GetPartitionQueues()
					for _, n := range w.P.GetNodes() {
						_ = n.GetAvailableResource()
						_ = n.GetReservationKeys()
					}
					for _, a := range w.P.GetApplications() {
						_ = a.GetAllAllocations()
						_ = a.GetStateLog()
					}
					_ = w.P.GetRejectedApplications()
					_ = w.P.GetCompletedApplications()
					_ = scheduler.GetSchedulerHealthStatus(metrics.GetSchedulerMetrics(), w.CC)
				})
				time.Sleep(300 * time.Microsecond)
			}
		}()
	}
	// quota preemption ticker and timers
	bg.Add(1)
	go func() {
		defer bg.Done()
		rng := rand.New(rand.NewSource(seed*7 + 2))
		for !stopAll.Load() {
			safely(res, &rmu, "quotaTick", func() {
				for _, q := range []string{"root.a", "root.p"} {
					if qq := w.P.GetQueue(q); qq != nil {
						qq.VerifQuotaPreemptionElapse()
					}
				}
				w.CC.VerifQuotaPreemption()
			})
			if !stopDrivers.Load() {
				safely(res, &rmu, "timers", func() {
					apps := w.P.GetApplications()
					if len(apps) > 0 {
						a := apps[rng.Intn(len(apps))]
						if rng.Intn(2) == 0 {
							a.VerifFirePlaceholderTimer()
						} else {
							a.VerifFireStateTimer()
						}
					}
				})
			}
			time.Sleep(2 * time.Millisecond)
		}
	}()
	// request streams: every driver owns its applications and keys, the nodes are shared
	for d := 0; d < workers; d++ {
		wg.Add(1)
		go func(d int) {
			defer wg.Done()
			g := NewGen(p, seed*1000+int64(d))
			pre := fmt.Sprintf("w%d", d)
			gen := map[string]int{} // application ids are never reused: a removed id comes back as a new generation
			for !stopDrivers.Load() {
				op := g.Next()
				switch gs(op, "op") {
				case "removeNode", "removeApp":
					// node / application removal racing with a scheduling cycle is a KNOWN defect family
					// (KF-C14-REMOVAL-DURING-CYCLE, decided by the gate scenarios); the sampled sessions keep clear of it so that
					// their final state can be judged
					continue
				case "addNode", "drain", "undrain":
					if d != 0 { // one stream does the node churn
						continue
					}
				case "reload":
					if d != 0 {
						continue
					}
					reloaded.Store(true)
				case "schedule":
					// there is exactly one scheduling goroutine in the core: the request streams never run a cycle themselves
					time.Sleep(20 * time.Microsecond)
					continue
				case "updateNode", "foreign", "foreignRemove", "reportBound", "updateAsk", "quotaTick", "firePhTimer", "fireStateTimer", "confirm", "restart", "bad", "cleanQueues":
					continue // externally forced changes are out of scope here; timers/confirmations have their own goroutines
				}
				if a := gs(op, "app"); a != "" {
					op["app"] = fmt.Sprintf("%s%sg%d", pre, a, gen[a])
					if gs(op, "op") == "removeApp" {
						gen[a]++
					}
				}
				if k := gs(op, "key"); k != "" {
					op["key"] = pre + k
				}
				logOp(pre, op, "start")
				safely(res, &rmu, gs(op, "op"), func() { w.applyRaw(op) })
				logOp(pre, op, "end")
				atomic.AddInt64(&res.Ops, 1)
				if g.rng.Intn(4) == 0 {
					time.Sleep(50 * time.Microsecond)
				}
			}
		}(d)
	}
	time.Sleep(dur)
	stopDrivers.Store(true)
	done := make(chan struct{})
	go func() { wg.Wait(); close(done) }()
	select {
	case <-done:
	case <-time.After(30 * time.Second):
		res.Blocked = append(res.Blocked, "request streams did not return within 30 s")
	}
	// let the system settle: confirmations keep flowing, the scheduler keeps running until nothing moves any more
	res.Settled = false
	lastMsgs, still := -1, 0
	for i := 0; i < 4000; i++ {
		n := len(w.H.Peek())
		if n == lastMsgs {
			still++
		} else {
			still, lastMsgs = 0, n
		}
		if still >= 150 {
			res.Settled = true
			break
		}
		time.Sleep(time.Millisecond)
	}
	stopAll.Store(true)
	bgDone := make(chan struct{})
	go func() { bg.Wait(); close(bgDone) }()
	select {
	case <-bgDone:
	case <-time.After(30 * time.Second):
		res.Blocked = append(res.Blocked, "background goroutines did not return within 30 s")
	}
	// goroutines of the session that never came back are stuck inside the core: touching the core again (settle,
	// projection) would hang this goroutine as well, so the session ends here with what is known
	stuck := len(res.Blocked) > 0
	if !stuck {
		w.settle()
	}
	time.Sleep(20 * time.Millisecond)
	res.Blocked = append(res.Blocked, blockedInCore()...)
	res.Deadlock = locking.IsDeadlockDetected()
	res.DurationMs = time.Since(start).Milliseconds()

	// final state
	f, err := os.Create(out)
	if err != nil {
		return nil, err
	}
	enc := json.NewEncoder(f)
	first := M{"op": "reset", "conf": conf, "profile": "conc-" + profile, "seed": seed, "panic": "", "dpanic": 0, "hang": false, "msgs": []M{}, "pred": []M{}, "state": emptyState(w)}
	if err := enc.Encode(first); err != nil {
		return nil, err
	}
	w.seenLog = map[string]int{}
	if res.Blocked == nil {
		res.Blocked = []string{}
	}
	if res.Panics == nil {
		res.Panics = []string{}
	}
	final := M{"op": "final", "panic": strings.Join(res.Panics, " || "), "dpanic": 0, "hang": len(res.Blocked) > 0 || res.Deadlock, "msgs": []M{}, "pred": []M{},
		"reloaded": reloaded.Load(), "settled": res.Settled, "blocked": res.Blocked}
	if stuck {
		final["state"] = emptyState(w)
	} else {
		final["state"] = w.Project()
	}
	if err := enc.Encode(final); err != nil {
		return nil, err
	}
	f.Close()
	if os.Getenv("VERIF_CONC_LOG") != "" {
		lf, _ := os.Create(out + ".log.ndjson")
		le := json.NewEncoder(lf)
		for _, o := range opLog {
			_ = le.Encode(o)
		}
		for i, m := range w.H.Peek() {
			m["i"] = i
			_ = le.Encode(m)
		}
		lf.Close()
	}
	edges := locking.VerifLockEdges()
	res.LockEdges = len(edges)
	type E struct {
		FromClass  string  `json:"fromClass"`
		ToClass    string  `json:"toClass"`
		From       string  `json:"from"`
		To         string  `json:"to"`
		Count      int64   `json:"count"`
		Goroutines []int64 `json:"goroutines"`
		Stack      string  `json:"stack"`
	}
	var es []E
	for _, e := range edges {
		es = append(es, E{e.FromClass, e.ToClass, fmt.Sprintf("L%x", e.From), fmt.Sprintf("L%x", e.To), e.Count, append([]int64{}, e.Goroutines...), e.Stack})
	}
	sort.Slice(es, func(i, j int) bool { return es[i].From+es[i].To < es[j].From+es[j].To })
	b, _ := json.Marshal(es)
	if err := os.WriteFile(out+".locks.json", b, 0o644); err != nil {
		return nil, err
	}
	return res, nil
}

func emptyState(w *World) M {
	return M{"nodes": M{}, "queues": M{}, "apps": M{}, "done": []string{}, "rejected": []string{}, "users": M{}, "groups": M{},
		"counters": M{"allocs": 0, "resv": 0, "ph": 0}, "total": map[string]int64{}}
}

// blockedInCore lists goroutines that are parked inside yunikorn-core code (lock, channel) at quiescence.
func blockedInCore() []string {
	buf := make([]byte, 1<<22)
	n := runtime.Stack(buf, true)
	var out []string
	for _, g := range strings.Split(string(buf[:n]), "\n\n") {
		head := strings.SplitN(g, "\n", 2)[0]
		if !strings.Contains(g, "yunikorn-core/pkg/") {
			continue
		}
		blocked := false
		for _, st := range []string{"semacquire", "sync.Mutex.Lock", "sync.RWMutex", "chan send", "chan receive", "select"} {
			if strings.Contains(head, st) {
				blocked = true
			}
		}
		// timers of applications and the (stopped) partition manager are not goroutines; anything left is suspicious
		// the user group cache cleaner is a legitimate background loop
		if blocked && !strings.Contains(g, "verif/harness") && !strings.Contains(g, "security.(*UserGroupCache).run") {
			out = append(out, head+" | "+trimStack(g))
		}
	}
	return out
}
