// Package ugmlimits replays the behaviours that TLC generates from spec/MC_UGM.tla (property C05, module ugmlimits) against
// the real user / group manager of github.com/apache/yunikorn-core/pkg/scheduler/ugm, in lock step: every step of a behaviour
// is one call of the manager's public API (UpdateConfig, IncreaseTrackedResource, DecreaseTrackedResource); after the step the
// observations Headroom / CanRunApp are taken for the probe set of the specification and compared with the values the
// specification (spec/UGM.tla) computed. Nothing is computed here: the harness only converts representations.
//
// Input: the output of TLC (lines `<<"HDR", "<json>">>`, `<<"BEH", "<json>">>`, everything else is ignored) or a file with
// `{"hdr":{..}}` on the first line and one `{"id":..,"steps":[..]}` per line (replay files).
//
//	step: {"act":{"op":"conf","lim":[{"q":"root.p","k":"u"|"g","n":"alice"|"*",..,"r":[memory,pods],"a":maxApps}]},
//	       "exp":{"new":[[[memory,pods],canRun] x (users x leaves)],"app":[[[memory,pods],canRun] | [] x apps]}}
//	      {"act":{"op":"inc","q":..,"app":..,"user":..,"r":[memory,pods]}}   {"act":{"op":"dec",..,"rm":bool}}
//
// In r of a limit and in an expected headroom the value hdr.inf stands for "type not limited".
//
// Every behaviour is replayed twice on a new manager: "dense" takes all observations after every step, "sparse" only after
// the second and later configurations and after the last step (the manager creates trackers as a side effect of an
// observation; the specification says that this must not be observable). A replay stops at the first step with a mismatch.
package ugmlimits

import (
	"bufio"
	"encoding/json"
	"fmt"
	"hash/fnv"
	"io"
	"sort"
	"strings"

	"go.uber.org/zap"
	"go.uber.org/zap/zapcore"

	"github.com/apache/yunikorn-core/pkg/common/configs"
	"github.com/apache/yunikorn-core/pkg/common/resources"
	"github.com/apache/yunikorn-core/pkg/common/security"
	"github.com/apache/yunikorn-core/pkg/log"
	"github.com/apache/yunikorn-core/pkg/scheduler/ugm"
)

type Header struct {
	Apps   []string            `json:"apps"`
	Users  []string            `json:"users"`
	Groups map[string][]string `json:"groups"`
	Leaves []string            `json:"leaves"`
	Names  map[string]string   `json:"names"`  // runtime path -> configured queue name
	Parent map[string]string   `json:"parent"` // runtime path -> runtime path of the parent
	Inf    int64               `json:"inf"`
}

type LimitEntry struct {
	Q string   `json:"q"`
	K string   `json:"k"`
	N string   `json:"n"`
	R [2]int64 `json:"r"`
	A uint64   `json:"a"`
}

type Act struct {
	Op   string       `json:"op"`
	Lim  []LimitEntry `json:"lim,omitempty"`
	Q    string       `json:"q,omitempty"`
	App  string       `json:"app,omitempty"`
	User string       `json:"user,omitempty"`
	R    [2]int64     `json:"r,omitempty"`
	Rm   bool         `json:"rm,omitempty"`
}

type Obs struct {
	Room [2]int64
	Run  bool
	Set  bool
}

func (o *Obs) UnmarshalJSON(b []byte) error {
	var raw []json.RawMessage
	if err := json.Unmarshal(b, &raw); err != nil {
		return err
	}
	if len(raw) == 0 {
		return nil
	}
	if len(raw) != 2 {
		return fmt.Errorf("observation: want [[memory,pods],canRun], got %s", string(b))
	}
	o.Set = true
	if err := json.Unmarshal(raw[0], &o.Room); err != nil {
		return err
	}
	return json.Unmarshal(raw[1], &o.Run)
}

type Step struct {
	Act Act `json:"act"`
	Exp struct {
		New []Obs `json:"new"`
		App []Obs `json:"app"`
	} `json:"exp"`
}

type Behaviour struct {
	ID    string `json:"id"`
	Steps []Step `json:"steps"`
	NConf int    `json:"nconf"`
}

// Mismatch is one line of the output.
type Mismatch struct {
	ID    string      `json:"id"`
	Mode  string      `json:"mode"`
	Step  int         `json:"step"` // index into steps, from 0
	Kind  string      `json:"kind"` // headroom | canrun | panic | error
	App   string      `json:"app"`  // "" = an application the manager has not seen before
	User  string      `json:"user"`
	Q     string      `json:"q"`
	Want  interface{} `json:"want"`
	Got   interface{} `json:"got"`
	Extra string      `json:"detail,omitempty"`
}

type Summary struct {
	Summary           bool     `json:"summary"`
	Behaviours        int      `json:"behaviours"`
	Replays           int      `json:"replays"`
	Steps             int      `json:"steps"`
	ConfSteps         int      `json:"conf_steps"`
	Probes            int      `json:"probes"`
	BindingRoom       int      `json:"probes_headroom_limited"`   // expected headroom names at least one type
	BindingExhausted  int      `json:"probes_headroom_exhausted"` // expected headroom <= 0 for some type
	BindingApps       int      `json:"probes_canrun_false"`
	MultiConf         int      `json:"behaviours_with_2_or_more_configurations"`
	Failing           int      `json:"failing_behaviours"`
	Mismatches        int      `json:"mismatches"`
	NonTrivial        int      `json:"nontrivial_behaviours"` // some expected observation is limited (headroom names a type, or canRun is false)
	DistinctConfs     int      `json:"distinct_configurations"`
	ValidatorRejected int      `json:"configurations_rejected_by_the_validator"`
	Rejected          []string `json:"rejected_examples,omitempty"`
	Samples           []string `json:"samples"`
}

type Runner struct {
	hdr    *Header
	out    *bufio.Writer
	sum    Summary
	valid  map[string]error
	Modes  []string
	Hashes io.Writer // one line per non-trivial behaviour: FNV-64a of its JSON text (the caller counts distinct ones across runs)
}

func NewRunner(out *bufio.Writer) *Runner {
	// the manager logs every call
	log.InitializeLogger(zap.NewNop(), &zap.Config{Level: zap.NewAtomicLevelAt(zapcore.FatalLevel)})
	return &Runner{out: out, valid: map[string]error{}, Modes: []string{"dense", "sparse"}, sum: Summary{Summary: true}}
}

func (rn *Runner) emit(v interface{}) {
	b, err := json.Marshal(v)
	if err != nil {
		panic(err)
	}
	rn.out.Write(b)
	rn.out.WriteByte('\n')
}

// tlcValue extracts the JSON text of a line `<<"TAG", "<escaped json>">>`.
func tlcValue(line, tag string) (string, bool) {
	prefix := `<<"` + tag + `", `
	if !strings.HasPrefix(line, prefix) || !strings.HasSuffix(line, `>>`) {
		return "", false
	}
	var s string
	if err := json.Unmarshal([]byte(strings.TrimSuffix(line[len(prefix):], `>>`)), &s); err != nil {
		return "", false
	}
	return s, true
}

// Run reads the input and replays every behaviour. tag is the id prefix for behaviours that come without an id (TLC output).
func (rn *Runner) Run(in io.Reader, tag string, logw io.Writer) error {
	rd := bufio.NewReaderSize(in, 1<<20)
	n := 0
	for {
		line, err := rd.ReadString('\n')
		if len(line) > 0 {
			line = strings.TrimRight(line, "\r\n")
			var js string
			switch {
			case strings.HasPrefix(line, `<<"HDR"`):
				if v, ok := tlcValue(line, "HDR"); ok {
					h := &Header{}
					if e := json.Unmarshal([]byte(v), h); e != nil {
						return fmt.Errorf("header: %v", e)
					}
					rn.hdr = h
				}
			case strings.HasPrefix(line, `<<"BEH"`):
				if v, ok := tlcValue(line, "BEH"); ok {
					js = v
				} else {
					return fmt.Errorf("unparsable BEH line: %.200s", line)
				}
			case strings.HasPrefix(line, `{"hdr"`):
				var w struct {
					Hdr *Header `json:"hdr"`
				}
				if e := json.Unmarshal([]byte(line), &w); e != nil {
					return fmt.Errorf("header: %v", e)
				}
				rn.hdr = w.Hdr
			case strings.HasPrefix(line, `{`):
				js = line
			default:
				if logw != nil {
					fmt.Fprintln(logw, line)
				}
			}
			if js != "" {
				if rn.hdr == nil {
					return fmt.Errorf("behaviour before header")
				}
				b := &Behaviour{}
				if e := json.Unmarshal([]byte(js), b); e != nil {
					return fmt.Errorf("behaviour: %v: %.300s", e, js)
				}
				if b.ID == "" {
					b.ID = fmt.Sprintf("%s-%d", tag, n)
				}
				n++
				rn.behaviour(b, js)
			}
		}
		if err == io.EOF {
			break
		}
		if err != nil {
			return err
		}
	}
	rn.sum.DistinctConfs = len(rn.valid)
	return nil
}

func (rn *Runner) Summary() Summary { return rn.sum }

// ---------------------------------------------------------------------------------------------------------------------

func resource(r [2]int64, inf int64) map[string]string {
	m := map[string]string{}
	if r[0] != inf {
		m["memory"] = fmt.Sprint(r[0])
	}
	if r[1] != inf {
		m["pods"] = fmt.Sprint(r[1])
	}
	return m
}

func usage(r [2]int64) *resources.Resource {
	m := map[string]resources.Quantity{}
	if r[0] != 0 {
		m["memory"] = resources.Quantity(r[0])
	}
	if r[1] != 0 {
		m["pods"] = resources.Quantity(r[1])
	}
	return resources.NewResourceFromMap(m)
}

// queueConfig builds the configuration tree below root from the limits that are set; queues carry their configured names.
func (rn *Runner) queueConfig(lim []LimitEntry) configs.QueueConfig {
	h := rn.hdr
	children := map[string][]string{}
	paths := make([]string, 0, len(h.Names))
	for p := range h.Names {
		paths = append(paths, p)
	}
	sort.Strings(paths)
	for _, p := range paths {
		if par, ok := h.Parent[p]; ok {
			children[par] = append(children[par], p)
		}
	}
	byQ := map[string][]LimitEntry{}
	for _, l := range lim {
		byQ[l.Q] = append(byQ[l.Q], l)
	}
	rank := func(l LimitEntry) string {
		// named users, wildcard user, named groups, wildcard group (the validator wants the wildcards last)
		k, w := "0", "0"
		if l.K == "g" {
			k = "1"
		}
		if l.N == "*" {
			w = "1"
		}
		return k + w + l.N
	}
	var build func(p string) configs.QueueConfig
	build = func(p string) configs.QueueConfig {
		qc := configs.QueueConfig{Name: h.Names[p], Parent: len(children[p]) > 0, SubmitACL: "*"}
		ls := byQ[p]
		sort.Slice(ls, func(i, j int) bool { return rank(ls[i]) < rank(ls[j]) })
		for _, l := range ls {
			cl := configs.Limit{Limit: l.K + ":" + l.N, MaxResources: resource(l.R, h.Inf), MaxApplications: l.A}
			if len(cl.MaxResources) == 0 {
				cl.MaxResources = nil
			}
			if l.K == "u" {
				cl.Users = []string{l.N}
			} else {
				cl.Groups = []string{l.N}
			}
			qc.Limits = append(qc.Limits, cl)
		}
		for _, c := range children[p] {
			qc.Queues = append(qc.Queues, build(c))
		}
		return qc
	}
	return build("root")
}

// validate asks the real configuration validator; the result is cached per configuration.
func (rn *Runner) validate(lim []LimitEntry) error {
	key, _ := json.Marshal(lim)
	if err, ok := rn.valid[string(key)]; ok {
		return err
	}
	sc := &configs.SchedulerConfig{Partitions: []configs.PartitionConfig{{Name: "default", Queues: []configs.QueueConfig{rn.queueConfig(lim)}}}}
	err := configs.Validate(sc)
	rn.valid[string(key)] = err
	if err != nil {
		rn.sum.ValidatorRejected++
		if len(rn.sum.Rejected) < 5 {
			rn.sum.Rejected = append(rn.sum.Rejected, fmt.Sprintf("%s: %v", key, err))
		}
	}
	return err
}

func (rn *Runner) ug(user string) security.UserGroup {
	return security.UserGroup{User: user, Groups: append([]string(nil), rn.hdr.Groups[user]...)}
}

func (rn *Runner) room(r *resources.Resource) ([2]int64, string) {
	got := [2]int64{rn.hdr.Inf, rn.hdr.Inf}
	extra := ""
	if r == nil {
		return got, extra
	}
	for k, v := range r.Resources {
		switch k {
		case "memory":
			got[0] = int64(v)
		case "pods":
			got[1] = int64(v)
		default:
			extra += fmt.Sprintf("unexpected type %s=%d ", k, v)
		}
	}
	return got, extra
}

func (rn *Runner) behaviour(b *Behaviour, raw string) {
	rn.sum.Behaviours++
	if b.NConf >= 2 {
		rn.sum.MultiConf++
	}
	if len(rn.sum.Samples) < 3 {
		rn.sum.Samples = append(rn.sum.Samples, raw)
	}
	nontrivial := false
	for _, st := range b.Steps {
		if st.Act.Op == "conf" {
			if rn.validate(st.Act.Lim) != nil {
				return // not a configuration the manager can be given: counted, reported by the caller
			}
		}
		for _, obs := range [][]Obs{st.Exp.New, st.Exp.App} {
			for _, o := range obs {
				if o.Set && (o.Room[0] != rn.hdr.Inf || o.Room[1] != rn.hdr.Inf || !o.Run) {
					nontrivial = true
				}
			}
		}
	}
	if nontrivial {
		rn.sum.NonTrivial++
		if rn.Hashes != nil {
			h := fnv.New64a()
			h.Write([]byte(raw))
			fmt.Fprintf(rn.Hashes, "%016x\n", h.Sum64())
		}
	}
	failed := false
	for _, mode := range rn.Modes {
		ms := rn.replay(b, mode)
		rn.sum.Replays++
		for _, m := range ms {
			rn.emit(m)
			rn.sum.Mismatches++
		}
		failed = failed || len(ms) > 0
	}
	if failed {
		rn.sum.Failing++
		rn.emit(map[string]interface{}{"failing_behaviour": b.ID, "beh": json.RawMessage(raw)})
	}
}

// replay drives a new manager through the behaviour; it returns the mismatches of the first step that has any.
func (rn *Runner) replay(b *Behaviour, mode string) (ms []Mismatch) {
	h := rn.hdr
	step := 0
	defer func() {
		if r := recover(); r != nil {
			ms = append(ms, Mismatch{ID: b.ID, Mode: mode, Step: step, Kind: "panic", Got: fmt.Sprint(r)})
		}
	}()
	m := ugm.VerifResetGlobalManager()
	nconf := 0
	for i := range b.Steps {
		step = i
		st := &b.Steps[i]
		a := &st.Act
		switch a.Op {
		case "conf":
			nconf++
			if err := m.UpdateConfig(rn.queueConfig(a.Lim), "root"); err != nil {
				return append(ms, Mismatch{ID: b.ID, Mode: mode, Step: i, Kind: "error", Got: err.Error()})
			}
			rn.sum.ConfSteps++
		case "inc":
			m.IncreaseTrackedResource(a.Q, a.App, usage(a.R), rn.ug(a.User))
		case "dec":
			m.DecreaseTrackedResource(a.Q, a.App, usage(a.R), rn.ug(a.User), a.Rm)
		default:
			panic("unknown op " + a.Op)
		}
		rn.sum.Steps++
		if mode == "sparse" && !(i == len(b.Steps)-1 || (a.Op == "conf" && nconf >= 2)) {
			continue
		}
		check := func(app, appID, user, q string, want Obs) {
			rn.sum.Probes++
			if want.Room[0] != h.Inf || want.Room[1] != h.Inf {
				rn.sum.BindingRoom++
				if want.Room[0] <= 0 || want.Room[1] <= 0 {
					rn.sum.BindingExhausted++
				}
			}
			if !want.Run {
				rn.sum.BindingApps++
			}
			got, extra := rn.room(m.Headroom(q, appID, rn.ug(user)))
			if got != want.Room || extra != "" {
				ms = append(ms, Mismatch{ID: b.ID, Mode: mode, Step: i, Kind: "headroom", App: app, User: user, Q: q, Want: want.Room, Got: got, Extra: extra})
			}
			if run := m.CanRunApp(q, appID, rn.ug(user)); run != want.Run {
				ms = append(ms, Mismatch{ID: b.ID, Mode: mode, Step: i, Kind: "canrun", App: app, User: user, Q: q, Want: want.Run, Got: run})
			}
		}
		if len(st.Exp.New) != len(h.Users)*len(h.Leaves) || len(st.Exp.App) != len(h.Apps) {
			panic(fmt.Sprintf("step %d: %d/%d expectations", i, len(st.Exp.New), len(st.Exp.App)))
		}
		for k, want := range st.Exp.New {
			user, q := h.Users[k/len(h.Leaves)], h.Leaves[k%len(h.Leaves)]
			check("", fmt.Sprintf("new-%d-%d", i, k), user, q, want)
		}
		tracked := trackedApps(b, i)
		for k, want := range st.Exp.App {
			t, ok := tracked[h.Apps[k]]
			if ok != want.Set {
				panic(fmt.Sprintf("step %d: application %s tracked=%v, expectation present=%v", i, h.Apps[k], ok, want.Set))
			}
			if ok {
				check(h.Apps[k], h.Apps[k], t[0], t[1], want)
			}
		}
		if len(ms) > 0 {
			return ms
		}
	}
	return ms
}

// trackedApps: application -> (user, queue) after step upto, derived from the actions (not from the expectations).
func trackedApps(b *Behaviour, upto int) map[string][2]string {
	t := map[string][2]string{}
	for i := 0; i <= upto; i++ {
		a := &b.Steps[i].Act
		switch {
		case a.Op == "inc":
			t[a.App] = [2]string{a.User, a.Q}
		case a.Op == "dec" && a.Rm:
			delete(t, a.App)
		}
	}
	return t
}
