// Package confvalid binds spec/ConfigValid.tla (property C15: configuration validation is sound) to the real code.
//
// A case is one line `<<"CASE", "<json>">>` of TLC's output for spec/MC_ConfigValid.tla (or the bare JSON object, as stored
// in replay files): an abstract configuration record with the specification's verdict
//
//	{"fam":"F1","conf":{"queues":[{"name":["r","o","o","t"],"up":0,"parent":true,"max":[],"guar":[],"maxApps":0,"limits":[],
//	 "tmpl":{..}},..],"rules":[[{"name":"fixed","create":true,"value":[["r","o","o","t"],["l"]],"ftype":"","fusers":[],"fgroups":[]}]]},
//	 "valid":true,"why":[],"amb":[]}
//
// The harness renders the record as a YAML document, asks the real validator (configs.LoadSchedulerConfigFromByteArray),
// and for every ACCEPTED document checks what the property promises: the specification calls it valid; a new scheduler
// (scheduler.NewClusterContext) and a running one (ClusterContext.UpdateRMSchedulerConfig on a context that runs another
// configuration) load it without error or panic and with all its placement rules in force; submitting applications (one
// per leaf queue and per placement rule shape) does not panic; validating the same bytes five times gives one verdict.
// A rejected document is never a disagreement (completeness is not claimed).  One JSON line per disagreement.
package confvalid

import (
	"bufio"
	"crypto/sha1"
	"encoding/hex"
	"encoding/json"
	"fmt"
	"io"
	"runtime/debug"
	"sort"
	"strconv"
	"strings"

	"go.yaml.in/yaml/v3"

	"github.com/apache/yunikorn-core/pkg/common/configs"
	"github.com/apache/yunikorn-core/pkg/scheduler"
	"github.com/apache/yunikorn-core/pkg/scheduler/objects"
	"github.com/apache/yunikorn-core/pkg/scheduler/ugm"
	"github.com/apache/yunikorn-scheduler-interface/lib/go/si"

	"verif/harness/drive"
)

const (
	rmID = "rm"
	part = "[rm]default"
	// validations of the same bytes (Go randomises map iteration per run)
	repeats = 5
)

// Res is a sparse resource; TLC prints the resource without types as [].
type Res map[string]int64

func (r *Res) UnmarshalJSON(b []byte) error {
	s := strings.TrimSpace(string(b))
	*r = Res{}
	if s == "[]" || s == "null" {
		return nil
	}
	m := map[string]int64{}
	if err := json.Unmarshal(b, &m); err != nil {
		return err
	}
	*r = m
	return nil
}

type Limit struct {
	Users   []string `json:"users"`
	Groups  []string `json:"groups"`
	Max     Res      `json:"max"`
	MaxApps uint64   `json:"maxApps"`
}

type Tmpl struct {
	Max     Res    `json:"max"`
	Guar    Res    `json:"guar"`
	MaxApps uint64 `json:"maxApps"`
}

type Queue struct {
	Name    []string `json:"name"` // one character per element
	Up      int      `json:"up"`   // index (from 1) of the parent in the list, 0 = top level of the document
	Parent  bool     `json:"parent"`
	Max     Res      `json:"max"`
	Guar    Res      `json:"guar"`
	MaxApps uint64   `json:"maxApps"`
	Limits  []Limit  `json:"limits"`
	Tmpl    Tmpl     `json:"tmpl"`
}

type FilterEntry struct {
	Text string `json:"text"`
	Kind string `json:"kind"`
}

type Rule struct {
	Name    string        `json:"name"`
	Create  bool          `json:"create"`
	Value   [][]string    `json:"value"` // path elements, one character per element
	Ftype   string        `json:"ftype"`
	Fusers  []FilterEntry `json:"fusers"`
	Fgroups []FilterEntry `json:"fgroups"`
}

type Conf struct {
	Queues []Queue  `json:"queues"`
	Rules  [][]Rule `json:"rules"` // chains: outermost parent rule first, the top level rule last
}

type Case struct {
	Fam   string   `json:"fam"`
	Conf  Conf     `json:"conf"`
	Valid bool     `json:"valid"`
	Why   []string `json:"why"`
	Amb   []string `json:"amb"`
}

func quantities(r Res) map[string]string {
	if len(r) == 0 {
		return nil
	}
	out := map[string]string{}
	for k, v := range r {
		out[k] = strconv.FormatInt(v, 10) // a negative number is not a quantity: "-1" is the unparsable value of the families
	}
	return out
}

func texts(es []FilterEntry) []string {
	var out []string
	for _, e := range es {
		out = append(out, e.Text)
	}
	return out
}

func valueString(v [][]string) string {
	parts := make([]string, len(v))
	for i, p := range v {
		parts[i] = strings.Join(p, "")
	}
	return strings.Join(parts, ".")
}

func chainToRule(chain []Rule) configs.PlacementRule {
	var cur *configs.PlacementRule
	for i := range chain {
		r := chain[i]
		pr := configs.PlacementRule{Name: r.Name, Create: r.Create, Value: valueString(r.Value), Parent: cur}
		if r.Ftype != "" || len(r.Fusers) > 0 || len(r.Fgroups) > 0 {
			pr.Filter = configs.Filter{Type: r.Ftype, Users: texts(r.Fusers), Groups: texts(r.Fgroups)}
		}
		cur = &pr
	}
	return *cur
}

// YAML renders the abstract record as a scheduler configuration document (one partition).
func (c *Conf) YAML() ([]byte, error) {
	var build func(i int) configs.QueueConfig
	build = func(i int) configs.QueueConfig {
		q := c.Queues[i-1]
		qc := configs.QueueConfig{Name: strings.Join(q.Name, ""), Parent: q.Parent, MaxApplications: q.MaxApps,
			Resources: configs.Resources{Max: quantities(q.Max), Guaranteed: quantities(q.Guar)}}
		if len(q.Tmpl.Max) > 0 || len(q.Tmpl.Guar) > 0 || q.Tmpl.MaxApps != 0 {
			qc.ChildTemplate = configs.ChildTemplate{MaxApplications: q.Tmpl.MaxApps,
				Resources: configs.Resources{Max: quantities(q.Tmpl.Max), Guaranteed: quantities(q.Tmpl.Guar)}}
		}
		for n, l := range q.Limits {
			qc.Limits = append(qc.Limits, configs.Limit{Limit: "limit" + strconv.Itoa(n+1), Users: l.Users, Groups: l.Groups,
				MaxResources: quantities(l.Max), MaxApplications: l.MaxApps})
		}
		if q.Up == 0 {
			qc.SubmitACL = "*"
		}
		for j := range c.Queues {
			if c.Queues[j].Up == i {
				qc.Queues = append(qc.Queues, build(j+1))
			}
		}
		return qc
	}
	pc := configs.PartitionConfig{Name: "default"}
	for i := range c.Queues {
		if c.Queues[i].Up < 0 || c.Queues[i].Up > i {
			return nil, fmt.Errorf("queue %d: parent index %d is not an earlier queue", i+1, c.Queues[i].Up)
		}
		if c.Queues[i].Up == 0 {
			pc.Queues = append(pc.Queues, build(i+1))
		}
	}
	for _, chain := range c.Rules {
		if len(chain) == 0 {
			return nil, fmt.Errorf("empty rule chain")
		}
		pc.PlacementRules = append(pc.PlacementRules, chainToRule(chain))
	}
	return yaml.Marshal(&configs.SchedulerConfig{Partitions: []configs.PartitionConfig{pc}})
}

// BaseYAML is the configuration a "running scheduler" runs before the accepted document is loaded into it.
const BaseYAML = `
partitions:
  - name: default
    placementrules:
      - name: provided
        create: false
      - name: fixed
        value: root.base.b1
    queues:
      - name: root
        submitacl: '*'
        limits:
          - limit: base
            users: [ub]
            maxapplications: 7
        queues:
          - name: base
            resources:
              max: {memory: 9, pods: 9}
            queues:
              - name: b1
                resources:
                  guaranteed: {memory: 1}
              - name: b2
                maxapplications: 3
          - name: p
            parent: true
          - name: l
`

// Mismatch is one disagreement between the property and the real code.
type Mismatch struct {
	Kind     string          `json:"kind"` // unsound | validate_panic | nondeterministic | load | load_rules | reload | reload_rules | place | place_after_reload
	Fam      string          `json:"fam"`
	Valid    bool            `json:"valid"`
	Why      []string        `json:"why"`
	Amb      []string        `json:"amb"`
	Detail   string          `json:"detail"`
	Panic    string          `json:"panic,omitempty"`
	Stack    []string        `json:"stack,omitempty"` // innermost yunikorn-core frames
	App      string          `json:"app,omitempty"`   // the application submission that panicked
	Verdicts []string        `json:"verdicts,omitempty"`
	YAML     string          `json:"yaml"`
	Case     json.RawMessage `json:"case"`
}

type FamSum struct {
	Cases         int `json:"cases"`
	Accepted      int `json:"accepted"`
	Rejected      int `json:"rejected"`
	AcceptedValid int `json:"acceptedValid"`
	SpecValid     int `json:"specValid"`
	RejectedValid int `json:"rejectedValid"` // valid by the specification, rejected by the code: NOT a disagreement, counted only
}

type Summary struct {
	Cases         int                `json:"cases"`
	Accepted      int                `json:"accepted"`
	Rejected      int                `json:"rejected"`
	AcceptedValid int                `json:"acceptedValid"`
	Loads         int                `json:"loads"`
	Reloads       int                `json:"reloads"`
	AppsSubmitted int                `json:"appsSubmitted"`
	AppsAccepted  int                `json:"appsAccepted"`
	AppsRejected  int                `json:"appsRejected"`
	Validations   int                `json:"validations"`
	Mismatches    int                `json:"mismatches"`
	Distinct      int                `json:"distinctDocuments"`
	ByFam         map[string]*FamSum `json:"byFam"`
	ByKind        map[string]int     `json:"byKind"`
	Samples       []json.RawMessage  `json:"samples"`
}

type Runner struct {
	Out      *bufio.Writer
	Log      io.Writer
	Verdicts io.Writer // optional: one line per case with the code's verdict (informational: completeness is not claimed)
	Sum      Summary
	seen     map[string]bool
}

func NewRunner(out *bufio.Writer) *Runner {
	drive.InitLogger()
	return &Runner{Out: out, Sum: Summary{ByFam: map[string]*FamSum{}, ByKind: map[string]int{}}, seen: map[string]bool{}}
}

func (rn *Runner) RunAll(in io.Reader) error {
	sc := bufio.NewScanner(in)
	sc.Buffer(make([]byte, 1<<20), 1<<26)
	for sc.Scan() {
		if err := rn.RunLine(sc.Text()); err != nil {
			return err
		}
	}
	return sc.Err()
}

// RunLine replays one case given as a line of TLC output or as a JSON object. Lines that are not cases are skipped.
func (rn *Runner) RunLine(line string) error {
	line = strings.TrimSpace(line)
	var raw string
	switch {
	case strings.HasPrefix(line, `<<"CASE", `) && strings.HasSuffix(line, `>>`):
		q := strings.TrimSuffix(strings.TrimPrefix(line, `<<"CASE", `), `>>`)
		if err := json.Unmarshal([]byte(q), &raw); err != nil {
			return fmt.Errorf("bad CASE line: %v: %.200s", err, line)
		}
	case strings.HasPrefix(line, "{"):
		raw = line
	default:
		if rn.Log != nil && line != "" {
			fmt.Fprintln(rn.Log, line)
		}
		return nil
	}
	var c Case
	if err := json.Unmarshal([]byte(raw), &c); err != nil {
		return fmt.Errorf("bad case: %v: %.200s", err, raw)
	}
	return rn.run(&c, raw)
}

// guard runs f and turns a panic into (message, innermost yunikorn-core frames).
func guard(f func()) (msg string, stack []string) {
	defer func() {
		if r := recover(); r != nil {
			msg = fmt.Sprint(r)
			lines := strings.Split(string(debug.Stack()), "\n")
			for i := 0; i+1 < len(lines); i++ {
				l := strings.TrimSpace(lines[i])
				if strings.HasPrefix(l, "github.com/apache/yunikorn-core/") && len(stack) < 4 {
					fn := l
					if k := strings.LastIndex(fn, "("); k > 0 {
						fn = fn[:k]
					}
					stack = append(stack, strings.TrimPrefix(fn, "github.com/apache/yunikorn-core/"))
				}
			}
			if msg == "" {
				msg = "panic"
			}
		}
	}()
	f()
	return "", nil
}

func resetSingletons() {
	um := ugm.GetUserManager()
	um.ClearUserTrackers()
	um.ClearGroupTrackers()
	um.ClearConfigLimits()
}

func validate(doc []byte) (verdict string, panicMsg string, stack []string) {
	panicMsg, stack = guard(func() {
		if _, err := configs.LoadSchedulerConfigFromByteArray(doc); err != nil {
			verdict = "rejected: " + err.Error()
		} else {
			verdict = "accepted"
		}
	})
	return
}

func leaves(q *objects.Queue, out *[]string) {
	kids := q.GetCopyOfChildren()
	if len(kids) == 0 && q.IsLeafQueue() {
		*out = append(*out, q.GetQueuePath())
		return
	}
	names := make([]string, 0, len(kids))
	for n := range kids {
		names = append(names, n)
	}
	sort.Strings(names)
	for _, n := range names {
		leaves(kids[n], out)
	}
}

type submission struct {
	queue, user string
	groups      []string
}

// submitAll submits one application per leaf queue of the loaded tree and per placement rule shape (no queue, an
// unqualified name, a queue that does not exist; a second user without groups for the filters). Rejections are fine.
func (rn *Runner) submitAll(cc *scheduler.ClusterContext, tag string) (bad *submission, msg string, stack []string) {
	pc := cc.GetPartition(part)
	if pc == nil {
		return &submission{}, "partition " + part + " does not exist after the load", nil
	}
	var subs []submission
	var ls []string
	leaves(pc.VerifRoot(), &ls)
	for _, l := range ls {
		subs = append(subs, submission{l, "u1", []string{"g1"}})
	}
	subs = append(subs, submission{"", "u1", []string{"g1"}}, submission{"", "u2", nil}, submission{"zz", "u1", []string{"g1"}},
		submission{"root.zz.yy", "u1", []string{"g1"}})
	h := drive.NewShim()
	cc.VerifSetEventHandler(h)
	for i := range subs {
		s := subs[i]
		req := &si.AddApplicationRequest{ApplicationID: fmt.Sprintf("%s-app-%d", tag, i), QueueName: s.queue, PartitionName: part,
			Ugi: &si.UserGroupInformation{User: s.user, Groups: s.groups}, Tags: map[string]string{"ns": "ns1"}, ExecutionTimeoutMilliSeconds: 3600000}
		rn.Sum.AppsSubmitted++
		msg, stack = guard(func() {
			cc.VerifUpdateApplications(&si.ApplicationRequest{RmID: rmID, New: []*si.AddApplicationRequest{req}})
		})
		if msg != "" {
			return &s, msg, stack
		}
	}
	ms, _ := h.Drain()
	for _, m := range ms {
		switch m["t"] {
		case "appAccepted":
			rn.Sum.AppsAccepted++
		case "appRejected":
			rn.Sum.AppsRejected++
		}
	}
	return nil, "", nil
}

func (rn *Runner) emit(m Mismatch) {
	rn.Sum.Mismatches++
	rn.Sum.ByKind[m.Kind]++
	b, _ := json.Marshal(m)
	rn.Out.Write(b)
	rn.Out.WriteByte('\n')
}

func (rn *Runner) run(c *Case, raw string) error {
	doc, err := c.Conf.YAML()
	if err != nil {
		return fmt.Errorf("cannot render case: %v: %.300s", err, raw)
	}
	fs := rn.Sum.ByFam[c.Fam]
	if fs == nil {
		fs = &FamSum{}
		rn.Sum.ByFam[c.Fam] = fs
	}
	rn.Sum.Cases++
	fs.Cases++
	if c.Valid {
		fs.SpecValid++
	}
	if !rn.seen[string(doc)] {
		rn.seen[string(doc)] = true
		rn.Sum.Distinct++
	}
	mk := func(kind, detail string) Mismatch {
		return Mismatch{Kind: kind, Fam: c.Fam, Valid: c.Valid, Why: c.Why, Amb: c.Amb, Detail: detail, YAML: string(doc), Case: json.RawMessage(raw)}
	}

	// validation, repeated: one verdict
	verdicts := make([]string, 0, repeats)
	accepted, differ := false, false
	for i := 0; i < repeats; i++ {
		v, pm, st := validate(doc)
		rn.Sum.Validations++
		if pm != "" {
			m := mk("validate_panic", "validation panicked")
			m.Panic, m.Stack = pm, st
			rn.emit(m)
			return nil
		}
		verdicts = append(verdicts, v)
		if i == 0 {
			accepted = v == "accepted"
		} else if (v == "accepted") != accepted {
			differ = true
		}
	}
	if differ {
		m := mk("nondeterministic", "validation of the same bytes gave different verdicts")
		m.Verdicts = verdicts
		rn.emit(m)
		return nil
	}
	if len(rn.Sum.Samples) < 6 && (rn.Sum.Cases%7 == 1) {
		s, _ := json.Marshal(map[string]interface{}{"fam": c.Fam, "yaml": string(doc), "spec_valid": c.Valid, "violated": c.Why, "code": verdicts[0]})
		rn.Sum.Samples = append(rn.Sum.Samples, s)
	}
	if rn.Verdicts != nil {
		h := sha1.Sum(doc)
		b, _ := json.Marshal(map[string]interface{}{"fam": c.Fam, "valid": c.Valid, "why": c.Why, "amb": c.Amb, "code": verdicts[0], "doc": hex.EncodeToString(h[:8])})
		fmt.Fprintln(rn.Verdicts, string(b))
	}
	if !accepted {
		rn.Sum.Rejected++
		fs.Rejected++
		if c.Valid {
			fs.RejectedValid++
		}
		return nil
	}
	rn.Sum.Accepted++
	fs.Accepted++
	if c.Valid {
		rn.Sum.AcceptedValid++
		fs.AcceptedValid++
	} else {
		rn.emit(mk("unsound", "accepted by validation, but the specification's rules "+strings.Join(c.Why, ", ")+" are violated"))
	}
	wantRules := len(c.Conf.Rules) + 1 // + the recovery rule
	if len(c.Conf.Rules) == 0 {
		wantRules = 2 // implicit provided rule + recovery rule
	}

	// a new scheduler
	resetSingletons()
	var cc *scheduler.ClusterContext
	var lerr error
	pm, st := guard(func() { cc, lerr = scheduler.NewClusterContext(rmID, "pg", doc) })
	rn.Sum.Loads++
	switch {
	case pm != "":
		m := mk("load", "NewClusterContext panicked on an accepted configuration")
		m.Panic, m.Stack = pm, st
		rn.emit(m)
	case lerr != nil:
		rn.emit(mk("load", "NewClusterContext failed on an accepted configuration: "+lerr.Error()))
	default:
		cc.VerifStopCleaners()
		if pc := cc.GetPartition(part); pc != nil && len(pc.GetPlacementRules()) != wantRules {
			rn.emit(mk("load_rules", fmt.Sprintf("new scheduler runs %d placement rules, the accepted configuration needs %d (with the recovery rule)", len(pc.GetPlacementRules()), wantRules)))
		}
		if s, pm, st := rn.submitAll(cc, "new"); pm != "" {
			m := mk("place", "submitting an application to the new scheduler panicked")
			m.Panic, m.Stack, m.App = pm, st, fmt.Sprintf("queue=%q user=%s groups=%v", s.queue, s.user, s.groups)
			rn.emit(m)
		}
	}

	// a running scheduler
	resetSingletons()
	var base *scheduler.ClusterContext
	if pm, _ := guard(func() { base, lerr = scheduler.NewClusterContext(rmID, "pg", []byte(BaseYAML)) }); pm != "" || lerr != nil {
		return fmt.Errorf("the base configuration does not load: %s %v", pm, lerr)
	}
	base.VerifStopCleaners()
	pm, st = guard(func() { lerr = base.UpdateRMSchedulerConfig(rmID, doc) })
	rn.Sum.Reloads++
	switch {
	case pm != "":
		m := mk("reload", "UpdateRMSchedulerConfig panicked on an accepted configuration")
		m.Panic, m.Stack = pm, st
		rn.emit(m)
	case lerr != nil:
		rn.emit(mk("reload", "UpdateRMSchedulerConfig failed on an accepted configuration: "+lerr.Error()))
	default:
		if pc := base.GetPartition(part); pc != nil && len(pc.GetPlacementRules()) != wantRules {
			rn.emit(mk("reload_rules", fmt.Sprintf("running scheduler has %d placement rules after the reload, the accepted configuration needs %d", len(pc.GetPlacementRules()), wantRules)))
		}
		if s, pm, st := rn.submitAll(base, "run"); pm != "" {
			m := mk("place_after_reload", "submitting an application after the reload panicked")
			m.Panic, m.Stack, m.App = pm, st, fmt.Sprintf("queue=%q user=%s groups=%v", s.queue, s.user, s.groups)
			rn.emit(m)
		}
	}
	return nil
}
