// ykh drives the real yunikorn-core and writes NDJSON traces for validation against spec/YKTrace.tla.
package main

import (
	"bufio"
	"encoding/json"
	"flag"
	"fmt"
	"os"
	"time"

	"verif/harness/drive"
)

func main() {
	if len(os.Args) < 2 {
		fmt.Fprintln(os.Stderr, "usage: ykh drive|replay ...")
		os.Exit(2)
	}
	switch os.Args[1] {
	case "drive":
		driveCmd(os.Args[2:])
	default:
		if f, ok := extra[os.Args[1]]; ok {
			f(os.Args[2:])
			return
		}
		fmt.Fprintln(os.Stderr, "unknown command", os.Args[1])
		os.Exit(2)
	}
}

var extra = map[string]func([]string){"conc": concCmd, "gate": gateCmd}

func gateCmd(args []string) {
	fs := flag.NewFlagSet("gate", flag.ExitOnError)
	scf := fs.String("scenarios", "", "JSON file with a list of gate scenarios")
	out := fs.String("out", "gate.ndjson", "output trace")
	_ = fs.Parse(args)
	b, err := os.ReadFile(*scf)
	if err != nil {
		fatal(err)
	}
	var scs []drive.GateScenario
	if err := json.Unmarshal(b, &scs); err != nil {
		fatal(err)
	}
	f, err := os.Create(*out)
	if err != nil {
		fatal(err)
	}
	bw := bufio.NewWriterSize(f, 1<<20)
	r := &drive.Runner{Enc: json.NewEncoder(bw), Teardown: true}
	for i := range scs {
		if err := drive.RunGateScenario(&scs[i], r); err != nil {
			fatal(err)
		}
	}
	if err := bw.Flush(); err != nil {
		fatal(err)
	}
	f.Close()
	fmt.Printf("{\"traces\":%d,\"steps\":%d}\n", r.Traces, r.Steps)
}

func concCmd(args []string) {
	fs := flag.NewFlagSet("conc", flag.ExitOnError)
	profile := fs.String("profile", "core", "workload profile")
	seed := fs.Int64("seed", 1, "seed")
	ms := fs.Int("ms", 1500, "duration of the input phase in milliseconds")
	workers := fs.Int("workers", 4, "request streams")
	out := fs.String("out", "conc.ndjson", "output (reset line + final line); lock edges in <out>.locks.json")
	locks := fs.Bool("locks", false, "record lock acquisition edges (slow)")
	_ = fs.Parse(args)
	res, err := drive.RunConcurrent(*profile, *seed, time.Duration(*ms)*time.Millisecond, *workers, *out, *locks)
	if err != nil {
		fatal(err)
	}
	b, _ := json.Marshal(res)
	fmt.Println(string(b))
}

func driveCmd(args []string) {
	fs := flag.NewFlagSet("drive", flag.ExitOnError)
	profile := fs.String("profile", "core", "workload profile")
	seed := fs.Int64("seed", 1, "seed")
	traces := fs.Int("traces", 1, "number of traces")
	steps := fs.Int("steps", 80, "steps per trace")
	opsFile := fs.String("ops", "", "replay operations from this NDJSON file instead of generating")
	out := fs.String("out", "trace.ndjson", "output trace")
	teardown := fs.Bool("teardown", true, "append the release-everything epilogue")
	_ = fs.Parse(args)
	f, err := os.Create(*out)
	if err != nil {
		fatal(err)
	}
	bw := bufio.NewWriterSize(f, 1<<20)
	r := &drive.Runner{Enc: json.NewEncoder(bw), Teardown: *teardown, AllowIllegal: *profile == "bad"}
	if *opsFile != "" {
		in, err := os.Open(*opsFile)
		if err != nil {
			fatal(err)
		}
		err = drive.ReadOps(in, func(op drive.M) error {
			if op["op"] == "reset" {
				if err := r.Finish(); err != nil {
					return err
				}
			}
			return r.Step(op)
		})
		if err != nil {
			fatal(err)
		}
		if err := r.Finish(); err != nil {
			fatal(err)
		}
	} else {
		p := drive.GetProfile(*profile)
		for t := 0; t < *traces; t++ {
			g := drive.NewGen(p, *seed*1000003+int64(t))
			first := g.First()
			first["seed"], first["tr"] = *seed, t
			if err := r.Step(first); err != nil {
				fatal(err)
			}
			for _, op := range g.Prologue() {
				if err := r.Step(op); err != nil {
					fatal(err)
				}
			}
			for s := 0; s < *steps; s++ {
				if err := r.Step(g.Next()); err != nil {
					fatal(err)
				}
			}
			if err := r.Finish(); err != nil {
				fatal(err)
			}
		}
	}
	if err := bw.Flush(); err != nil {
		fatal(err)
	}
	f.Close()
	fmt.Printf("{\"traces\":%d,\"steps\":%d}\n", r.Traces, r.Steps)
}

func fatal(err error) {
	fmt.Fprintln(os.Stderr, "ykh:", err)
	os.Exit(2)
}
