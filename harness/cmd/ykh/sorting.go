package main

import (
	"bufio"
	"encoding/json"
	"flag"
	"fmt"
	"os"

	"verif/harness/sorting"
)

// C19: `ykh sortrec` records calls of the real sorters on every permutation of small candidate sets (NDJSON for
// spec/SortingTrace.tla); `ykh nodecoll` replays TLC-generated behaviours of spec/NodeColl.tla on a real NodeCollection.
func init() {
	extra["sortrec"] = sortrecCmd
	extra["nodecoll"] = nodecollCmd
}

func sortrecCmd(args []string) {
	fs := flag.NewFlagSet("sortrec", flag.ExitOnError)
	out := fs.String("out", "sort.ndjson", "output NDJSON")
	seed := fs.Int64("seed", 1, "seed of the random candidate sets")
	size := fs.String("size", "quick", "quick|thorough")
	groupsFile := fs.String("groups", "", "record exactly the candidate sets of this JSON file (array of groups) instead of generating")
	shards := fs.Int("shards", 1, "write out.0 .. out.N-1, groups dealt round-robin (one TLC process each)")
	_ = fs.Parse(args)
	var groups []sorting.Group
	if *groupsFile != "" {
		b, err := os.ReadFile(*groupsFile)
		if err != nil {
			fatal(err)
		}
		if err := json.Unmarshal(b, &groups); err != nil {
			fatal(err)
		}
	} else {
		groups = sorting.Generate(*seed, *size)
	}
	total, ng := 0, 0
	kinds := map[string]int{}
	for s := 0; s < *shards; s++ {
		name := *out
		if *shards > 1 {
			name = fmt.Sprintf("%s.%d", *out, s)
		}
		f, err := os.Create(name)
		if err != nil {
			fatal(err)
		}
		bw := bufio.NewWriterSize(f, 1<<20)
		var part []sorting.Group
		var index []int
		for i, g := range groups {
			if i%*shards == s {
				part = append(part, g)
				index = append(index, i)
				kinds[g.K]++
			}
		}
		r, err := sorting.RecordAll(part, index, bw)
		if err != nil {
			fatal(err)
		}
		if err := bw.Flush(); err != nil {
			fatal(err)
		}
		f.Close()
		total += r.Records
		ng += r.Groups
	}
	gb, err := json.Marshal(groups)
	if err != nil {
		fatal(err)
	}
	if err := os.WriteFile(*out+".groups.json", gb, 0o644); err != nil {
		fatal(err)
	}
	b, _ := json.Marshal(map[string]any{"records": total, "groups": ng, "kinds": kinds})
	fmt.Println(string(b))
}

func nodecollCmd(args []string) {
	fs := flag.NewFlagSet("nodecoll", flag.ExitOnError)
	cases := fs.String("cases", "", "TLC output with CONF and CASE lines")
	out := fs.String("out", "", "write the mismatches (NDJSON) here")
	maxFails := fs.Int("maxfails", 50, "keep details of at most this many failing cases")
	_ = fs.Parse(args)
	f, err := os.Open(*cases)
	if err != nil {
		fatal(err)
	}
	defer f.Close()
	res, err := sorting.ReplayNodeColl(bufio.NewReaderSize(f, 1<<20), *maxFails)
	if err != nil {
		fatal(err)
	}
	if *out != "" {
		o, err := os.Create(*out)
		if err != nil {
			fatal(err)
		}
		enc := json.NewEncoder(o)
		for _, fl := range res.Fails {
			if err := enc.Encode(fl); err != nil {
				fatal(err)
			}
		}
		o.Close()
	}
	b, _ := json.Marshal(map[string]any{"cases": res.Cases, "steps": res.Steps, "checks": res.Checks, "fail_cases": res.FailCases, "fail_kf": res.FailKF,
		"ops": res.OpCount, "reserved_skips": res.ReservedSkips, "tie_steps": res.TieSteps, "ordered_steps": res.OrderedSteps})
	fmt.Println(string(b))
}
