package main

import (
	"bufio"
	"encoding/json"
	"flag"
	"fmt"
	"os"

	"verif/harness/placement"
)

// ykh placement -cases <file> [-out <file>] [-log <file>] [-shard i -shards n]: replay the C17 cases enumerated by TLC
// (spec/MC_Placement.tla) against a real ClusterContext; one JSON line per mismatch, a summary on stderr.
// With -shards n only the configurations whose hash is i modulo n are replayed (the core has process-wide singletons,
// so parallelism is by process).
func init() {
	extra["placement"] = func(args []string) {
		fs := flag.NewFlagSet("placement", flag.ExitOnError)
		cases := fs.String("cases", "", "file with LAYOUT / CASE lines (TLC output) or bare JSON cases, - for stdin")
		out := fs.String("out", "", "mismatch file (default stdout)")
		logf := fs.String("log", "", "copy the lines that are not cases (TLC's messages) to this file")
		shard := fs.Int("shard", 0, "shard index")
		shards := fs.Int("shards", 1, "number of shards")
		_ = fs.Parse(args)
		in := os.Stdin
		if *cases != "" && *cases != "-" {
			f, err := os.Open(*cases)
			if err != nil {
				fatal(err)
			}
			defer f.Close()
			in = f
		}
		w := os.Stdout
		if *out != "" {
			f, err := os.Create(*out)
			if err != nil {
				fatal(err)
			}
			defer f.Close()
			w = f
		}
		bw := bufio.NewWriterSize(w, 1<<20)
		rn := placement.NewRunner(bw)
		rn.Shard, rn.Shards = *shard, *shards
		if *logf != "" {
			f, err := os.Create(*logf)
			if err != nil {
				fatal(err)
			}
			defer f.Close()
			rn.Log = f
		}
		if err := rn.Read(in); err != nil {
			fatal(err)
		}
		if err := rn.Run(); err != nil {
			_ = bw.Flush()
			fatal(err)
		}
		if err := bw.Flush(); err != nil {
			fatal(err)
		}
		s, _ := json.Marshal(rn.Sum)
		fmt.Fprintln(os.Stderr, string(s))
	}
}
