package main

import (
	"bufio"
	"encoding/json"
	"flag"
	"fmt"
	"os"

	"verif/harness/resarith"
)

// ykh resarith -cases <file> [-out <file>] [-log <file>]: replay the C18 cases enumerated by TLC (spec/MC_ResOps.tla,
// spec/MC_Quantity.tla) against the real pkg/common/resources; one JSON line per mismatch, a summary on stdout.
func init() {
	extra["resarith"] = func(args []string) {
		fs := flag.NewFlagSet("resarith", flag.ExitOnError)
		cases := fs.String("cases", "", "file with CASE lines (TLC output) or bare JSON cases, - for stdin")
		out := fs.String("out", "", "mismatch file (default stdout)")
		logf := fs.String("log", "", "copy the lines that are not cases (TLC's messages) to this file")
		_ = fs.Parse(args)
		in := os.Stdin
		if *cases != "" && *cases != "-" {
			f, err := os.Open(*cases)
			if err != nil {
				fatal(err)
			}
			defer f.Close()
			in = f
		}
		w := os.Stdout
		if *out != "" {
			f, err := os.Create(*out)
			if err != nil {
				fatal(err)
			}
			defer f.Close()
			w = f
		}
		bw := bufio.NewWriterSize(w, 1<<20)
		rn := resarith.NewRunner(bw)
		if *logf != "" {
			f, err := os.Create(*logf)
			if err != nil {
				fatal(err)
			}
			defer f.Close()
			rn.Log = f
		}
		if err := rn.RunAll(in); err != nil {
			fatal(err)
		}
		if err := bw.Flush(); err != nil {
			fatal(err)
		}
		s, _ := json.Marshal(rn.Sum)
		fmt.Fprintln(os.Stderr, string(s))
	}
}
