package main

import (
	"bufio"
	"encoding/json"
	"flag"
	"fmt"
	"os"

	"verif/harness/confvalid"
)

// ykh confvalid -cases <file> [-out <file>] [-log <file>] [-verdicts <file>]: replay the C15 cases enumerated by TLC
// (spec/MC_ConfigValid.tla) against the real validator and loader; one JSON line per disagreement, a summary on stderr.
func init() {
	extra["confvalid"] = func(args []string) {
		fs := flag.NewFlagSet("confvalid", flag.ExitOnError)
		cases := fs.String("cases", "", "file with CASE lines (TLC output) or bare JSON cases, - for stdin")
		out := fs.String("out", "", "disagreement file (default stdout)")
		logf := fs.String("log", "", "copy the lines that are not cases (TLC's messages) to this file")
		verdicts := fs.String("verdicts", "", "write the code's verdict for every case to this file")
		_ = fs.Parse(args)
		in := os.Stdin
		if *cases != "" && *cases != "-" {
			f, err := os.Open(*cases)
			if err != nil {
				fatal(err)
			}
			defer f.Close()
			in = f
		}
		w := os.Stdout
		if *out != "" {
			f, err := os.Create(*out)
			if err != nil {
				fatal(err)
			}
			defer f.Close()
			w = f
		}
		bw := bufio.NewWriterSize(w, 1<<20)
		rn := confvalid.NewRunner(bw)
		if *logf != "" {
			f, err := os.Create(*logf)
			if err != nil {
				fatal(err)
			}
			defer f.Close()
			rn.Log = f
		}
		if *verdicts != "" {
			f, err := os.Create(*verdicts)
			if err != nil {
				fatal(err)
			}
			defer f.Close()
			vw := bufio.NewWriterSize(f, 1<<20)
			defer vw.Flush()
			rn.Verdicts = vw
		}
		if err := rn.RunAll(in); err != nil {
			fatal(err)
		}
		if err := bw.Flush(); err != nil {
			fatal(err)
		}
		s, _ := json.Marshal(rn.Sum)
		fmt.Fprintln(os.Stderr, string(s))
	}
}
