// Package resarith replays the cases enumerated by TLC from spec/MC_ResOps.tla and spec/MC_Quantity.tla (property C18)
// against the real functions of github.com/apache/yunikorn-core/pkg/common/resources and reports every disagreement.
//
// A case is one line `<<"CASE", "<json>">>` of TLC's output (or the bare JSON object, as stored in replay files):
//
//	{"op":"Sub","x":{"a":[-4,1]},"y":"Nil","want":{"a":[-4,1]},"sparse":false}
//	{"op":"ParseVCore","s":["1","0","m"],"want":{"kind":"exact","digits":["1","0"],"a":0,"b":0,"mant":10}}
//
// Scalars are boundary-symbolic pairs [k, r] = k*2^61 + r (spec/Int64Sat.tla); a resource is "Nil", [] (no types) or an
// object; want may also be "NoTypes" (nil or empty accepted), "Unspec" (any boolean accepted) or {"res":..,"err":..}.
// The expected value of every vector case is computed by the specification; the harness only converts representations.
// For the quantity cases the specification gives the value in symbolic form (numeral * 10^a * 2^b); evalSymbolic is the
// only place where an expected number is computed outside TLC.
package resarith

import (
	"bufio"
	"encoding/json"
	"fmt"
	"io"
	"math/big"
	"sort"
	"strings"

	"go.uber.org/zap"
	"go.uber.org/zap/zapcore"

	"github.com/apache/yunikorn-core/pkg/common/resources"
	"github.com/apache/yunikorn-core/pkg/log"
)

type Case struct {
	Op     string          `json:"op"`
	X      json.RawMessage `json:"x,omitempty"`
	Y      json.RawMessage `json:"y,omitempty"`
	Want   json.RawMessage `json:"want"`
	Sparse bool            `json:"sparse,omitempty"`
	S      []string        `json:"s,omitempty"`
}

// Mismatch is one line of the output file.
type Mismatch struct {
	Kind   string          `json:"kind"` // result | modified | panic | oracle
	Op     string          `json:"op"`
	Case   json.RawMessage `json:"case"`          // the case exactly as enumerated (replayable)
	X64    interface{}     `json:"x64,omitempty"` // the concrete int64 arguments
	Y64    interface{}     `json:"y64,omitempty"` //
	Str    *string         `json:"string,omitempty"`
	Want64 interface{}     `json:"want64"`         // expected, concrete
	Got    interface{}     `json:"got"`            // actual, concrete
	Diff   []string        `json:"diff,omitempty"` // resource types whose value or presence differs
	ErrDif bool            `json:"errdiff,omitempty"`
	Detail string          `json:"detail,omitempty"`
}

type Summary struct {
	Cases      int            `json:"cases"`
	Mismatches int            `json:"mismatches"`
	ByOp       map[string]int `json:"byOp"`
	Overflowed int            `json:"saturatingCases"` // cases whose expected result contains MinInt64 or MaxInt64
	NonTrivial int            `json:"nonTrivial"`      // vector: determined expectation and some argument defines a type; quantity: string in the grammar
	Unspec     int            `json:"unspecified"`     // predicate cases whose value the documentation leaves open (only nil-safety, panics and argument mutation are checked)
	QuantOK    int            `json:"quantityAccepted"`
	QuantOver  int            `json:"quantityUnrepresentable"`
	QuantLen   int            `json:"quantityLenient"`
	QuantErr   int            `json:"quantityOutsideGrammar"`
	Samples    []string       `json:"samples"`
}

var (
	two61  = new(big.Int).Lsh(big.NewInt(1), 61)
	minI64 = int64(-1 << 63)
	maxI64 = int64(1<<63 - 1)
)

func initLogger() {
	// the wrap warnings of addVal/mulVal would otherwise be printed once per saturating case
	log.InitializeLogger(zap.NewNop(), &zap.Config{Level: zap.NewAtomicLevelAt(zapcore.FatalLevel)})
}

// scalar converts [k, r] to the int64 it denotes.
func scalar(p [2]int64) (int64, error) {
	v := new(big.Int).Mul(big.NewInt(p[0]), two61)
	v.Add(v, big.NewInt(p[1]))
	if !v.IsInt64() {
		return 0, fmt.Errorf("scalar %v is outside int64", p)
	}
	return v.Int64(), nil
}

type res struct {
	isNil   bool
	noTypes bool // want only: nil or empty
	m       map[string]int64
}

func decodeRes(raw json.RawMessage) (res, error) {
	s := strings.TrimSpace(string(raw))
	switch {
	case s == `"Nil"`:
		return res{isNil: true}, nil
	case s == `"NoTypes"`:
		return res{noTypes: true}, nil
	case s == `[]` || s == `{}`:
		return res{m: map[string]int64{}}, nil
	case strings.HasPrefix(s, "{"):
		var o map[string][2]int64
		if err := json.Unmarshal(raw, &o); err != nil {
			return res{}, err
		}
		m := make(map[string]int64, len(o))
		for k, p := range o {
			v, err := scalar(p)
			if err != nil {
				return res{}, err
			}
			m[k] = v
		}
		return res{m: m}, nil
	}
	return res{}, fmt.Errorf("not a resource: %s", s)
}

func (r res) build() *resources.Resource {
	if r.isNil {
		return nil
	}
	m := make(map[string]resources.Quantity, len(r.m))
	for k, v := range r.m {
		m[k] = resources.Quantity(v)
	}
	return &resources.Resource{Resources: m}
}

func fromReal(r *resources.Resource) res {
	if r == nil {
		return res{isNil: true}
	}
	m := make(map[string]int64, len(r.Resources))
	for k, v := range r.Resources {
		m[k] = int64(v)
	}
	return res{m: m}
}

// show renders a resource with decimal int64 values (strings, so that no JSON reader rounds them).
func (r res) show() interface{} {
	switch {
	case r.isNil:
		return "nil"
	case r.noTypes:
		return "nil or {}"
	}
	o := map[string]string{}
	for k, v := range r.m {
		o[k] = fmt.Sprint(v)
	}
	return o
}

func sameRes(a, b res) bool {
	if a.isNil != b.isNil || len(a.m) != len(b.m) {
		return false
	}
	for k, v := range a.m {
		if w, ok := b.m[k]; !ok || w != v {
			return false
		}
	}
	return true
}

// diffRes compares an actual resource with the expected one; it returns the types that differ (nil for agreement) and ok.
func diffRes(want, got res, sparse bool) ([]string, bool) {
	if want.noTypes {
		return nil, got.isNil || len(got.m) == 0
	}
	if want.isNil || got.isNil {
		return nil, want.isNil && got.isNil
	}
	var d []string
	for k, w := range want.m {
		g, ok := got.m[k]
		if sparse && !ok {
			g, ok = 0, true
		}
		if !ok || g != w {
			d = append(d, k)
		}
	}
	for k := range got.m {
		if _, ok := want.m[k]; !ok {
			d = append(d, k)
		}
	}
	sort.Strings(d)
	return d, len(d) == 0
}

type outcome struct {
	kind string // res | bool | reserr
	r    res
	b    bool
	err  bool
}

func (o outcome) show() interface{} {
	switch o.kind {
	case "bool":
		return o.b
	case "reserr":
		return map[string]interface{}{"res": o.r.show(), "err": o.err}
	}
	return o.r.show()
}

func saturates(r res) bool {
	for _, v := range r.m {
		if v == minI64 || v == maxI64 {
			return true
		}
	}
	return false
}

// call runs the real operator. x and y are fresh objects owned by this call.
func call(op string, x, y *resources.Resource, ratio int64) (outcome, error) {
	R := func(r *resources.Resource) (outcome, error) { return outcome{kind: "res", r: fromReal(r)}, nil }
	B := func(b bool) (outcome, error) { return outcome{kind: "bool", b: b}, nil }
	switch op {
	case "Add":
		return R(resources.Add(x, y))
	case "Sub":
		return R(resources.Sub(x, y))
	case "AddTo": // in place: the result is the receiver afterwards
		x.AddTo(y)
		return R(x)
	case "SubFrom":
		x.SubFrom(y)
		return R(x)
	case "SubOnlyExisting":
		return R(resources.SubOnlyExisting(x, y))
	case "AddOnlyExisting":
		return R(resources.AddOnlyExisting(x, y))
	case "SubEliminateNegative":
		return R(resources.SubEliminateNegative(x, y))
	case "SubErrorNegative":
		r, err := resources.SubErrorNegative(x, y)
		return outcome{kind: "reserr", r: fromReal(r), err: err != nil}, nil
	case "Multiply":
		return R(resources.Multiply(x, ratio))
	case "FitIn":
		return B(x.FitIn(y))
	case "FitInMaxUndef":
		return B(x.FitInMaxUndef(y))
	case "FitInActual":
		return B(x.FitInActual(y))
	case "ComponentWiseMin":
		return R(resources.ComponentWiseMin(x, y))
	case "ComponentWiseMinOnlyExisting":
		return R(resources.ComponentWiseMinOnlyExisting(x, y))
	case "ComponentWiseMax":
		return R(resources.ComponentWiseMax(x, y))
	case "MergeIfNotPresent":
		return R(resources.MergeIfNotPresent(x, y))
	case "StrictlyGreaterThan":
		return B(resources.StrictlyGreaterThan(x, y))
	case "StrictlyGreaterThanOrEquals":
		return B(resources.StrictlyGreaterThanOrEquals(x, y))
	case "StrictlyGreaterThanOnlyExisting":
		return B(x.StrictlyGreaterThanOnlyExisting(y))
	case "StrictlyGreaterThanOrEqualsOnlyExisting":
		return B(x.StrictlyGreaterThanOrEqualsOnlyExisting(y))
	case "StrictlyGreaterThanZero":
		return B(resources.StrictlyGreaterThanZero(x))
	case "Equals":
		return B(resources.Equals(x, y))
	case "DeepEquals":
		return B(resources.DeepEquals(x, y))
	case "EqualsOrEmpty":
		return B(resources.EqualsOrEmpty(x, y))
	case "MatchAny":
		return B(x.MatchAny(y))
	case "IsZero":
		return B(resources.IsZero(x))
	case "IsEmpty":
		return B(x.IsEmpty())
	case "HasNegativeValue":
		return B(x.HasNegativeValue())
	case "Clone":
		return R(x.Clone())
	case "Prune": // in place: the result is the receiver afterwards
		x.Prune()
		return R(x)
	}
	return outcome{}, fmt.Errorf("unknown operator %q", op)
}

var inPlace = map[string]bool{"Prune": true, "AddTo": true, "SubFrom": true}
var unary = map[string]bool{"StrictlyGreaterThanZero": true, "IsZero": true, "IsEmpty": true, "HasNegativeValue": true, "Clone": true, "Prune": true}

// Runner accumulates the results of a replay.
type Runner struct {
	Sum Summary
	Out *json.Encoder
	Log io.Writer // lines that are not cases (TLC's own messages) are copied here
}

func NewRunner(out io.Writer) *Runner {
	initLogger()
	return &Runner{Sum: Summary{ByOp: map[string]int{}}, Out: json.NewEncoder(out)}
}

// nonTrivial counts a non-trivial case and keeps a few of them as samples for the evidence file.
func (rn *Runner) nonTrivial(raw string) {
	rn.Sum.NonTrivial++
	if len(rn.Sum.Samples) < 8 && rn.Sum.NonTrivial%977 == 1 {
		rn.Sum.Samples = append(rn.Sum.Samples, raw)
	}
}

func (rn *Runner) report(m Mismatch) {
	rn.Sum.Mismatches++
	_ = rn.Out.Encode(m)
}

// RunLine replays one case given as a line of TLC output or as a JSON object. Lines that are not cases are skipped.
func (rn *Runner) RunLine(line string) error {
	line = strings.TrimSpace(line)
	var raw string
	switch {
	case strings.HasPrefix(line, `<<"CASE", `) && strings.HasSuffix(line, `>>`):
		q := strings.TrimSuffix(strings.TrimPrefix(line, `<<"CASE", `), `>>`)
		if err := json.Unmarshal([]byte(q), &raw); err != nil {
			return fmt.Errorf("bad CASE line: %v: %.200s", err, line)
		}
	case strings.HasPrefix(line, "{"):
		raw = line
	default:
		if rn.Log != nil && line != "" {
			fmt.Fprintln(rn.Log, line)
		}
		return nil
	}
	var c Case
	if err := json.Unmarshal([]byte(raw), &c); err != nil {
		return fmt.Errorf("bad case: %v: %.200s", err, raw)
	}
	rn.Sum.Cases++
	rn.Sum.ByOp[c.Op]++
	if c.Op == "ParseQuantity" || c.Op == "ParseVCore" {
		return rn.runQuantity(c, raw)
	}
	return rn.runVector(c, raw)
}

func (rn *Runner) runVector(c Case, raw string) (err error) {
	x, err := decodeRes(c.X)
	if err != nil {
		return err
	}
	var y res
	var ratio int64
	var y64 interface{}
	switch {
	case c.Op == "Multiply":
		var p [2]int64
		if err = json.Unmarshal(c.Y, &p); err != nil {
			return err
		}
		if ratio, err = scalar(p); err != nil {
			return err
		}
		y64 = fmt.Sprint(ratio)
	case unary[c.Op]:
		y = res{isNil: true}
	default:
		if y, err = decodeRes(c.Y); err != nil {
			return err
		}
		y64 = y.show()
	}
	// expected outcome
	var want outcome
	ws := strings.TrimSpace(string(c.Want))
	unspec := false
	switch {
	case ws == "true" || ws == "false":
		want = outcome{kind: "bool", b: ws == "true"}
	case ws == `"Unspec"`:
		want, unspec = outcome{kind: "bool"}, true
	case strings.HasPrefix(ws, `{"res":`):
		var re struct {
			Res json.RawMessage `json:"res"`
			Err bool            `json:"err"`
		}
		if err = json.Unmarshal(c.Want, &re); err != nil {
			return err
		}
		want = outcome{kind: "reserr", err: re.Err}
		if want.r, err = decodeRes(re.Res); err != nil {
			return err
		}
	default:
		want = outcome{kind: "res"}
		if want.r, err = decodeRes(c.Want); err != nil {
			return err
		}
	}
	if want.kind != "bool" && saturates(want.r) {
		rn.Sum.Overflowed++
	}
	if unspec {
		rn.Sum.Unspec++
	} else if len(x.m) > 0 || len(y.m) > 0 {
		rn.nonTrivial(raw)
	}
	mk := func(kind string) Mismatch {
		m := Mismatch{Kind: kind, Op: c.Op, Case: json.RawMessage(raw), X64: x.show(), Y64: y64, Want64: want.show()}
		if unspec {
			m.Want64 = "unspecified"
		}
		return m
	}
	ax, ay := x.build(), y.build() // the arguments handed to the real code
	var got outcome
	func() {
		defer func() {
			if p := recover(); p != nil {
				m := mk("panic")
				m.Detail = fmt.Sprint(p)
				rn.report(m)
				err = nil
				got.kind = "panicked"
			}
		}()
		got, err = call(c.Op, ax, ay, ratio)
	}()
	if err != nil || got.kind == "panicked" {
		return err
	}
	if got.kind != want.kind {
		return fmt.Errorf("case %s: expected a %s, operator returns a %s", raw, want.kind, got.kind)
	}
	// the result
	switch want.kind {
	case "bool":
		if !unspec && got.b != want.b {
			m := mk("result")
			m.Got = got.show()
			rn.report(m)
		}
	default:
		d, ok := diffRes(want.r, got.r, c.Sparse)
		errdif := want.kind == "reserr" && want.err != got.err
		if !ok || errdif {
			m := mk("result")
			m.Got, m.Diff, m.ErrDif = got.show(), d, errdif
			rn.report(m)
		}
	}
	// the arguments must be unchanged (Prune, AddTo and SubFrom change their receiver by contract)
	if !inPlace[c.Op] && !sameRes(fromReal(ax), x) {
		m := mk("modified")
		m.Got, m.Detail = fromReal(ax).show(), "first argument / receiver modified"
		rn.report(m)
	}
	if !unary[c.Op] && c.Op != "Multiply" && !sameRes(fromReal(ay), y) {
		m := mk("modified")
		m.Got, m.Detail = fromReal(ay).show(), "second argument modified"
		rn.report(m)
	}
	return nil
}

type qWant struct {
	Kind   string   `json:"kind"` // exact | lenient | error
	Digits []string `json:"digits"`
	A      int64    `json:"a"`
	B      int64    `json:"b"`
	Mant   int64    `json:"mant"`
}

// evalSymbolic evaluates numeral * 10^a * 2^b; ok is false when the value is not an int64 (the parser must fail then).
func evalSymbolic(w qWant) (v int64, ok bool, err error) {
	num := strings.Join(w.Digits, "")
	if num == "" || strings.Trim(num, "0123456789") != "" || w.A < 0 || w.B < 0 {
		return 0, false, fmt.Errorf("malformed symbolic value %+v", w)
	}
	n, _ := new(big.Int).SetString(num, 10)
	if w.Mant >= 0 && n.Cmp(big.NewInt(w.Mant)) != 0 {
		return 0, false, fmt.Errorf("numeral %s: TLC computed %d", num, w.Mant)
	}
	n.Mul(n, new(big.Int).Exp(big.NewInt(10), big.NewInt(w.A), nil))
	n.Lsh(n, uint(w.B))
	return n.Int64(), n.IsInt64(), nil
}

func (rn *Runner) runQuantity(c Case, raw string) error {
	var w qWant
	if err := json.Unmarshal(c.Want, &w); err != nil {
		return err
	}
	str := strings.Join(c.S, "")
	mk := func(kind string, want interface{}) Mismatch {
		return Mismatch{Kind: kind, Op: c.Op, Case: json.RawMessage(raw), Str: &str, Want64: want}
	}
	var expV int64
	expOK := false
	if w.Kind != "error" {
		var err error
		if expV, expOK, err = evalSymbolic(w); err != nil {
			m := mk("oracle", nil)
			m.Detail = err.Error()
			rn.report(m)
			return nil
		}
	}
	switch {
	case w.Kind == "error":
		rn.Sum.QuantErr++
	case !expOK:
		rn.Sum.QuantOver++
		rn.nonTrivial(raw)
	default:
		rn.Sum.QuantOK++
		rn.nonTrivial(raw)
	}
	if w.Kind == "lenient" {
		rn.Sum.QuantLen++
	}
	var wantShow interface{} = "error"
	if expOK {
		wantShow = fmt.Sprint(expV)
		if w.Kind == "lenient" {
			wantShow = fmt.Sprintf("%d or error", expV)
		}
		if expV == minI64 || expV == maxI64 {
			rn.Sum.Overflowed++
		}
	}
	var q resources.Quantity
	var perr error
	panicked := false
	func() {
		defer func() {
			if p := recover(); p != nil {
				m := mk("panic", wantShow)
				m.Detail = fmt.Sprint(p)
				rn.report(m)
				panicked = true
			}
		}()
		if c.Op == "ParseVCore" {
			q, perr = resources.ParseVCore(str)
		} else {
			q, perr = resources.ParseQuantity(str)
		}
	}()
	if panicked {
		return nil
	}
	good := false
	switch {
	case !expOK: // outside the grammar, or not representable
		good = perr != nil
	case w.Kind == "lenient":
		good = perr != nil || int64(q) == expV
	default:
		good = perr == nil && int64(q) == expV
	}
	if !good {
		m := mk("result", wantShow)
		if perr != nil {
			m.Got = "error: " + perr.Error()
		} else {
			m.Got = fmt.Sprint(int64(q))
		}
		rn.report(m)
	}
	return nil
}

// RunAll replays every case of the reader.
func (rn *Runner) RunAll(in io.Reader) error {
	sc := bufio.NewScanner(in)
	sc.Buffer(make([]byte, 1<<20), 1<<24)
	for sc.Scan() {
		if err := rn.RunLine(sc.Text()); err != nil {
			return err
		}
	}
	return sc.Err()
}
