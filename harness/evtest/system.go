package evtest

import (
	"bufio"
	"encoding/json"
	"fmt"
	"math"
	"os"
	"strconv"
	"sync"
	"time"

	"github.com/apache/yunikorn-core/pkg/events"
	"github.com/apache/yunikorn-core/pkg/metrics"
	"github.com/apache/yunikorn-scheduler-interface/lib/go/si"
)

// End-to-end replay of a stream schedule through the real EventSystemImpl (pkg/events/event_system.go): the publisher is the
// event system's own goroutine (Store.Store; eventBuffer.Add; streaming.PublishEvent), parked by the gate stream.publish
// between the ring buffer add and the publish. The event system is a process singleton, so schedules run one at a time.

type sysGate struct {
	mu      sync.Mutex
	pubArr  chan string   // ids arriving at stream.publish
	pubRel  chan struct{} // one token per release
	regSlot map[string]*gateSlot
}

var sysG = &sysGate{pubArr: make(chan string, 16), pubRel: make(chan struct{}), regSlot: map[string]*gateSlot{}}

func installSystemGate() {
	events.VerifSetGate(func(point, id string) {
		switch point {
		case "stream.publish":
			publishGates.Add(1)
			sysG.pubArr <- id
			<-sysG.pubRel
		case "stream.registered":
			regGates.Add(1)
			sysG.mu.Lock()
			s := sysG.regSlot[id]
			sysG.mu.Unlock()
			if s != nil {
				s.arrived <- struct{}{}
				<-s.release
			}
		}
	})
}

// SystemResult extends StreamResult with the checks made on the event system itself.
type SystemResult struct {
	StreamResult
	Order []string `json:"order"` // violations of "stored and recorded before published", empty when fine
	Hist  []int    `json:"hist"`  // GetEventsFromID(0, unlimited) at the end
	Batch []int    `json:"batch"` // Store.CollectEvents() at the end
}

func waitProcessed(n int) bool {
	deadline := time.Now().Add(stepTimeout)
	for time.Now().Before(deadline) {
		if metrics.GetEventMetrics().VerifEventsProcessed() >= n {
			return true
		}
		time.Sleep(20 * time.Microsecond)
	}
	return false
}

func systemOne(c *StreamCase, deliverWait time.Duration) (res SystemResult) {
	ns := c.NSubs
	res.StreamResult = StreamResult{I: c.I, Recv: make([][]int, ns), Nils: make([]int, ns), Closed: make([]bool, ns), Timeout: make([]bool, ns), Extra: make([]int, ns)}
	res.Order, res.Hist, res.Batch = []string{}, []int{}, []int{}
	for i := range res.Recv {
		res.Recv[i] = []int{}
	}
	prefix := fmt.Sprintf("y%d/", c.I)
	p := newPool(prefix+"e", c.N+1)
	sentinel := p.evs[c.N]
	metrics.GetEventMetrics().Reset()
	events.Init()
	es, ok := events.GetEventSystem().(*events.EventSystemImpl)
	if !ok {
		res.Err = "event system is not an EventSystemImpl"
		return res
	}
	es.StartServiceWithPublisher(false)
	parked := false // the event system goroutine sits in the gate stream.publish
	slot := make([]*gateSlot, ns+1)
	stream := make([]*events.EventStream, ns+1)
	state := make([]int, ns+1)
	name := func(s int) string { return prefix + "s" + strconv.Itoa(s) }
	defer func() {
		if r := recover(); r != nil {
			res.Err = "panic: " + fmt.Sprint(r)
		}
		for s := 1; s <= ns; s++ {
			if state[s] == 1 {
				close(slot[s].release)
			}
			sysG.mu.Lock()
			delete(sysG.regSlot, name(s))
			sysG.mu.Unlock()
		}
		if parked {
			sysG.pubRel <- struct{}{}
		}
		es.Stop()
	}()
	take := func(s int, e *si.EventRecord) bool {
		switch {
		case e == nil:
			res.Nils[s-1]++
		case e == sentinel:
			return true
		default:
			id, ok := p.byPtr[e]
			if !ok {
				id = -2
			}
			res.Recv[s-1] = append(res.Recv[s-1], id)
		}
		return false
	}
	processed := 0
	add := func(i int) bool {
		es.AddEvent(p.evs[i])
		select {
		case id := <-sysG.pubArr:
			parked = true
			if id != p.evs[i].ObjectID {
				res.Err = "gate stream.publish reached for " + id + " while " + p.evs[i].ObjectID + " was expected"
				return false
			}
		case <-time.After(stepTimeout):
			res.Err = "the event system never reached the gate stream.publish"
			return false
		}
		// the specification's RingAdd step is complete here: the event must be in the history and in the store, not yet published
		recs, _, _ := es.GetEventsFromID(uint64(i), 1)
		if len(recs) != 1 || recs[0] != p.evs[i] {
			res.Order = append(res.Order, fmt.Sprintf("event %d is not in the history when PublishEvent is entered", i))
		}
		if got := es.Store.CountStoredEvents(); got != uint64(i+1) {
			res.Order = append(res.Order, fmt.Sprintf("store holds %d events when PublishEvent(%d) is entered", got, i))
		}
		return true
	}
	pub := func() bool {
		sysG.pubRel <- struct{}{}
		parked = false
		processed++
		if !waitProcessed(processed) {
			res.Err = "PublishEvent did not return"
			return false
		}
		return true
	}
	for _, raw := range c.Sched {
		kind, a, err := parseStep(raw)
		if err != nil {
			res.Err = err.Error()
			return res
		}
		switch kind {
		case "add":
			if !add(a[0]) {
				return res
			}
		case "pub":
			if !pub() {
				return res
			}
		case "reg":
			s := a[0]
			sl := &gateSlot{arrived: make(chan struct{}, 1), release: make(chan struct{}), stream: make(chan *events.EventStream, 1)}
			slot[s] = sl
			sysG.mu.Lock()
			sysG.regSlot[name(s)] = sl
			sysG.mu.Unlock()
			cnt := count64(a[1])
			go func(n string) {
				defer func() {
					if r := recover(); r != nil {
						sl.stream <- nil
					}
				}()
				sl.stream <- es.CreateEventStream(n, cnt)
			}(name(s))
			select {
			case <-sl.arrived:
				state[s] = 1
			case <-time.After(stepTimeout):
				res.Err = "subscriber never reached the gate stream.registered"
				return res
			}
		case "read":
			s := a[0]
			close(slot[s].release)
			state[s] = 2
			select {
			case st := <-slot[s].stream:
				if st == nil {
					res.Err = "CreateEventStream panicked"
					return res
				}
				stream[s] = st
			case <-time.After(stepTimeout):
				res.Err = "CreateEventStream did not return"
				return res
			}
		case "close":
			s := a[0]
			es.RemoveStream(stream[s])
			state[s] = 3
			deadline := time.After(deliverWait)
		drain:
			for {
				select {
				case e, ok := <-stream[s].Events:
					if !ok {
						res.Closed[s-1] = true
						break drain
					}
					take(s, e)
				case <-deadline:
					res.Timeout[s-1] = true
					break drain
				}
			}
		default:
			res.Err = "unknown step " + kind
			return res
		}
	}
	if !add(c.N) || !pub() {
		return res
	}
	for s := 1; s <= ns; s++ {
		if state[s] != 2 {
			continue
		}
		deadline := time.After(deliverWait)
	wait:
		for {
			select {
			case e, ok := <-stream[s].Events:
				if !ok {
					res.Closed[s-1] = true
					break wait
				}
				if take(s, e) {
					break wait
				}
			case <-deadline:
				res.Timeout[s-1] = true
				break wait
			}
		}
		es.RemoveStream(stream[s])
	}
	recs, _, _ := es.GetEventsFromID(0, math.MaxUint64)
	res.Hist = p.ids(recs)
	res.Batch = p.ids(es.Store.CollectEvents())
	return res
}

// System replays the schedules one after the other through the real event system.
func System(in, outPath string, maxTimeouts int, deliverWait time.Duration) error {
	QuietLogger()
	installSystemGate()
	var cases []*StreamCase
	err := readLines(in, func(b []byte) error {
		c := &StreamCase{}
		if err := json.Unmarshal(b, c); err != nil {
			return err
		}
		if c.N <= 0 || c.NSubs <= 0 {
			return fmt.Errorf("bad stream case %.200s", b)
		}
		cases = append(cases, c)
		return nil
	})
	if err != nil {
		return err
	}
	of, err := os.Create(outPath)
	if err != nil {
		return err
	}
	defer of.Close()
	bw := bufio.NewWriterSize(of, 1<<20)
	enc := json.NewEncoder(bw)
	sum := StreamSummary{Summary: true}
	for _, c := range cases {
		if sum.Timeouts >= maxTimeouts {
			sum.Aborted = true
			break
		}
		r := systemOne(c, deliverWait)
		for _, t := range r.Timeout {
			if t {
				sum.Timeouts++
				break
			}
		}
		if r.Err != "" {
			sum.Timeouts++
		}
		sum.Schedules++
		_ = enc.Encode(r)
	}
	sum.RegGates, sum.PublishGates = regGates.Load(), publishGates.Load()
	_ = enc.Encode(sum)
	return bw.Flush()
}
