// Package evtest replays behaviours of spec/EventRing.tla, spec/EventStore.tla and spec/EventStream.tla on the real
// objects of pkg/events (C20). It reports what the real code did; the comparison data (expected answers) comes from TLC.
package evtest

import (
	"bufio"
	"encoding/json"
	"fmt"
	"math"
	"os"
	"runtime"
	"strconv"
	"strings"
	"sync"
	"sync/atomic"
	"time"

	"go.uber.org/zap"
	"go.uber.org/zap/zapcore"

	"github.com/apache/yunikorn-core/pkg/events"
	"github.com/apache/yunikorn-core/pkg/log"
	"github.com/apache/yunikorn-scheduler-interface/lib/go/si"
)

var logOnce sync.Once

// QuietLogger installs a logger that drops everything below DPanic (the development logger is slow and panics on DPanic).
func QuietLogger() {
	logOnce.Do(func() {
		log.InitializeLogger(zap.NewNop(), &zap.Config{Level: zap.NewAtomicLevelAt(zapcore.DPanicLevel)})
	})
}

func count64(c int) uint64 {
	if c < 0 { // Unlimited in the specification
		return math.MaxUint64
	}
	return uint64(c)
}

// pool of event records: the record with ObjectID "k" is the k-th recorded event; identity matters (the stream filters by pointer)
type pool struct {
	prefix string
	evs    []*si.EventRecord
	byPtr  map[*si.EventRecord]int
}

func newPool(prefix string, n int) *pool {
	p := &pool{prefix: prefix, byPtr: map[*si.EventRecord]int{}}
	for i := 0; i < n; i++ {
		e := &si.EventRecord{Type: si.EventRecord_APP, ObjectID: prefix + strconv.Itoa(i), TimestampNano: int64(i)}
		p.evs = append(p.evs, e)
		p.byPtr[e] = i
	}
	return p
}

// ids translates records to ids: -1 for nil, -2 for a record that was never handed to the object under test
func (p *pool) ids(recs []*si.EventRecord) []int {
	out := make([]int, 0, len(recs))
	for _, r := range recs {
		switch {
		case r == nil:
			out = append(out, -1)
		default:
			if i, ok := p.byPtr[r]; ok {
				out = append(out, i)
			} else {
				out = append(out, -2)
			}
		}
	}
	return out
}

func eqInts(a, b []int) bool {
	if len(a) != len(b) {
		return false
	}
	for i := range a {
		if a[i] != b[i] {
			return false
		}
	}
	return true
}

func readLines(path string, fn func(line []byte) error) error {
	f, err := os.Open(path)
	if err != nil {
		return err
	}
	defer f.Close()
	sc := bufio.NewScanner(f)
	sc.Buffer(make([]byte, 1<<20), 1<<28)
	for sc.Scan() {
		if len(sc.Bytes()) == 0 {
			continue
		}
		b := append([]byte(nil), sc.Bytes()...)
		if err := fn(b); err != nil {
			return err
		}
	}
	return sc.Err()
}

// ---------------------------------------------------------------------------------------------------------------
// ring buffer

type ringQuery struct {
	Start, Count int
	Ids          []int
	Lo, La       uint64
}

type ringRecent struct {
	Count int
	Ids   []int
}

type ringTable struct {
	Q []ringQuery
	R []ringRecent
}

type ringLine struct {
	T   string            `json:"t"`
	Key [3]int            `json:"key"`
	Ops []int             `json:"ops"`
	Q   []json.RawMessage `json:"q"`
	R   []json.RawMessage `json:"r"`
}

// RingFailure is one disagreement between the real ring buffer and the specification's answer.
type RingFailure struct {
	Kind  string `json:"kind"` // query | recent | last | panic
	Ops   []int  `json:"ops"`
	Key   [3]int `json:"key"` // nextId, capacity, lowest of the abstract state
	Start int    `json:"start"`
	Count int    `json:"count"`
	Want  []int  `json:"want"`
	WLo   uint64 `json:"want_lowest"`
	WLa   uint64 `json:"want_last"`
	Got   []int  `json:"got"`
	GLo   uint64 `json:"got_lowest"`
	GLa   uint64 `json:"got_last"`
	Msg   string `json:"msg,omitempty"`
}

type RingSummary struct {
	Summary    bool `json:"summary"`
	Behaviours int  `json:"behaviours"`
	Ops        int  `json:"ops"`
	Queries    int  `json:"queries"`
	Nonempty   int  `json:"queries_nonempty"`
	Wrapped    int  `json:"behaviours_wrapped"`
	Failures   int  `json:"failures"`
}

func parseTable(l *ringLine) (*ringTable, error) {
	t := &ringTable{}
	for _, raw := range l.Q {
		var a []json.RawMessage
		if err := json.Unmarshal(raw, &a); err != nil || len(a) != 5 {
			return nil, fmt.Errorf("bad table entry %s", raw)
		}
		var q ringQuery
		for i, dst := range []interface{}{&q.Start, &q.Count, &q.Ids, &q.Lo, &q.La} {
			if err := json.Unmarshal(a[i], dst); err != nil {
				return nil, fmt.Errorf("bad table entry %s: %v", raw, err)
			}
		}
		t.Q = append(t.Q, q)
	}
	for _, raw := range l.R {
		var a []json.RawMessage
		if err := json.Unmarshal(raw, &a); err != nil || len(a) != 2 {
			return nil, fmt.Errorf("bad recent entry %s", raw)
		}
		var r ringRecent
		if err := json.Unmarshal(a[0], &r.Count); err != nil {
			return nil, err
		}
		if err := json.Unmarshal(a[1], &r.Ids); err != nil {
			return nil, err
		}
		t.R = append(t.R, r)
	}
	return t, nil
}

// RingBuild rebuilds a real ring buffer from an op list: ops[0] = initial capacity, then 0 = Add, n > 0 = Resize(n).
func RingBuild(ops []int, p *pool) *events.VerifRingBuffer {
	rb := events.VerifNewRingBuffer(uint64(ops[0]))
	next := 0
	for _, op := range ops[1:] {
		if op == 0 {
			rb.Add(p.evs[next])
			next++
		} else {
			rb.Resize(uint64(op))
		}
	}
	return rb
}

func ringOne(ops []int, key [3]int, tab *ringTable, p *pool, out func(RingFailure), sum *RingSummary) {
	fail := func(f RingFailure) {
		f.Ops, f.Key = ops, key
		out(f)
	}
	defer func() {
		if r := recover(); r != nil {
			fail(RingFailure{Kind: "panic", Msg: fmt.Sprint(r)})
		}
	}()
	rb := RingBuild(ops, p)
	nextID, lowest := key[0], key[2]
	wantLast := uint64(0)
	if nextID > 0 {
		wantLast = uint64(nextID - 1)
	}
	if got := rb.GetLastEventID(); got != wantLast {
		fail(RingFailure{Kind: "last", WLa: wantLast, GLa: got, WLo: uint64(lowest)})
	}
	for i := range tab.Q {
		q := &tab.Q[i]
		recs, lo, la := rb.GetEventsFromID(uint64(q.Start), count64(q.Count))
		got := p.ids(recs)
		sum.Queries++
		if len(q.Ids) > 0 {
			sum.Nonempty++
		}
		if !eqInts(got, q.Ids) || lo != q.Lo || la != q.La {
			fail(RingFailure{Kind: "query", Start: q.Start, Count: q.Count, Want: q.Ids, WLo: q.Lo, WLa: q.La, Got: got, GLo: lo, GLa: la})
		}
	}
	for i := range tab.R {
		r := &tab.R[i]
		got := p.ids(rb.GetRecentEvents(count64(r.Count)))
		sum.Queries++
		if len(r.Ids) > 0 {
			sum.Nonempty++
		}
		if !eqInts(got, r.Ids) {
			fail(RingFailure{Kind: "recent", Count: r.Count, Want: r.Ids, Got: got, WLo: uint64(lowest), WLa: wantLast})
		}
	}
}

// Ring replays every behaviour of the input (TABLE lines first, then BEH lines) and writes failures + a summary as NDJSON.
func Ring(in, outPath string) error {
	QuietLogger()
	tables := map[[3]int]*ringTable{}
	p := newPool("", 64)
	of, err := os.Create(outPath)
	if err != nil {
		return err
	}
	defer of.Close()
	bw := bufio.NewWriterSize(of, 1<<20)
	enc := json.NewEncoder(bw)
	sum := RingSummary{Summary: true}
	emit := func(f RingFailure) {
		sum.Failures++
		if f.Want == nil {
			f.Want = []int{}
		}
		if f.Got == nil {
			f.Got = []int{}
		}
		_ = enc.Encode(f)
	}
	err = readLines(in, func(b []byte) error {
		var l ringLine
		if err := json.Unmarshal(b, &l); err != nil {
			return fmt.Errorf("%v: %.200s", err, b)
		}
		switch l.T {
		case "table":
			t, err := parseTable(&l)
			if err != nil {
				return err
			}
			tables[l.Key] = t
		case "beh":
			t := tables[l.Key]
			if t == nil {
				return fmt.Errorf("no answer table for abstract state %v", l.Key)
			}
			if len(l.Ops) == 0 || l.Ops[0] <= 0 {
				return fmt.Errorf("bad op list %v", l.Ops)
			}
			sum.Behaviours++
			sum.Ops += len(l.Ops) - 1
			if l.Key[2] > 0 {
				sum.Wrapped++
			}
			ringOne(l.Ops, l.Key, t, p, emit, &sum)
		default:
			return fmt.Errorf("unknown line type %q", l.T)
		}
		return nil
	})
	if err != nil {
		return err
	}
	_ = enc.Encode(sum)
	return bw.Flush()
}

// ---------------------------------------------------------------------------------------------------------------
// event store

type StoreFailure struct {
	Kind string            `json:"kind"` // count | batch | panic
	Ops  []json.RawMessage `json:"ops"`
	Step int               `json:"step"`
	Want []int             `json:"want"`
	Got  []int             `json:"got"`
	Msg  string            `json:"msg,omitempty"`
}

type StoreSummary struct {
	Summary    bool `json:"summary"`
	Behaviours int  `json:"behaviours"`
	Steps      int  `json:"steps"`
	Collects   int  `json:"collects"`
	Nonempty   int  `json:"collects_nonempty"`
	Dropped    int  `json:"stores_dropped"`
	Resized    int  `json:"behaviours_resized"`
	Failures   int  `json:"failures"`
}

func storeOne(ops []json.RawMessage, p *pool, out func(StoreFailure), sum *StoreSummary) error {
	var bad error
	step := 0
	defer func() {
		if r := recover(); r != nil {
			out(StoreFailure{Kind: "panic", Ops: ops, Step: step, Msg: fmt.Sprint(r)})
		}
	}()
	var st *events.EventStore
	resized := false
	for i, raw := range ops {
		step = i
		var a []json.RawMessage
		if err := json.Unmarshal(raw, &a); err != nil || len(a) < 2 {
			return fmt.Errorf("bad store op %s", raw)
		}
		var kind int
		if err := json.Unmarshal(a[0], &kind); err != nil {
			return err
		}
		sum.Steps++
		switch kind {
		case 3:
			var n int
			_ = json.Unmarshal(a[1], &n)
			st = events.VerifNewEventStore(uint64(n))
		case 0:
			var id, held int
			_ = json.Unmarshal(a[1], &id)
			_ = json.Unmarshal(a[2], &held)
			before := st.CountStoredEvents()
			st.Store(p.evs[id])
			got := st.CountStoredEvents()
			if got == before {
				sum.Dropped++
			}
			if got != uint64(held) {
				out(StoreFailure{Kind: "count", Ops: ops, Step: i, Want: []int{held}, Got: []int{int(got)}})
			}
		case 1:
			var want []int
			_ = json.Unmarshal(a[1], &want)
			got := p.ids(st.CollectEvents())
			sum.Collects++
			if len(want) > 0 {
				sum.Nonempty++
			}
			if !eqInts(got, want) {
				if want == nil {
					want = []int{}
				}
				out(StoreFailure{Kind: "batch", Ops: ops, Step: i, Want: want, Got: got})
			}
			if c := st.CountStoredEvents(); c != 0 {
				out(StoreFailure{Kind: "count", Ops: ops, Step: i, Want: []int{0}, Got: []int{int(c)}})
			}
		case 2:
			var n int
			_ = json.Unmarshal(a[1], &n)
			st.SetStoreSize(uint64(n))
			resized = true
		default:
			return fmt.Errorf("bad store op kind %d", kind)
		}
	}
	if resized {
		sum.Resized++
	}
	return bad
}

// Store replays EventStore behaviours (one JSON op list per line).
func Store(in, outPath string) error {
	QuietLogger()
	p := newPool("", 64)
	of, err := os.Create(outPath)
	if err != nil {
		return err
	}
	defer of.Close()
	bw := bufio.NewWriterSize(of, 1<<20)
	enc := json.NewEncoder(bw)
	sum := StoreSummary{Summary: true}
	emit := func(f StoreFailure) {
		sum.Failures++
		_ = enc.Encode(f)
	}
	err = readLines(in, func(b []byte) error {
		var ops []json.RawMessage
		if err := json.Unmarshal(b, &ops); err != nil {
			return err
		}
		sum.Behaviours++
		return storeOne(ops, p, emit, &sum)
	})
	if err != nil {
		return err
	}
	_ = enc.Encode(sum)
	return bw.Flush()
}

// ---------------------------------------------------------------------------------------------------------------
// streaming: gate-steered replay of a TLC interleaving

type gateSlot struct {
	arrived chan struct{}
	release chan struct{}
	stream  chan *events.EventStream
}

var (
	slots        sync.Map // consumer name -> *gateSlot
	gateOnce     sync.Once
	publishGates atomic.Int64
	regGates     atomic.Int64
)

func installGate() {
	gateOnce.Do(func() {
		events.VerifSetGate(func(point, id string) {
			switch point {
			case "stream.publish":
				publishGates.Add(1)
			case "stream.registered":
				regGates.Add(1)
				if v, ok := slots.Load(id); ok {
					s := v.(*gateSlot)
					s.arrived <- struct{}{}
					<-s.release
				}
			}
		})
	})
}

// StreamCase is one schedule: steps ["add",i] ["pub",i] ["reg",s,count] ["read",s] ["close",s].
type StreamCase struct {
	I       int               `json:"i"`
	N       int               `json:"n"`       // events of the schedule (a sentinel event n is appended by the replay)
	NSubs   int               `json:"nsubs"`   // subscribers 1..nsubs
	RingCap int               `json:"ringcap"` // capacity of the real ring buffer
	Sched   []json.RawMessage `json:"sched"`
}

// StreamResult is what the real EventStreaming delivered.
type StreamResult struct {
	I       int     `json:"i"`
	Recv    [][]int `json:"recv"`    // per subscriber: delivered event ids in delivery order (sentinel stripped, nil records dropped)
	Nils    []int   `json:"nils"`    // per subscriber: nil records seen between close and channel close
	Closed  []bool  `json:"closed"`  // per subscriber: the consumer channel was closed by the code
	Timeout []bool  `json:"timeout"` // per subscriber: gave up waiting (sentinel / channel close)
	Extra   []int   `json:"extra"`   // per subscriber: records delivered after the sentinel within the grace period
	Err     string  `json:"err,omitempty"`
}

const stepTimeout = 20 * time.Second

func parseStep(raw json.RawMessage) (string, []int, error) {
	var a []json.RawMessage
	if err := json.Unmarshal(raw, &a); err != nil || len(a) < 2 {
		return "", nil, fmt.Errorf("bad step %s", raw)
	}
	var kind string
	if err := json.Unmarshal(a[0], &kind); err != nil {
		return "", nil, err
	}
	args := make([]int, len(a)-1)
	for i := range args {
		if err := json.Unmarshal(a[i+1], &args[i]); err != nil {
			return "", nil, err
		}
	}
	return kind, args, nil
}

// StreamOne drives one real ring buffer + EventStreaming through the schedule. deliverWait bounds the wait for the sentinel.
func StreamOne(c *StreamCase, deliverWait time.Duration) (res StreamResult) {
	installGate()
	ns := c.NSubs
	res = StreamResult{I: c.I, Recv: make([][]int, ns), Nils: make([]int, ns), Closed: make([]bool, ns), Timeout: make([]bool, ns), Extra: make([]int, ns)}
	for i := range res.Recv {
		res.Recv[i] = []int{}
	}
	prefix := fmt.Sprintf("i%d/", c.I)
	p := newPool(prefix+"e", c.N+1)
	sentinel := p.evs[c.N]
	rb := events.VerifNewRingBuffer(uint64(c.RingCap))
	streaming := rb.NewStreaming()
	defer streaming.Close()
	slot := make([]*gateSlot, ns+1)
	stream := make([]*events.EventStream, ns+1)
	state := make([]int, ns+1) // 0 init, 1 registered (parked in the gate), 2 running, 3 closed
	name := func(s int) string { return prefix + "s" + strconv.Itoa(s) }
	defer func() {
		// never leave a goroutine parked in the gate
		for s := 1; s <= ns; s++ {
			if state[s] == 1 {
				close(slot[s].release)
			}
			if slot[s] != nil {
				slots.Delete(name(s))
			}
		}
		if r := recover(); r != nil {
			res.Err = "panic: " + fmt.Sprint(r)
		}
	}()
	take := func(s int, e *si.EventRecord) bool { // returns true when e is the sentinel
		switch {
		case e == nil:
			res.Nils[s-1]++
		case e == sentinel:
			return true
		default:
			id, ok := p.byPtr[e]
			if !ok {
				id = -2
			}
			res.Recv[s-1] = append(res.Recv[s-1], id)
		}
		return false
	}
	for _, raw := range c.Sched {
		kind, a, err := parseStep(raw)
		if err != nil {
			res.Err = err.Error()
			return res
		}
		switch kind {
		case "add":
			rb.Add(p.evs[a[0]])
		case "pub":
			streaming.PublishEvent(p.evs[a[0]])
		case "reg":
			s := a[0]
			sl := &gateSlot{arrived: make(chan struct{}, 1), release: make(chan struct{}), stream: make(chan *events.EventStream, 1)}
			slot[s] = sl
			slots.Store(name(s), sl)
			cnt := count64(a[1])
			go func(n string) {
				defer func() {
					if r := recover(); r != nil {
						sl.stream <- nil
					}
				}()
				sl.stream <- streaming.CreateEventStream(n, cnt)
			}(name(s))
			select {
			case <-sl.arrived:
				state[s] = 1
			case <-time.After(stepTimeout):
				res.Err = "subscriber never reached the gate stream.registered"
				return res
			}
		case "read":
			s := a[0]
			close(slot[s].release)
			state[s] = 2
			select {
			case st := <-slot[s].stream:
				if st == nil {
					res.Err = "CreateEventStream panicked"
					return res
				}
				stream[s] = st
			case <-time.After(stepTimeout):
				res.Err = "CreateEventStream did not return"
				return res
			}
		case "close":
			s := a[0]
			streaming.RemoveEventStream(stream[s])
			state[s] = 3
			deadline := time.After(deliverWait)
		drain:
			for {
				select {
				case e, ok := <-stream[s].Events:
					if !ok {
						res.Closed[s-1] = true
						break drain
					}
					take(s, e)
				case <-deadline:
					res.Timeout[s-1] = true
					break drain
				}
			}
		default:
			res.Err = "unknown step " + kind
			return res
		}
	}
	// the sentinel: one more event through the same two steps; the local channel is FIFO, so once a consumer has the
	// sentinel it has everything that was delivered before
	rb.Add(sentinel)
	streaming.PublishEvent(sentinel)
	for s := 1; s <= ns; s++ {
		if state[s] != 2 {
			continue
		}
		deadline := time.After(deliverWait)
	wait:
		for {
			select {
			case e, ok := <-stream[s].Events:
				if !ok {
					res.Closed[s-1] = true
					break wait
				}
				if take(s, e) {
					break wait
				}
			case <-deadline:
				res.Timeout[s-1] = true
				break wait
			}
		}
	}
	// anything after the sentinel is a repeat: look once more after the forwarders had a chance to run
	runtime.Gosched()
	for s := 1; s <= ns; s++ {
		if state[s] != 2 || res.Timeout[s-1] || res.Closed[s-1] {
			continue
		}
	more:
		for {
			select {
			case e, ok := <-stream[s].Events:
				if !ok {
					res.Closed[s-1] = true
					break more
				}
				if e != nil {
					res.Extra[s-1]++
				}
			default:
				break more
			}
		}
		streaming.RemoveEventStream(stream[s])
	}
	return res
}

type StreamSummary struct {
	Summary      bool  `json:"summary"`
	Schedules    int   `json:"schedules"`
	Timeouts     int   `json:"timeouts"`
	Aborted      bool  `json:"aborted"`
	RegGates     int64 `json:"gate_registered_hits"`
	PublishGates int64 `json:"gate_publish_hits"`
}

// Stream replays all schedules of the input with `workers` replays in flight; stops early after maxTimeouts timeouts.
func Stream(in, outPath string, workers, maxTimeouts int, deliverWait time.Duration) error {
	QuietLogger()
	installGate()
	var cases []*StreamCase
	err := readLines(in, func(b []byte) error {
		c := &StreamCase{}
		if err := json.Unmarshal(b, c); err != nil {
			return err
		}
		if c.N <= 0 || c.NSubs <= 0 || c.RingCap <= c.N {
			return fmt.Errorf("bad stream case %.200s", b)
		}
		cases = append(cases, c)
		return nil
	})
	if err != nil {
		return err
	}
	of, err := os.Create(outPath)
	if err != nil {
		return err
	}
	defer of.Close()
	bw := bufio.NewWriterSize(of, 1<<20)
	enc := json.NewEncoder(bw)
	var mu sync.Mutex
	var timeouts atomic.Int64
	sum := StreamSummary{Summary: true}
	idx := atomic.Int64{}
	var wg sync.WaitGroup
	for w := 0; w < workers; w++ {
		wg.Add(1)
		go func() {
			defer wg.Done()
			for {
				k := int(idx.Add(1)) - 1
				if k >= len(cases) {
					return
				}
				if int(timeouts.Load()) >= maxTimeouts {
					mu.Lock()
					sum.Aborted = true
					mu.Unlock()
					return
				}
				r := StreamOne(cases[k], deliverWait)
				for _, t := range r.Timeout {
					if t {
						timeouts.Add(1)
						break
					}
				}
				if strings.HasPrefix(r.Err, "subscriber never") || strings.HasPrefix(r.Err, "CreateEventStream did not") {
					timeouts.Add(1)
				}
				mu.Lock()
				sum.Schedules++
				_ = enc.Encode(r)
				mu.Unlock()
			}
		}()
	}
	wg.Wait()
	sum.Timeouts = int(timeouts.Load())
	sum.RegGates, sum.PublishGates = regGates.Load(), publishGates.Load()
	_ = enc.Encode(sum)
	return bw.Flush()
}
