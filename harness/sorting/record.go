// Package sorting records calls of the real sorters of yunikorn-core (queues, applications, asks) on every
// permutation of small candidate sets, and replays TLC-generated node collection behaviours (C19).
package sorting

import (
	"encoding/json"
	"fmt"
	"io"
	"math/rand"
	"sort"
	"strconv"
	"time"

	"github.com/apache/yunikorn-core/pkg/common/configs"
	"github.com/apache/yunikorn-core/pkg/common/resources"
	"github.com/apache/yunikorn-core/pkg/common/security"
	"github.com/apache/yunikorn-core/pkg/scheduler/objects"
	"github.com/apache/yunikorn-core/pkg/scheduler/policies"
	"github.com/apache/yunikorn-core/pkg/scheduler/ugm"
	siCommon "github.com/apache/yunikorn-scheduler-interface/lib/go/common"
	"github.com/apache/yunikorn-scheduler-interface/lib/go/si"

	"verif/harness/drive"
)

// Res is a sparse resource vector (type -> quantity). Never nil when serialised (JSON null cannot be read by TLC).
type Res map[string]int

// Cand is one candidate with the keys the documented orders speak about (see spec/Sorting.tla).
type Cand struct {
	ID    string `json:"id"`
	Elig  bool   `json:"elig"`  // must appear in the output of this call
	P     int    `json:"p"`     // queue: priority of the queue's pending ask; ask: priority
	Off   int    `json:"off"`   // queue: priority.offset
	Fence bool   `json:"fence"` // queue: priority.policy fence
	T     int    `json:"t"`     // application: submission time; ask: creation time (seconds after the base)
	Alloc Res    `json:"alloc"` // queue, application: allocated resource
	Guar  Res    `json:"guar"`  // queue: guaranteed resource
	Max   Res    `json:"max"`   // queue: maximum resource
	Pend  int    `json:"pend"`  // queue: pending memory (0: nothing pending)
	Aps   []int  `json:"aps"`   // application: priorities of its pending asks (empty: nothing pending)
	Ph    bool   `json:"ph"`    // application: holds a placeholder allocation
}

// Group is one candidate set; every policy and every presentation of it is recorded.
type Group struct {
	K   string `json:"k"`   // queue | app | ask
	Tot Res    `json:"tot"` // queue: root maximum; app: total the usage is shared against (leaf guaranteed)
	C   []Cand `json:"c"`
}

// Record is one call of a real sorter.
type Record struct {
	K    string   `json:"k"`
	Pol  string   `json:"pol"`  // fair | fifo | ask
	Prio bool     `json:"prio"` // application.sort.priority enabled
	Via  string   `json:"via"`  // direct (caller chooses the input order) | map | path (order of the core's own maps)
	Grp  int      `json:"grp"`  // same candidates and policy
	G    int      `json:"g"`    // index of the candidate set in the groups file
	Ord  bool     `json:"ord"`  // in is the order really presented to the sorter
	Tot  Res      `json:"tot"`
	C    []Cand   `json:"c"`
	In   []string `json:"in"`
	Out  []string `json:"out"`
}

const timeBase = 100000

func norm(c Cand) Cand {
	if c.Alloc == nil {
		c.Alloc = Res{}
	}
	if c.Guar == nil {
		c.Guar = Res{}
	}
	if c.Max == nil {
		c.Max = Res{}
	}
	if c.Aps == nil {
		c.Aps = []int{}
	}
	return c
}

func toRes(r Res) *resources.Resource {
	m := map[string]resources.Quantity{}
	for k, v := range r {
		m[k] = resources.Quantity(v)
	}
	return resources.NewResourceFromMap(m)
}

func toConf(r Res) map[string]string {
	if len(r) == 0 {
		return nil
	}
	m := map[string]string{}
	for k, v := range r {
		m[k] = strconv.Itoa(v)
	}
	return m
}

func siRes(r Res) *si.Resource {
	out := &si.Resource{Resources: map[string]*si.Quantity{}}
	for k, v := range r {
		out.Resources[k] = &si.Quantity{Value: int64(v)}
	}
	return out
}

func sameRes(a *resources.Resource, b Res) bool {
	return resources.Equals(a, toRes(b))
}

// sameTypes: equal quantities AND the same set of defined types (an explicit zero is not the same as undefined)
func sameTypes(a *resources.Resource, b Res) bool {
	if a == nil {
		return len(b) == 0
	}
	if len(a.Resources) != len(b) {
		return false
	}
	for k, v := range b {
		if q, ok := a.Resources[k]; !ok || int(q) != v {
			return false
		}
	}
	return true
}

var ugi = security.UserGroup{User: "verif", Groups: []string{"verif"}}

func newApp(id, queue string) *objects.Application {
	return objects.NewApplication(&si.AddApplicationRequest{ApplicationID: id, QueueName: queue, PartitionName: "default"}, ugi, nil, "rm")
}

func newAsk(key, app string, res Res, prio, t int) *objects.Allocation {
	return objects.NewAllocationFromSI(&si.Allocation{AllocationKey: key, ApplicationID: app, ResourcePerAlloc: siRes(res), Priority: int32(prio),
		AllocationTags: map[string]string{siCommon.CreationTime: strconv.Itoa(timeBase + t)}})
}

func newAlloc(key, app string, res Res, t int, placeholder bool) *objects.Allocation {
	a := &si.Allocation{AllocationKey: key, ApplicationID: app, NodeID: "node-1", ResourcePerAlloc: siRes(res),
		AllocationTags: map[string]string{siCommon.CreationTime: strconv.Itoa(timeBase + t)}}
	if placeholder {
		a.Placeholder = true
		a.TaskGroupName = "tg"
	}
	return objects.NewAllocationFromSI(a)
}

func onOff(b bool) string {
	if b {
		return configs.ApplicationSortPriorityEnabled
	}
	return configs.ApplicationSortPriorityDisabled
}

func resetSingletons() {
	um := ugm.GetUserManager()
	um.ClearUserTrackers()
	um.ClearGroupTrackers()
}

// permutations of 0..n-1 in lexicographic order
func perms(n int) [][]int {
	var out [][]int
	p := make([]int, n)
	for i := range p {
		p[i] = i
	}
	var rec func(k int)
	used := make([]bool, n)
	cur := make([]int, 0, n)
	rec = func(k int) {
		if k == n {
			out = append(out, append([]int{}, cur...))
			return
		}
		for i := 0; i < n; i++ {
			if !used[i] {
				used[i] = true
				cur = append(cur, i)
				rec(k + 1)
				cur = cur[:len(cur)-1]
				used[i] = false
			}
		}
	}
	rec(0)
	return out
}

// Recorder executes groups against the real code and writes one NDJSON line per sorter call.
type Recorder struct {
	Enc     *json.Encoder
	Records int
	Groups  int
	nextGrp int
	serial  int
	gidx    int
}

func (r *Recorder) emit(rec Record) error {
	r.Records++
	rec.G = r.gidx
	return r.Enc.Encode(rec)
}

func (r *Recorder) Run(g Group) error {
	for i := range g.C {
		g.C[i] = norm(g.C[i])
	}
	if g.Tot == nil {
		g.Tot = Res{}
	}
	r.Groups++
	r.serial++
	defer resetSingletons()
	switch g.K {
	case "queue":
		return r.runQueues(g)
	case "app":
		return r.runApps(g)
	case "ask":
		return r.runAsks(g)
	}
	return fmt.Errorf("unknown group kind %q", g.K)
}

func polOf(s string) policies.SortPolicy {
	if s == "fair" {
		return policies.FairSortPolicy
	}
	return policies.FifoSortPolicy
}

// ---------------------------------------------------------------------------------------------------------------
// queues: root (maximum = tot, application.sort.priority as asked) with one managed leaf per candidate; every leaf holds
// one application with one pending ask (priority p, memory pend) and one allocation (alloc).

type qtree struct {
	root *objects.Queue
	q    map[string]*objects.Queue
}

func (r *Recorder) buildQueues(g Group, prio bool) (*qtree, error) {
	root, err := objects.NewConfiguredQueue(configs.QueueConfig{Name: "root", Parent: true,
		Properties: map[string]string{configs.ApplicationSortPriority: onOff(prio)}}, nil, false, nil)
	if err != nil {
		return nil, err
	}
	if len(g.Tot) > 0 {
		root.SetMaxResource(toRes(g.Tot))
	}
	t := &qtree{root: root, q: map[string]*objects.Queue{}}
	for _, c := range g.C {
		props := map[string]string{configs.PriorityOffset: strconv.Itoa(c.Off)}
		if c.Fence {
			props[configs.PriorityPolicy] = policies.FencePriorityPolicy.String()
		}
		q, err := objects.NewConfiguredQueue(configs.QueueConfig{Name: c.ID, Parent: false, Properties: props,
			Resources: configs.Resources{Max: toConf(c.Max), Guaranteed: toConf(c.Guar)}}, root, false, nil)
		if err != nil {
			return nil, err
		}
		t.q[c.ID] = q
		appID := fmt.Sprintf("app-%d-%s", r.serial, c.ID)
		app := newApp(appID, q.GetQueuePath())
		app.SetQueue(q)
		q.AddApplication(app)
		if c.Pend > 0 {
			if err := app.AddAllocationAsk(newAsk(appID+"-ask", appID, Res{"memory": c.Pend}, c.P, 0)); err != nil {
				return nil, err
			}
		}
		if len(c.Alloc) > 0 {
			app.AddAllocation(newAlloc(appID+"-alloc", appID, c.Alloc, 0, false))
			q.IncAllocatedResource(toRes(c.Alloc), false)
		}
		// the construction itself must have produced the intended raw keys (a harness fault otherwise, never a verdict)
		if !sameRes(q.GetAllocatedResource(), c.Alloc) || !sameRes(q.GetPendingResource(), Res{"memory": c.Pend}) ||
			!sameTypes(q.GetGuaranteedResource(), c.Guar) {
			return nil, fmt.Errorf("queue %s was not built as intended: alloc %v pending %v guaranteed %v", c.ID,
				q.GetAllocatedResource(), q.GetPendingResource(), q.GetGuaranteedResource())
		}
	}
	return t, nil
}

func qnames(qs []*objects.Queue) []string {
	out := make([]string, 0, len(qs))
	for _, q := range qs {
		out = append(out, q.Name)
	}
	return out
}

func withElig(cs []Cand, f func(Cand) bool) []Cand {
	out := make([]Cand, 0, len(cs))
	for _, c := range cs {
		c.Elig = f(c)
		out = append(out, c)
	}
	return out
}

func sortedIDs(cs []Cand) []string {
	out := make([]string, 0, len(cs))
	for _, c := range cs {
		out = append(out, c.ID)
	}
	sort.Strings(out)
	return out
}

const pathCalls = 4

func (r *Recorder) runQueues(g Group) error {
	pending := make([]Cand, 0)
	for _, c := range g.C {
		if c.Pend > 0 {
			pending = append(pending, c)
		}
	}
	for _, pol := range []string{"fair", "fifo"} {
		for _, prio := range []bool{true, false} {
			r.nextGrp++
			t, err := r.buildQueues(g, prio)
			if err != nil {
				return err
			}
			direct := withElig(pending, func(Cand) bool { return true })
			for _, p := range perms(len(pending)) {
				qs := make([]*objects.Queue, len(p))
				fm := make([]*resources.Resource, len(p))
				in := make([]string, len(p))
				for i, j := range p {
					qs[i] = t.q[pending[j].ID]
					fm[i] = qs[i].GetFairMaxResource() // the slice sortQueues builds, in the same order as the queues
					in[i] = pending[j].ID
				}
				objects.VerifSortQueue(qs, fm, polOf(pol), prio)
				if err := r.emit(Record{K: "queue", Pol: pol, Prio: prio, Via: "direct", Grp: r.nextGrp, Ord: true, Tot: g.Tot, C: direct, In: in, Out: qnames(qs)}); err != nil {
					return err
				}
			}
			if pol == "fair" { // a parent queue always sorts its children fair
				all := withElig(g.C, func(c Cand) bool { return c.Pend > 0 })
				for i := 0; i < pathCalls; i++ {
					out := t.root.VerifSortQueues()
					if err := r.emit(Record{K: "queue", Pol: pol, Prio: prio, Via: "path", Grp: r.nextGrp, Ord: false, Tot: g.Tot, C: all, In: sortedIDs(all), Out: qnames(out)}); err != nil {
						return err
					}
				}
			}
		}
	}
	return nil
}

// ---------------------------------------------------------------------------------------------------------------
// applications: root -> leaf (sort policy, priority switch, guaranteed = tot) with one application per candidate

type atree struct {
	leaf *objects.Queue
	apps map[string]*objects.Application
}

func (r *Recorder) buildApps(g Group, pol string, prio bool) (*atree, error) {
	root, err := objects.NewConfiguredQueue(configs.QueueConfig{Name: "root", Parent: true}, nil, false, nil)
	if err != nil {
		return nil, err
	}
	root.SetMaxResource(toRes(Res{"memory": 100000, "gpu": 100000}))
	leaf, err := objects.NewConfiguredQueue(configs.QueueConfig{Name: "leaf", Parent: false,
		Properties: map[string]string{configs.ApplicationSortPolicy: pol, configs.ApplicationSortPriority: onOff(prio)},
		Resources:  configs.Resources{Guaranteed: toConf(g.Tot)}}, root, false, nil)
	if err != nil {
		return nil, err
	}
	t := &atree{leaf: leaf, apps: map[string]*objects.Application{}}
	for _, c := range g.C {
		appID := c.ID
		app := newApp(appID, leaf.GetQueuePath())
		app.SetQueue(leaf)
		leaf.AddApplication(app)
		// the submission time of an application is the earliest creation time of its asks and allocations
		stamped := false
		stamp := func() int {
			if !stamped {
				stamped = true
				return c.T
			}
			return c.T + 1
		}
		for i, p := range c.Aps {
			if err := app.AddAllocationAsk(newAsk(fmt.Sprintf("%s-ask%d-%d", appID, i, r.serial), appID, Res{"memory": 1}, p, stamp())); err != nil {
				return nil, err
			}
		}
		if len(c.Alloc) > 0 {
			app.AddAllocation(newAlloc(fmt.Sprintf("%s-alloc-%d", appID, r.serial), appID, c.Alloc, stamp(), false))
		}
		if c.Ph {
			app.AddAllocation(newAlloc(fmt.Sprintf("%s-ph-%d", appID, r.serial), appID, Res{"memory": 1}, stamp(), true))
		}
		if !stamped {
			return nil, fmt.Errorf("application %s has neither asks nor allocations: no submission time can be given", appID)
		}
		if !sameRes(app.GetAllocatedResource(), c.Alloc) || !sameRes(app.GetPendingResource(), Res{"memory": len(c.Aps)}) ||
			!app.GetSubmissionTime().Equal(time.Unix(int64(timeBase+c.T), 0)) {
			return nil, fmt.Errorf("application %s was not built as intended: alloc %v pending %v submitted %v", appID,
				app.GetAllocatedResource(), app.GetPendingResource(), app.GetSubmissionTime())
		}
		t.apps[appID] = app
	}
	if len(g.Tot) > 0 && !sameRes(leaf.GetGuaranteedResource(), g.Tot) {
		return nil, fmt.Errorf("leaf guaranteed %v, intended %v", leaf.GetGuaranteedResource(), g.Tot)
	}
	return t, nil
}

func anames(as []*objects.Application) []string {
	out := make([]string, 0, len(as))
	for _, a := range as {
		out = append(out, a.ApplicationID)
	}
	return out
}

func (r *Recorder) runApps(g Group) error {
	pending := make([]Cand, 0)
	for _, c := range g.C {
		if len(c.Aps) > 0 {
			pending = append(pending, c)
		}
	}
	var tot *resources.Resource
	if len(g.Tot) > 0 {
		tot = toRes(g.Tot)
	}
	for _, pol := range []string{"fair", "fifo"} {
		for _, prio := range []bool{true, false} {
			r.nextGrp++
			t, err := r.buildApps(g, pol, prio)
			if err != nil {
				return err
			}
			direct := withElig(pending, func(Cand) bool { return true })
			for _, p := range perms(len(pending)) {
				as := make([]*objects.Application, len(p))
				in := make([]string, len(p))
				for i, j := range p {
					as[i] = t.apps[pending[j].ID]
					in[i] = pending[j].ID
				}
				objects.VerifSortApplicationSlice(as, polOf(pol), prio, tot)
				if err := r.emit(Record{K: "app", Pol: pol, Prio: prio, Via: "direct", Grp: r.nextGrp, Ord: true, Tot: g.Tot, C: direct, In: in, Out: anames(as)}); err != nil {
					return err
				}
			}
			all := withElig(g.C, func(c Cand) bool { return len(c.Aps) > 0 })
			for i := 0; i < pathCalls; i++ {
				m := make(map[string]*objects.Application, len(t.apps))
				for k, v := range t.apps {
					m[k] = v
				}
				out := objects.VerifSortApplications(m, polOf(pol), prio, tot)
				if err := r.emit(Record{K: "app", Pol: pol, Prio: prio, Via: "map", Grp: r.nextGrp, Ord: false, Tot: g.Tot, C: all, In: sortedIDs(all), Out: anames(out)}); err != nil {
					return err
				}
			}
			for i := 0; i < pathCalls; i++ {
				out := t.leaf.VerifSortApplications(false)
				if err := r.emit(Record{K: "app", Pol: pol, Prio: prio, Via: "path", Grp: r.nextGrp, Ord: false, Tot: g.Tot, C: all, In: sortedIDs(all), Out: anames(out)}); err != nil {
					return err
				}
			}
			phOnly := withElig(g.C, func(c Cand) bool { return len(c.Aps) > 0 && c.Ph })
			out := t.leaf.VerifSortApplications(true)
			if err := r.emit(Record{K: "app", Pol: pol, Prio: prio, Via: "path-ph", Grp: r.nextGrp, Ord: false, Tot: g.Tot, C: phOnly, In: sortedIDs(phOnly), Out: anames(out)}); err != nil {
				return err
			}
		}
	}
	return nil
}

// ---------------------------------------------------------------------------------------------------------------
// asks: a fresh sortedRequests (direct) and a real application that receives the asks in the given order (path)

func knames(as []*objects.Allocation) []string {
	out := make([]string, 0, len(as))
	for _, a := range as {
		out = append(out, a.GetAllocationKey())
	}
	return out
}

func (r *Recorder) runAsks(g Group) error {
	r.nextGrp++
	root, err := objects.NewConfiguredQueue(configs.QueueConfig{Name: "root", Parent: true}, nil, false, nil)
	if err != nil {
		return err
	}
	leaf, err := objects.NewConfiguredQueue(configs.QueueConfig{Name: "leaf", Parent: false}, root, false, nil)
	if err != nil {
		return err
	}
	all := withElig(g.C, func(Cand) bool { return true })
	for pi, p := range perms(len(g.C)) {
		asks := make([]*objects.Allocation, len(p))
		in := make([]string, len(p))
		for i, j := range p {
			c := g.C[j]
			asks[i] = newAsk(c.ID, "app", Res{"memory": 1}, c.P, c.T)
			in[i] = c.ID
		}
		out := objects.VerifSortedAsks(asks)
		if err := r.emit(Record{K: "ask", Pol: "ask", Prio: true, Via: "direct", Grp: r.nextGrp, Ord: true, Tot: Res{}, C: all, In: in, Out: knames(out)}); err != nil {
			return err
		}
		// the same through a real application: asks arrive in this order, then the first one is removed again
		appID := fmt.Sprintf("askapp-%d-%d", r.serial, pi)
		app := newApp(appID, leaf.GetQueuePath())
		app.SetQueue(leaf)
		leaf.AddApplication(app)
		for i, j := range p {
			c := g.C[j]
			if err := app.AddAllocationAsk(newAsk(c.ID, appID, Res{"memory": 1}, c.P, c.T)); err != nil {
				return err
			}
			_ = i
		}
		if err := r.emit(Record{K: "ask", Pol: "ask", Prio: true, Via: "path", Grp: r.nextGrp, Ord: true, Tot: Res{}, C: all, In: in, Out: knames(app.VerifSortedRequests())}); err != nil {
			return err
		}
		if len(p) > 1 {
			gone := g.C[p[0]].ID
			app.RemoveAllocationAsk(gone)
			rest := withElig(g.C, func(c Cand) bool { return c.ID != gone })
			if err := r.emit(Record{K: "ask", Pol: "ask", Prio: true, Via: "path-removed", Grp: r.nextGrp, Ord: true, Tot: Res{}, C: rest, In: in, Out: knames(app.VerifSortedRequests())}); err != nil {
				return err
			}
		}
		leaf.RemoveApplication(app)
	}
	return nil
}

// ---------------------------------------------------------------------------------------------------------------
// generation of groups: a systematic part (all multisets of a curated key list) and a seeded random part

var names = []string{"a", "b", "c", "d", "e"}

func multisets(n, k int) [][]int {
	var out [][]int
	cur := make([]int, 0, k)
	var rec func(start int)
	rec = func(start int) {
		if len(cur) == k {
			out = append(out, append([]int{}, cur...))
			return
		}
		for i := start; i < n; i++ {
			cur = append(cur, i)
			rec(i)
			cur = cur[:len(cur)-1]
		}
	}
	rec(0)
	return out
}

func named(cs []Cand) []Cand {
	out := make([]Cand, len(cs))
	for i, c := range cs {
		c.ID = names[i]
		out[i] = c
	}
	return out
}

// curated queue keys: uniform fair max (no own maximum), ties and distinctions in every key
var queueKeys = []Cand{
	{P: 0, Alloc: Res{"memory": 2}, Pend: 1},
	{P: 0, Alloc: Res{"memory": 2}, Pend: 2},
	{P: 1, Alloc: Res{"memory": 4}, Pend: 1},
	{P: 0, Alloc: Res{"memory": 4}, Guar: Res{"memory": 8}, Pend: 1},
	{P: 1, Alloc: Res{"memory": 2}, Guar: Res{"memory": 4}, Pend: 2},
	{P: 0, Off: 1, Alloc: Res{}, Pend: 1},
	{P: 2, Off: 1, Fence: true, Alloc: Res{"memory": 3, "gpu": 1}, Guar: Res{"memory": 8, "gpu": 2}, Pend: 1},
	{P: 1, Alloc: Res{"gpu": 2}, Pend: 3},
	{P: 0, Alloc: Res{"memory": 6}, Guar: Res{"memory": 0, "gpu": 4}, Pend: 1},
	{P: 1, Alloc: Res{"memory": 2, "gpu": 2}, Pend: 0},
	{P: 2, Alloc: Res{"memory": 1}, Guar: Res{"memory": 2}, Pend: 2},
	{P: 0, Off: 2, Alloc: Res{"memory": 50}, Pend: 1},
}

var queueTot = Res{"memory": 100, "gpu": 10}

var appKeys = []Cand{
	{T: 0, Aps: []int{0}, Alloc: Res{"memory": 2}},
	{T: 1, Aps: []int{0}, Alloc: Res{"memory": 2}},
	{T: 0, Aps: []int{1}, Alloc: Res{"memory": 4}},
	{T: 1, Aps: []int{0, 1}, Alloc: Res{}},
	{T: 2, Aps: []int{2}, Alloc: Res{"memory": 1, "gpu": 3}},
	{T: 0, Aps: []int{}, Alloc: Res{"memory": 1}},
	{T: 2, Aps: []int{0}, Alloc: Res{"gpu": 2}, Ph: true},
	{T: 1, Aps: []int{1}, Alloc: Res{"memory": 3, "gpu": 1}},
	{T: 0, Aps: []int{2, 0}, Alloc: Res{"memory": 4, "gpu": 2}},
	{T: 2, Aps: []int{1}, Alloc: Res{"memory": 2}, Ph: true},
}

var appTots = []Res{{"memory": 10, "gpu": 10}, {"memory": 10, "gpu": 5}, {"memory": 10}, {}}

func pick[T any](rng *rand.Rand, xs []T) T { return xs[rng.Intn(len(xs))] }

func cloneRes(r Res) Res {
	out := Res{}
	for k, v := range r {
		out[k] = v
	}
	return out
}

func randQueue(rng *rand.Rand, prev *Cand, mixedMax bool) Cand {
	c := Cand{
		P:     pick(rng, []int{0, 1, 2}),
		Alloc: cloneRes(pick(rng, []Res{{}, {"memory": 2}, {"memory": 4}, {"memory": 6}, {"memory": 3, "gpu": 1}, {"gpu": 2}, {"memory": 8, "gpu": 4}})),
		Guar:  cloneRes(pick(rng, []Res{{}, {}, {"memory": 8}, {"memory": 4}, {"memory": 8, "gpu": 2}, {"memory": 0, "gpu": 4}, {"gpu": 8}})),
		Pend:  pick(rng, []int{1, 1, 2, 3, 0}),
	}
	switch rng.Intn(6) {
	case 0:
		c.Off = 1
	case 1:
		c.Off, c.Fence = 1, true
	case 2:
		c.Off = -1
	}
	if mixedMax {
		c.Max = cloneRes(pick(rng, []Res{{}, {"memory": 10}, {"memory": 50}, {"memory": 50, "gpu": 5}}))
	}
	if prev != nil { // ties: copy keys of the previous candidate now and then
		if rng.Intn(3) == 0 {
			c.P, c.Off, c.Fence = prev.P, prev.Off, prev.Fence
		}
		if rng.Intn(3) == 0 {
			c.Alloc, c.Guar, c.Max = cloneRes(prev.Alloc), cloneRes(prev.Guar), cloneRes(prev.Max)
		}
		if rng.Intn(3) == 0 {
			c.Pend = prev.Pend
		}
	}
	return c
}

func randApp(rng *rand.Rand, prev *Cand) Cand {
	c := Cand{
		T:     pick(rng, []int{0, 1, 2, 3}),
		Aps:   append([]int{}, pick(rng, [][]int{{0}, {1}, {2}, {0, 1}, {2, 0}, {1, 1}, {}})...),
		Alloc: cloneRes(pick(rng, []Res{{}, {"memory": 2}, {"memory": 4}, {"memory": 1, "gpu": 3}, {"gpu": 2}, {"memory": 3, "gpu": 1}, {"memory": 4, "gpu": 2}})),
		Ph:    rng.Intn(5) == 0,
	}
	if prev != nil {
		if rng.Intn(3) == 0 {
			c.T = prev.T
		}
		if rng.Intn(3) == 0 && len(prev.Aps) > 0 {
			c.Aps = append([]int{}, prev.Aps...)
		}
		if rng.Intn(3) == 0 {
			c.Alloc = cloneRes(prev.Alloc)
		}
	}
	if len(c.Aps) == 0 && len(c.Alloc) == 0 && !c.Ph {
		c.Alloc = Res{"memory": 1}
	}
	return c
}

// Generate produces the groups of one run. size: quick | thorough.
func Generate(seed int64, size string) []Group {
	rng := rand.New(rand.NewSource(seed*7919 + 17))
	big := size == "thorough"
	var out []Group
	// the documented example of the parallel-slice defect (kept first so that the known finding is observed in every run)
	out = append(out, Group{K: "queue", Tot: Res{"memory": 1000}, C: named([]Cand{
		{P: 0, Alloc: Res{"memory": 4}, Max: Res{"memory": 10}, Pend: 1},
		{P: 0, Alloc: Res{"memory": 30}, Max: Res{"memory": 100}, Pend: 1},
		{P: 0, Alloc: Res{"memory": 5}, Max: Res{"memory": 10}, Pend: 1}})})
	// systematic: all multisets of size 3 (quick: of the first 8 curated keys), all pairs
	nq, na := 8, 7
	if big {
		nq, na = len(queueKeys), len(appKeys)
	}
	for _, k := range []int{2, 3} {
		for _, ms := range multisets(nq, k) {
			cs := make([]Cand, 0, k)
			for _, i := range ms {
				cs = append(cs, queueKeys[i])
			}
			out = append(out, Group{K: "queue", Tot: queueTot, C: named(cs)})
		}
	}
	sysTots := appTots[:2]
	if big {
		sysTots = appTots
	}
	for _, tot := range sysTots {
		for _, ms := range multisets(na, 3) {
			cs := make([]Cand, 0, 3)
			for _, i := range ms {
				cs = append(cs, appKeys[i])
			}
			out = append(out, Group{K: "app", Tot: tot, C: named(cs)})
		}
	}
	var askKeys []Cand
	for p := 0; p < 3; p++ {
		for t := 0; t < 3; t++ {
			askKeys = append(askKeys, Cand{P: p, T: t})
		}
	}
	for _, ms := range multisets(len(askKeys), 3) {
		cs := make([]Cand, 0, 3)
		for _, i := range ms {
			cs = append(cs, askKeys[i])
		}
		out = append(out, Group{K: "ask", C: named(cs)})
	}
	// random: 4 candidates (a few with 5), key ties injected; one third of the queue groups mixes own maxima
	n4, n5 := 40, 3
	if big {
		n4, n5 = 500, 40
	}
	for i := 0; i < n4+n5; i++ {
		n := 4
		if i >= n4 {
			n = 5
		}
		qs, as, ks := make([]Cand, n), make([]Cand, n), make([]Cand, n)
		mixed := i%3 == 2
		for j := 0; j < n; j++ {
			var pq, pa *Cand
			if j > 0 {
				pq, pa = &qs[j-1], &as[j-1]
			}
			qs[j], as[j] = randQueue(rng, pq, mixed), randApp(rng, pa)
			ks[j] = Cand{P: rng.Intn(3), T: rng.Intn(4)}
			if j > 0 && rng.Intn(3) == 0 {
				ks[j] = Cand{P: ks[j-1].P, T: ks[j-1].T}
			}
		}
		tot := queueTot
		if i%11 == 10 {
			tot = Res{}
		}
		out = append(out, Group{K: "queue", Tot: tot, C: named(qs)}, Group{K: "app", Tot: pick(rng, appTots), C: named(as)}, Group{K: "ask", C: named(ks)})
	}
	return out
}

// RecordAll runs the groups and writes the NDJSON trace.
func RecordAll(groups []Group, index []int, w io.Writer) (*Recorder, error) {
	drive.InitLogger()
	r := &Recorder{Enc: json.NewEncoder(w)}
	for i, g := range groups {
		r.gidx = index[i]
		if err := r.Run(g); err != nil {
			return r, fmt.Errorf("group %d (%s): %w", i, g.K, err)
		}
	}
	return r, nil
}
