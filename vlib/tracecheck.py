"""Pipeline C: drive the real core (harness), validate every step with TLC against spec/YKTrace.tla."""
import bisect, collections, hashlib, json, os, re, shutil, time
from . import common as C

FAIL_RE = re.compile(r'<<"FAIL", "(\w+)", (\d+)')
KF_RE = re.compile(r'<<"KF", "([\w-]+)", (\d+)')


def drive(workdir, profile, seed, traces, steps, name, ops=None, teardown=True):
    out = os.path.join(workdir, name)
    cmd = [C.VERIF + "/.build/ykh", "drive", "-out", out, "-seed", str(seed)]
    if ops:
        cmd += ["-ops", ops]
    else:
        cmd += ["-profile", profile, "-traces", str(traces), "-steps", str(steps)]
    if not teardown:
        cmd += ["-teardown=false"]
    p = C.sh(cmd, timeout=3600, cwd=workdir, check=False)
    if p.returncode != 0:
        o = p.stdout
        m = re.search(r"^(panic:|fatal error:)[^\n]*\n(?:.*\n)*?goroutine \d+[^\n]*\n([^\n]+)\n", o, re.M)
        if m and "github.com/apache/yunikorn-core/pkg/" in m.group(2):
            # an unrecovered panic in a goroutine of the core: the whole scheduler process dies
            raise C.CoreCrash("core crashed: " + o[o.index(m.group(1)):][:300].replace("\n", " | "), o[-6000:], out)
        raise C.Infra("driver failed (%s): %s" % (p.returncode, p.stdout[-2000:]))
    try:
        st = json.loads(p.stdout.strip().splitlines()[-1])
    except Exception:
        raise C.Infra("driver output unreadable: " + p.stdout[-500:])
    return out, st


CHUNK_BYTES = int(os.environ.get("VERIF_CHUNK_MB", "120")) * 1024 * 1024   # TLC holds the whole deserialised file in memory: larger files are validated in pieces


def validate(workdir, tracefile, kf_enabled, timeout=3000):
    """Run YKTrace over one trace file (in pieces cut at trace boundaries when it is large).
    Returns (fails, kfs, nlines) with fails = [(check, line)], kfs = [(id, line)], line numbers of the whole file."""
    if os.path.getsize(tracefile) <= CHUNK_BYTES:
        return _validate_one(workdir, tracefile, kf_enabled, timeout)
    fails, kfs, total = [], [], 0
    part, size, start, n, idx = [], 0, 0, 0, 0

    def flush():
        nonlocal part, size, start, idx, total, fails, kfs
        if not part:
            return
        pf = "%s.part%d" % (tracefile, idx)
        with open(pf, "w") as f:
            f.writelines(part)
        fl, kf, nl = _validate_one(workdir, pf, kf_enabled, timeout)
        fails += [(c, ln + start) for c, ln in fl]
        kfs += [(c, ln + start) for c, ln in kf]
        total += nl
        os.remove(pf)
        idx, start, part, size = idx + 1, start + len(part), [], 0
    with open(tracefile) as f:
        for line in f:
            if '"op":"reset"' in line and size > CHUNK_BYTES:
                flush()
            part.append(line)
            size += len(line)
    flush()
    return fails, kfs, total


def _validate_one(workdir, tracefile, kf_enabled, timeout=3000):
    base = os.path.basename(tracefile)
    cfg = os.path.join(workdir, "YKTrace-" + base + ".cfg")
    kfset = "{" + ", ".join('"%s"' % k for k in sorted(kf_enabled)) + "}"
    open(cfg, "w").write('SPECIFICATION Spec\nCONSTANTS\n  TraceFile = "%s"\n  KFEnabled = %s\nINVARIANT All\nPOSTCONDITION Accepted\nCHECK_DEADLOCK FALSE\n' % (base, kfset))
    rc, out = C.tlc(workdir, "YKTrace.tla", os.path.basename(cfg), workers=1, timeout=timeout)
    nlines = sum(1 for _ in open(tracefile))
    gen, dist = C.tlc_stats(out)
    if "Model checking completed. No error has been found." not in out or dist != nlines:
        open(os.path.join(workdir, "tlc-" + base + ".out"), "w").write(out)
        tail = "\n".join(l for l in out.splitlines() if not l.startswith("<<"))[-2500:]
        raise C.Infra("trace validation did not run to the end of %s (TLC rc=%s, %s/%s lines):\n%s" % (base, rc, dist, nlines, tail))
    fails = [(m.group(1), int(m.group(2))) for m in FAIL_RE.finditer(out)]
    kfs = [(m.group(1), int(m.group(2))) for m in KF_RE.finditer(out)]
    return fails, kfs, nlines


class TraceFile:
    def __init__(self, path):
        self.path = path
        self.lines = open(path).read().splitlines()
        self.resets = [i + 1 for i, l in enumerate(self.lines) if '"op":"reset"' in l]

    def trace_of(self, line):
        return bisect.bisect_right(self.resets, line) - 1

    def span(self, t):
        a = self.resets[t]
        b = self.resets[t + 1] - 1 if t + 1 < len(self.resets) else len(self.lines)
        return a, b

    def rec(self, line):
        return json.loads(self.lines[line - 1])


def counters(tf):
    """Vacuity counters: how often the steps that exercise each guard occurred in this file; per trace too."""
    tot = collections.Counter()
    per = collections.defaultdict(collections.Counter)
    t = -1
    prev_resv = set()
    for ln in tf.lines:
        d = json.loads(ln)
        op = d["op"]
        if op == "reset":
            t += 1
            prev_resv = set()
        c = collections.Counter()
        c["steps"] += 1
        msgs = d.get("msgs", [])
        if op == "schedule":
            c["schedAlloc"] += sum(1 for m in msgs if m["t"] == "alloc")
            c["replDecided"] += sum(1 for m in msgs if m["t"] == "release" and m.get("term") == "PLACEHOLDER_REPLACED")
            c["phAlloc"] += sum(1 for m in msgs if m["t"] == "alloc" and m.get("ph"))
        c["preemptVictims"] += sum(1 for m in msgs if m["t"] == "release" and m.get("term") == "PREEMPTED_BY_SCHEDULER")
        if op == "schedule" and any(m["t"] == "release" and m.get("term") == "PREEMPTED_BY_SCHEDULER" for m in msgs):
            c["preemptSteps"] += 1
        if op == "quotaTick" and any(m["t"] == "release" and m.get("term") == "PREEMPTED_BY_SCHEDULER" for m in msgs):
            c["quotaPreemptSteps"] += 1
        c["timeoutRel"] += sum(1 for m in msgs if m["t"] == "release" and m.get("term") == "TIMEOUT")
        if op == "confirm" and not d.get("none") and d.get("term") == "PLACEHOLDER_REPLACED":
            c["replConfirm"] += 1
        if op == "confirm" and not d.get("none"):
            c["confirm"] += 1
        if op == "firePhTimer" and d.get("armed"):
            c["phTimerFired"] += 1
        if op == "fireStateTimer" and d.get("armed"):
            c["stateTimerFired"] += 1
        if op == "reload":
            c["reloadOk" if d.get("ok") else "reloadRejected"] += 1
        if op == "restart":
            c["restart"] += 1
        if op == "bad":
            c["bad"] += 1
        if op == "endDrain":
            c["drains"] += 1
        if op == "addApp":
            c["appAccepted"] += sum(1 for m in msgs if m["t"] == "appAccepted")
            c["appRejected"] += sum(1 for m in msgs if m["t"] == "appRejected")
        if op == "removeNode" and any(m["t"] == "release" for m in msgs):
            c["nodeRemovedWithAllocs"] += 1
        st = d["state"]
        resv = set()
        for a, ad in st["apps"].items():
            for k, n in ad["resv"].items():
                resv.add((a, k, n))
        c["resvMade"] += len(resv - prev_resv)
        prev_resv = resv
        c["appStateChanges"] += sum(len(ad["newlog"]) for ad in st["apps"].values())
        if any(len(nd["foreign"]) for nd in st["nodes"].values()):
            c["stepsWithForeign"] += 1
        tot.update(c)
        per[t].update(c)
    return tot, per


def ops_only(rec):
    return {k: v for k, v in rec.items() if k not in ("state", "msgs", "pred", "stack")}


def run(prop, checks_prefix, runs, tier, seed, kf_all, need, max_replays=5, extra_ops=None, gen=None):
    """runs: list of dicts(profile, traces, steps, procs). extra_ops: list of NDJSON op files (TLC generated tests).
    Returns dict with violations (replay paths), kf lines, coverage pieces."""
    t0 = time.time()
    work = C.scratch(prop)
    try:
        C.copy_spec(work)
        jobs = []
        for r in runs:
            for i in range(r.get("procs", 1)):
                s = seed * 1000 + len(jobs)
                jobs.append(dict(r, seed=s, name="t-%s-%d.ndjson" % (r["profile"], len(jobs))))
        model = None
        if gen:
            model = gen(work)
            extra_ops = (extra_ops or []) + model["ops_files"]
        for j, f in enumerate(extra_ops or []):
            jobs.append(dict(profile="tlc-generated", ops=f, seed=seed, name="t-gen-%d.ndjson" % j, traces=0, steps=0))

        crashes = []

        def do_drive(j):
            try:
                return drive(work, j["profile"], j["seed"], j["traces"], j["steps"], j["name"], ops=j.get("ops"))
            except C.CoreCrash as e:
                crashes.append((j, e))
                return None
        driven = C.pmap(do_drive, jobs, max(1, min(C.NCPU, 12)))
        crash_replays = []
        for j, e in crashes:
            # what was written before the process died: the last (incomplete) trace leads to the crash
            lines = []
            try:
                lines = [x for x in open(e.trace).read().splitlines() if x.strip()]
            except OSError:
                pass
            ok = []
            for x in lines:
                try:
                    ok.append(json.loads(x))
                except ValueError:
                    break
            start = max([i for i, r in enumerate(ok) if r.get("op") == "reset"] or [0])
            os.makedirs(C.VERIF + "/replays", exist_ok=True)
            rp = "%s/replays/%s-CoreCrash-%d.json" % (C.VERIF, prop, j["seed"])
            json.dump({"property": prop, "check": "CoreCrash", "profile": j["profile"], "seed": j["seed"], "crash": e.output,
                       "note": "the driver process died with an unrecovered Go panic inside yunikorn-core; trace = steps of the last trace flushed before the crash (the crashing step itself is not in it)",
                       "trace": ok[start:]}, open(rp, "w"))
            crash_replays.append((str(e), rp))
        jobs = [j for j, d in zip(jobs, driven) if d is not None]
        driven = [d for d in driven if d is not None]
        enabled = [k["id"] for k in kf_all if k.get("status") == "known"]

        def do_val(x):
            return validate(work, x[0], enabled)
        vals = C.pmap(do_val, driven, max(1, min(C.NCPU // 2, 8)))

        kf_by_id = {k["id"]: k for k in kf_all}
        violations, kf_obs = [], collections.Counter()
        tot = collections.Counter()
        ntraces = nsteps = 0
        nontrivial = set()
        samples = []
        failing_checks = collections.Counter()
        all_checks_failed = collections.Counter()
        for j, (path, st), (fails, kfs, nlines) in zip(jobs, driven, vals):
            tf = TraceFile(path)
            ctot, cper = counters(tf)
            tot.update(ctot)
            ntraces += len(tf.resets)
            nsteps += nlines
            for t in range(len(tf.resets)):
                a, b = tf.span(t)
                if any(cper[t][n] > 0 for n in need):
                    h = hashlib.sha1("\n".join(json.dumps(ops_only(json.loads(x)), sort_keys=True) for x in tf.lines[a - 1:b]).encode()).hexdigest()
                    nontrivial.add(h)
                    if len(samples) < 2:
                        samples.append({"profile": j["profile"], "seed": j["seed"], "ops": [ops_only(json.loads(x)) for x in tf.lines[a - 1:min(b, a + 11)]], "truncated_to": 12, "length": b - a + 1})
            # first failure per (trace, check)
            first = {}
            for name, ln in fails:
                all_checks_failed[name] += 1
                key = (tf.trace_of(ln), name)
                if key not in first or ln < first[key]:
                    first[key] = ln
            kf_tr = collections.defaultdict(list)
            for kid, ln in kfs:
                kf_tr[tf.trace_of(ln)].append((kid, ln))
            for (t, name), ln in sorted(first.items(), key=lambda x: x[1]):
                if not any(name.startswith(p) for p in checks_prefix):
                    continue
                attributed = None
                for kid, kln in kf_tr.get(t, []):
                    k = kf_by_id.get(kid)
                    if not k or k.get("status") != "known":
                        continue
                    if (kln == ln and name in k.get("taints_step", [])) or (kln <= ln and name in k.get("taints_state", [])):
                        attributed = kid
                        break
                if attributed:
                    kf_obs[attributed] += 1
                    continue
                failing_checks[name] += 1
                if len(violations) < max_replays:
                    a, b = tf.span(t)
                    os.makedirs(C.VERIF + "/replays", exist_ok=True)
                    rp = "%s/replays/%s-%s-%d-%s.json" % (C.VERIF, prop, name, j["seed"], ln - a)
                    json.dump({"property": prop, "check": name, "profile": j["profile"], "seed": j["seed"], "failing_step": ln - a,
                               "note": "trace = the behaviour the real core produced (ops, messages, projected state), first line is the reset; the check failed at failing_step",
                               "trace": [json.loads(x) for x in tf.lines[a - 1:ln]]}, open(rp, "w"))
                    violations.append(rp)
        return dict(model=model, crashes=crash_replays, violations=violations, failing_checks=dict(failing_checks), kf_obs=dict(kf_obs), counters=dict(tot), traces=ntraces, steps=nsteps,
                    nontrivial=len(nontrivial), samples=samples, wall=time.time() - t0, other_checks_failing=dict(all_checks_failed))
    finally:
        if not os.environ.get("VERIF_KEEP"):
            shutil.rmtree(work, ignore_errors=True)
        else:
            print("scratch kept:", work)
