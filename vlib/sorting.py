"""C19 - scheduling order is a deterministic function of the documented sort keys.

Pipeline (specification = spec/Sorting.tla, spec/NodeColl.tla; everything is decided by TLC against behaviour of the real code):
  1. spec sanity      MC_Sorting.tla: every documented order is a strict weak order over a finite key domain (TLC, exhaustive)
  2. recorded traces  `ykh sortrec` builds REAL queues / applications / asks with keys from a small domain, calls the real
                      sorters on every permutation (and through the core's own map-backed paths) and logs one NDJSON line per
                      call; SortingTrace.tla checks P1 (permutation of the eligible candidates), P2 (no pair inverted against
                      the documented order), P3 (same relative order of distinguished pairs for every presentation)
  3. lock-step replay NodeColl.tla generates behaviours of the node collection (exhaustive to a depth + sampled long ones);
                      `ykh nodecoll` replays them on a real NodeCollection and compares both iterators after every step
"""
import concurrent.futures, json, os, re, shutil, subprocess, sys, time
from . import common as C

FAIL_RE = re.compile(r'^<<"FAIL", "(\w+)", (\d+), (TRUE|FALSE), (".*")>>$', re.M)
STATS_RE = re.compile(r'^<<"STATS", (\d+), (\d+)>>$', re.M)
KF_SORT = "KF_FairMaxParallel"        # shape predicate in spec/Sorting.tla
KF_NODE = "kf_foreign_stale"          # shape computed from NodeColl.tla's `dirty` set by the replay
MAX_REPLAYS = 25
EXPECTED_SORT = ("P1: output is a permutation of the eligible (pending) candidates; P2: no pair (x before y) with Before(policy, y, x) "
                 "of spec/Sorting.tla; P3: pairs the policy distinguishes keep their relative order for every presentation of the candidates")

SIZES = {
    # shards, NodeColl exhaustive depth, simulate (behaviours, depth), spec-sanity domain
    "quick": dict(shards=4, depth=5, sim=(300, 24), big=False),
    "thorough": dict(shards=8, depth=6, sim=(5000, 36), big=True),
}


def ykh(args, timeout=3000, cwd=None):
    p = C.sh([C.VERIF + "/.build/ykh"] + args, timeout=timeout, cwd=cwd, check=False)
    if p.returncode != 0:
        raise C.Infra("ykh %s failed (%s): %s" % (args[0], p.returncode, p.stdout[-2000:]))
    try:
        return json.loads(p.stdout.strip().splitlines()[-1])
    except Exception:
        raise C.Infra("ykh %s output unreadable: %s" % (args[0], p.stdout[-500:]))


def tlc_file(workdir, module, cfg, outfile, workers=1, timeout=3000, extra=()):
    """TLC with stdout to a file (the NodeColl behaviours are large)."""
    meta = os.path.join(workdir, "meta-" + os.path.basename(cfg))
    cmd = ["java", "-Xmx3g", "-Xss64m", "-XX:+UseParallelGC", "-Djava.io.tmpdir=" + workdir, "-cp", C.JAR, "tlc2.TLC", "-workers", str(workers), "-metadir", meta,
           "-config", cfg] + list(extra) + [module]
    try:
        with open(outfile, "w") as f:
            p = subprocess.run(cmd, cwd=workdir, stdout=f, stderr=subprocess.STDOUT, timeout=timeout)
    except subprocess.TimeoutExpired:
        raise C.Infra("TLC timeout after %ss: %s %s" % (timeout, module, cfg))
    shutil.rmtree(meta, ignore_errors=True)
    tail = []
    with open(outfile) as f:
        for line in f:
            if not line.startswith("<<"):
                tail.append(line)
    return p.returncode, "".join(tail)


def known(kf_all, prop, shape):
    for k in kf_all:
        if k.get("status") == "known" and prop in k.get("properties", []) and k.get("shape") == shape:
            return k
    return None


# ------------------------------------------------------------------------------------------------------------------
# 1. sanity of the specification

def spec_sanity(work, big):
    cfg = "MC_Sorting.cfg"
    open(os.path.join(work, cfg), "w").write("SPECIFICATION Spec\nCONSTANT Big = %s\nINVARIANTS StrictWeakOrderAtX Distinguishes\nCHECK_DEADLOCK FALSE\n" % ("TRUE" if big else "FALSE"))
    rc, out = C.tlc(work, "MC_Sorting.tla", cfg, workers=max(2, C.NCPU // 3), timeout=3000)
    gen, dist = C.tlc_stats(out)
    if "Model checking completed. No error has been found." not in out or dist < 10:
        raise C.Infra("spec/Sorting.tla is not a family of strict weak orders (or TLC failed, rc=%s):\n%s" % (rc, out[-2500:]))
    return gen, dist


# ------------------------------------------------------------------------------------------------------------------
# 2. recorded sorter calls validated against Sorting.tla

def validate_shard(work, name):
    cfg = "ST-" + name + ".cfg"
    open(os.path.join(work, cfg), "w").write('SPECIFICATION Spec\nCONSTANTS\n  TraceFile = "%s"\nINVARIANT All\nPOSTCONDITION Accepted\nCHECK_DEADLOCK FALSE\n' % name)
    rc, out = C.tlc(work, "SortingTrace.tla", cfg, workers=1, timeout=3000)
    lines = open(os.path.join(work, name)).read().splitlines()
    gen, dist = C.tlc_stats(out)
    if "Model checking completed. No error has been found." not in out or dist != len(lines):
        tail = "\n".join(l for l in out.splitlines() if not l.startswith("<<"))[-2500:]
        raise C.Infra("trace validation did not run to the end of %s (TLC rc=%s, %s/%s lines):\n%s" % (name, rc, dist, len(lines), tail))
    fails = []
    for m in FAIL_RE.finditer(out):
        fails.append(dict(check=m.group(1), line=int(m.group(2)), kf=m.group(3) == "TRUE", witness=json.loads(json.loads(m.group(4)))))
    st = STATS_RE.search(out)
    if not st or int(st.group(1)) != len(lines):
        raise C.Infra("no STATS line for " + name)
    return dict(name=name, lines=lines, fails=fails, nd=int(st.group(2)), gen=gen, dist=dist)


def sort_part(work, seed, size, groups_file=None):
    out = os.path.join(work, "sort.ndjson")
    shards = SIZES[size]["shards"] if not groups_file else 1
    args = ["sortrec", "-out", out, "-seed", str(seed), "-size", size, "-shards", str(shards)]
    if groups_file:
        args += ["-groups", groups_file]
    t = time.time()
    st = ykh(args, cwd=work)
    names = ["sort.ndjson.%d" % i for i in range(shards)] if shards > 1 else ["sort.ndjson"]
    groups = json.load(open(out + ".groups.json"))
    t_rec = time.time() - t
    t = time.time()
    res = C.pmap(lambda n: validate_shard(work, n), names, len(names))
    return dict(stats=st, groups=groups, shards=res, t_rec=t_rec, t_val=time.time() - t)


def classify_sort(sp, kf_all, prop):
    """-> (kf_observed, violations: {group index: [failing calls]}, counters)"""
    kf = known(kf_all, prop, KF_SORT)
    obs = 0
    viol = {}
    per_check = {}
    for sh in sp["shards"]:
        for f in sh["fails"]:
            rec = json.loads(sh["lines"][f["line"] - 1])
            per_check[f["check"]] = per_check.get(f["check"], 0) + 1
            if kf is not None and f["kf"] and f["check"] in ("P2", "P3"):
                obs += 1
                continue
            viol.setdefault(rec["g"], []).append(dict(check=f["check"], kind=rec["k"], policy=rec["pol"], priority_sorting=rec["prio"], via=rec["via"],
                                                      input=rec["in"], input_is_presented_order=rec["ord"], total=rec["tot"], candidates=rec["c"],
                                                      actual_output=rec["out"], witness=f["witness"], matches_known_finding_shape=f["kf"]))
    return obs, viol, per_check


# ------------------------------------------------------------------------------------------------------------------
# 3. node collection: TLC behaviours replayed in lock-step

NC_CFG = """SPECIFICATION Spec
CONSTANTS
  Nodes <- MCNodes
  Cap <- MCCap
  AllocIds <- MCAllocIds
  ForeignIds <- MCForeignIds
  Size <- MCSize
  W <- %s
  Policies <- MCPolicies
  MaxOps = %d
INVARIANTS TypeOK NeverOverCommitted UsageIsFraction Emit
CHECK_DEADLOCK FALSE
"""


def nodecoll_run(work, tag, weights, maxops, simulate=None, seed=1, workers=4):
    cfg = "NC-%s.cfg" % tag
    open(os.path.join(work, cfg), "w").write(NC_CFG % (weights, maxops))
    outfile = os.path.join(work, "NC-%s.out" % tag)
    extra = []
    if simulate:
        extra = ["-simulate", "num=%d" % simulate, "-depth", str(maxops + 1), "-seed", str(seed)]
    t = time.time()
    rc, tail = tlc_file(work, "MC_NodeColl.tla", cfg, outfile, workers=workers, extra=extra)
    ok = ("Model checking completed. No error has been found." in tail) or (simulate and "Error" not in tail and rc == 0)
    if not ok:
        raise C.Infra("TLC failed on NodeColl (%s, rc=%s):\n%s" % (tag, rc, tail[-2500:]))
    gen, dist = C.tlc_stats(tail)
    if simulate:
        m = re.search(r"(\d+) states checked", tail)
        gen = dist = int(m.group(1)) if m else 0
    t_tlc = time.time() - t
    t = time.time()
    failfile = os.path.join(work, "NC-%s.fail.ndjson" % tag)
    st = ykh(["nodecoll", "-cases", outfile, "-out", failfile, "-maxfails", str(MAX_REPLAYS)], cwd=work)
    fails = [json.loads(l) for l in open(failfile)]
    first = None
    with open(outfile) as f:
        for line in f:
            if line.startswith('<<"CASE"'):
                first = [s["op"] for s in json.loads(json.loads(line[len('<<"CASE", '):-3]))]
                break
    os.remove(outfile)
    return dict(tag=tag, stats=st, fails=fails, gen=gen, dist=dist, t_tlc=t_tlc, t_replay=time.time() - t, sample=first, simulate=bool(simulate), weights=weights)


def nodecoll_part(work, seed, size):
    z = SIZES[size]
    n, d = z["sim"]
    jobs = [("exh", "MCWDefault", z["depth"], None, 4), ("sim1", "MCWDefault", d, n, 1), ("sim2", "MCWSkewed", d, n, 1)]
    return C.pmap(lambda j: nodecoll_run(work, j[0], j[1], j[2], simulate=j[3], seed=seed, workers=j[4]), jobs, len(jobs))


def classify_nodes(runs, kf_all, prop):
    kf = known(kf_all, prop, KF_NODE)
    obs, viol, hidden = 0, [], 0
    for r in runs:
        st = r["stats"]     # fail_cases: behaviours with a mismatch that is not of the known shape; fail_kf: behaviours with one of the known shape
        if kf is not None:
            obs += st["fail_kf"]
            details = [f for f in r["fails"] if not f[KF_NODE]]
            total = st["fail_cases"]
        else:
            details = r["fails"]
            total = st["fail_cases"] + st["fail_kf"]
        viol += details
        hidden += max(0, total - len(details))   # failing behaviours beyond the detail limit
    return obs, viol, hidden


# ------------------------------------------------------------------------------------------------------------------

def write_replay(prop, what, seed, n, body):
    os.makedirs(C.VERIF + "/replays", exist_ok=True)
    path = "%s/replays/%s-%s-%d-%d.json" % (C.VERIF, prop, what, seed, n)
    json.dump(body, open(path, "w"), indent=1, sort_keys=True)
    return path


def replay(prop, path, kf_all):
    body = json.load(open(path))
    C.build()
    work = C.scratch("c19r")
    try:
        C.copy_spec(work)
        if body["kind"] == "sort":
            gf = os.path.join(work, "groups.json")
            json.dump([body["group"]], open(gf, "w"))
            sp = sort_part(work, 1, "quick", groups_file=gf)
            obs, viol, per = classify_sort(sp, kf_all, prop)
            calls = sum(len(s["lines"]) for s in sp["shards"])
            print("replayed candidate set: %d sorter calls, failing checks %s, known-finding matches %d" % (calls, per, obs))
            for v in list(viol.values())[0][:5] if viol else []:
                print("  still failing: %s policy=%s priority=%s via=%s input=%s output=%s witness=%s" % (v["check"], v["policy"], v["priority_sorting"], v["via"], v["input"], v["actual_output"], json.dumps(v["witness"])))
            bad = bool(viol)
        elif body["kind"] == "nodecoll":
            cases = os.path.join(work, "case.out")
            open(cases, "w").write('<<"CONF", %s>>\n%s\n' % (json.dumps(json.dumps({"w": body["weights"]})), body["raw"]))
            ff = os.path.join(work, "fail.ndjson")
            st = ykh(["nodecoll", "-cases", cases, "-out", ff], cwd=work)
            fails = [json.loads(l) for l in open(ff)]
            kf = known(kf_all, prop, KF_NODE)
            left = [f for f in fails if not (kf is not None and f[KF_NODE])]
            print("replayed behaviour of %d steps: %d mismatching" % (st["steps"], len(fails)))
            for f in left:
                print("  still failing at step %d: %s expected=%s actual=%s" % (f["step"], f["check"], f["expected"], f["actual"]))
            bad = bool(left)
        else:
            raise C.Infra("unknown replay kind in " + path)
    finally:
        shutil.rmtree(work, ignore_errors=True)
    if bad:
        print("VIOLATION property=%s replay=%s" % (prop, path))
    sys.exit(1 if bad else 0)


def main(prop, tier, seed, argv):
    t0 = time.time()
    kf_all = C.known_findings()
    if "--replay" in argv:
        return replay(prop, argv[argv.index("--replay") + 1], kf_all)
    t_build = C.build()
    work = C.scratch("c19")
    violations, infra = [], None
    cov = {}
    kf_obs = {}
    try:
        C.copy_spec(work)
        with concurrent.futures.ThreadPoolExecutor(max_workers=3) as ex:
            f_sane = ex.submit(spec_sanity, work, SIZES[tier]["big"])
            f_sort = ex.submit(sort_part, work, seed, tier)
            f_node = ex.submit(nodecoll_part, work, seed, tier)
            t = time.time()
            sane_gen, sane_dist = f_sane.result()
            t_sane = time.time() - t
            sp = f_sort.result()
            runs = f_node.result()

        # --- sorters
        obs_s, viol_s, per_check = classify_sort(sp, kf_all, prop)
        records = sum(len(s["lines"]) for s in sp["shards"])
        nd = sum(s["nd"] for s in sp["shards"])
        kinds, dup, seen = {}, 0, set()
        sample = {}
        for s in sp["shards"]:
            for l in s["lines"]:
                r = json.loads(l)
                key = (r["k"], r["pol"], r["prio"], r["via"])
                kinds[r["k"]] = kinds.get(r["k"], 0) + 1
                sample.setdefault(key, r)
                h = hash((r["g"], r["pol"], r["prio"], r["via"], tuple(r["in"]), r["ord"], tuple(r["out"])))
                if h in seen:
                    dup += 1
                seen.add(h)
        n = 0
        for g, calls in sorted(viol_s.items()):
            if n >= MAX_REPLAYS:
                break
            violations.append(write_replay(prop, "sort", seed, n, dict(property=prop, kind="sort", seed=seed, tier=tier, group=sp["groups"][g],
                                                                       expected=EXPECTED_SORT, failing_calls=calls[:12], failing_calls_total=len(calls))))
            n += 1
        if len(viol_s) > MAX_REPLAYS:
            print("note: %d further candidate sets with violations not written as replay files" % (len(viol_s) - MAX_REPLAYS))

        # --- node collection
        obs_n, viol_n, hidden = classify_nodes(runs, kf_all, prop)
        for i, f in enumerate(viol_n[:MAX_REPLAYS]):
            violations.append(write_replay(prop, "nodecoll", seed, i, dict(property=prop, kind="nodecoll", seed=seed, tier=tier, weights=f["weights"], ops=f["ops"],
                                                                           step=f["step"], check=f["check"], expected=f["expected"], actual=f["actual"], policy=f["policy"],
                                                                           usage_after_step=f["use"], inverted_pairs=f.get("inverted_pairs"), raw=f["raw"])))
        if hidden or len(viol_n) > MAX_REPLAYS:
            print("note: %d further node collection behaviours with violations not written as replay files" % (hidden + max(0, len(viol_n) - MAX_REPLAYS)))
        nc = dict(cases=sum(r["stats"]["cases"] for r in runs), steps=sum(r["stats"]["steps"] for r in runs), checks=sum(r["stats"]["checks"] for r in runs),
                  reserved_skips=sum(r["stats"]["reserved_skips"] for r in runs), tie_steps=sum(r["stats"]["tie_steps"] for r in runs),
                  ordered_steps=sum(r["stats"]["ordered_steps"] for r in runs), ops={})
        for r in runs:
            for k, v in r["stats"]["ops"].items():
                nc["ops"][k] = nc["ops"].get(k, 0) + v

        # --- vacuity guards (a behaviour is abandoned at its first violation, so coverage is only judged on runs without violations)
        missing = [k for k in ("queue", "app", "ask") if kinds.get(k, 0) == 0]
        if violations:
            pass
        elif missing:
            infra = "vacuous run: no recorded sorter calls of kind %s" % missing
        elif nd == 0:
            infra = "vacuous run: no recorded call in which the policy distinguishes a pair"
        elif nc["cases"] == 0 or nc["reserved_skips"] == 0 or nc["ordered_steps"] == 0 or nc["tie_steps"] == 0:
            infra = "vacuous run: node collection replay exercised nothing (%s)" % nc
        else:
            lacking = [o for o in ("add", "rm", "alloc", "rel", "falloc", "frel", "resv", "unresv", "pol") if nc["ops"].get(o, 0) == 0]
            if lacking:
                infra = "vacuous run: node collection operations never generated: %s" % lacking

        for k in kf_all:
            if k.get("status") == "known" and prop in k.get("properties", []):
                kf_obs[k["id"]] = obs_s if k.get("shape") == KF_SORT else obs_n if k.get("shape") == KF_NODE else 0
        exh = [r for r in runs if not r["simulate"]][0]
        states = sane_dist + sum(s["dist"] for s in sp["shards"]) + sum(r["dist"] for r in runs)
        transitions = sane_gen + sum(s["gen"] for s in sp["shards"]) + sum(r["gen"] for r in runs)
        cov = {
            "states": states, "transitions": transitions,
            "traces_validated_against_impl": records + nc["cases"],
            "evaluations": records + nc["steps"],
            "distinct_nontrivial": max(0, nd - dup),
            "rule": "one evaluation = one call of a real sorter (sortQueue / Queue.sortQueues / sortApplications / Queue.sortApplications / sortedRequests.insert via "
                    "Application.AddAllocationAsk) on real objects, validated by TLC against spec/Sorting.tla (P1-P3), or one step of a NodeColl.tla behaviour replayed on a real "
                    "NodeCollection with both iterators compared. distinct_nontrivial counts sorter calls only: calls whose policy distinguishes at least one pair of eligible "
                    "candidates (counted by TLC, nd=%d) minus repeated identical calls (same candidates, policy, path, input and output: %d)" % (nd, dup),
            "exhaustive": False,
            "samples": [sample[k] for k in sorted(sample, key=str)][:6] + [dict(node_collection_behaviour=r["sample"], weights=r["weights"]) for r in runs[:2]],
            "sorter_calls": records, "sorter_calls_by_kind": kinds, "candidate_sets": len(sp["groups"]), "calls_with_distinguished_pair": nd,
            "failing_checks": per_check, "known_findings_observed": kf_obs,
            "spec_sanity": dict(states=sane_dist, what="StrictWeakOrderAtX over the finite key domain of MC_Sorting.tla (exhaustive)"),
            "node_collection": dict(nc, exhaustive_depth=SIZES[tier]["depth"], exhaustive_behaviours=exh["stats"]["cases"], exhaustive_states=exh["dist"],
                                    sampled_behaviours=sum(r["stats"]["cases"] for r in runs if r["simulate"]), sampled_depth=SIZES[tier]["sim"][1]),
            "timing_s": dict(build=round(t_build, 1), record=round(sp["t_rec"], 1), validate=round(sp["t_val"], 1), spec_sanity=round(t_sane, 1),
                             nodecoll_tlc=round(sum(r["t_tlc"] for r in runs), 1), nodecoll_replay=round(sum(r["t_replay"] for r in runs), 1)),
        }
        if os.environ.get("VERIF_VERBOSE"):
            print(json.dumps({k: v for k, v in cov.items() if k != "samples"}, indent=1))
    except C.Infra as e:
        infra = str(e)
    finally:
        shutil.rmtree(work, ignore_errors=True)
    if not cov:
        cov = {"evaluations": 0, "distinct_nontrivial": 0, "rule": "run aborted: " + (infra or "?"), "samples": [], "exhaustive": False}
    level = "model_checking" if cov.get("states") else "other"
    C.write_evidence(prop, tier, seed, level, cov, time.time() - t0, len(violations),
                     ["the harness builds the candidates with the keys it logs (checked against the getters for allocated, pending, guaranteed, submission time)",
                      "TLC evaluates Sorting.tla / NodeColl.tla correctly; rationals are exact, the implementation's float64 shares agree on the small integer domain used",
                      "input order of the map-backed paths (Queue.sortQueues, sortApplications) is whatever Go's map iteration produced; it is not logged",
                      "small scope: <= 5 candidates, key values from small sets; <= 3 nodes"])
    kf_lines = []
    for k in kf_all:
        if k.get("status") == "known" and prop in k.get("properties", []):
            kf_lines.append("KNOWN-FINDING: property=%s %s [%s] observed_in_this_run=%d" % (prop, k["what"], k["id"], kf_obs.get(k["id"], 0)))
    C.finish(prop, violations, kf_lines, infra=infra)
