"""Replay of a violation file written by the trace pipeline.
(i) re-validate the recorded behaviour (deterministic verdict), (ii) re-drive its operation sequence against the
current /repo tree several times and report how often the same check fails again."""
import json, os, shutil, sys
from . import common as C
from . import tracecheck as T


def main(prop, path, redrives=5):
    d = json.load(open(path))
    check = d["check"]
    C.build()
    work = C.scratch("replay")
    try:
        C.copy_spec(work)
        rec = os.path.join(work, "recorded.ndjson")
        with open(rec, "w") as f:
            for r in d["trace"]:
                f.write(json.dumps(r) + "\n")
        kf = [k["id"] for k in C.known_findings() if k.get("status") == "known"]
        fails, kfs, n = T.validate(work, rec, kf)
        hit = sorted(set(l for c, l in fails if c == check))
        print("recorded behaviour: %d steps, check %s fails at steps %s" % (n, check, [h - 1 for h in hit][:10]))
        ops = os.path.join(work, "ops.ndjson")
        with open(ops, "w") as f:
            for r in d["trace"]:
                o = T.ops_only(r)
                if o["op"] == "endDrain" or o.get("td"):
                    continue
                f.write(json.dumps(o) + "\n")
        again = 0
        for i in range(redrives):
            out, st = T.drive(work, None, d.get("seed", 1), 0, 0, "redrive-%d.ndjson" % i, ops=ops, teardown=False)
            f2, k2, n2 = T.validate(work, out, kf)
            if any(c == check for c, l in f2):
                again += 1
        print("re-driven against the current tree: %s fails in %d of %d runs" % (check, again, redrives))
        if os.environ.get("VERIF_KEEP"):
            print("scratch kept:", work)
        # the verdict is about the CURRENT tree: the recorded behaviour only documents what an earlier build did
        if again:
            print("VIOLATION property=%s replay=%s" % (prop, path))
            sys.exit(1)
        if hit:
            print("not reproduced on the current tree in %d re-drives (the recorded behaviour, produced by an earlier build or by a different scheduler choice, does violate %s)" % (redrives, check))
        sys.exit(0)
    finally:
        if not os.environ.get("VERIF_KEEP"):
            shutil.rmtree(work, ignore_errors=True)
