"""C15 - configuration validation is sound: what it accepts is loadable and well-formed.

Pipeline (technique: explicit TLA+ specification + TLC, bound to the real code by conformance replay):
 1. spec/ConfigValid.tla states the DOCUMENTED hierarchy rules as SpecValid(c) over an abstract configuration record.
 2. TLC enumerates spec/MC_ConfigValid.tla: every initial state is one abstract configuration of a family (F1/F1b resources, F2
    max-applications, F3a-e user / group / wildcard limits, F4 structure and names, F5 placement rules against the tree) and
    is printed with the specification's verdict (valid, the violated rules, the ambiguous sub-cases, where static paths end).
    quick: a seeded residue class of the large families; thorough: every family completely (large ones in shards).
 3. `ykh confvalid` renders every record as YAML, asks the real validator (configs.LoadSchedulerConfigFromByteArray, five times
    on the same bytes) and for every ACCEPTED document: NewClusterContext, UpdateRMSchedulerConfig on a context that runs another
    configuration, the number of placement rules in force, one application per leaf queue and per rule shape (panics recovered).
 4. ORACLE (soundness only): accepted => SpecValid; accepted => load, reload and first placement succeed without panic;
    one verdict on repeated validation.  A REJECTED configuration is never a violation (completeness is not claimed); they are
    counted, also the ones the specification calls valid.
 5. Every disagreement is matched narrowly against KNOWN_FINDINGS.json (by the input class that fails AND the failure the entry
    predicts); everything else is a VIOLATION with a replay file.
"""
import json, os, re, shutil, sys, time
from . import common as C

RULE_BUILD = ("RuleNameKnown", "RuleHasValue", "FixedValueNames", "QualifiedFixedHasNoParent")
PATH_RULES = ("StaticPathTargetIsLeaf", "StaticPathTargetIsParent", "MissingPathCreatable")
# ambiguous sub-case (spec/ConfigValid.tla, Ambiguities) -> rules whose verdict it makes uncertain
AMB_SHIELD = {"GuaranteedTypeMissingInParent": (), "CreateFlagsDifferInChain": ("MissingPathCreatable",), "DottedUnqualifiedValue": PATH_RULES}
FAMILIES = ("F1", "F1b", "F2", "F3a", "F3b", "F3c", "F3d", "F3e", "F4", "F5")
IDENT = re.compile(r"^[_a-zA-Z][a-zA-Z0-9_]*$")
MAX_REPLAY_FILES = 12


def plan(tier):
    """family -> (Mod, Shards): the residue class kept by the generator and the number of TLC processes"""
    if tier == "quick":
        return {"F1": (8, 1), "F1b": (4, 1), "F2": (1, 1), "F3a": (16, 1), "F3b": (1, 1), "F3c": (8, 1), "F3d": (1, 1), "F3e": (1, 1), "F4": (1, 1), "F5": (1, 1)}
    return {"F1": (1, 2), "F1b": (1, 1), "F2": (1, 1), "F3a": (1, 5), "F3b": (1, 1), "F3c": (1, 1), "F3d": (1, 1), "F3e": (1, 1), "F4": (1, 1), "F5": (1, 1)}


# ----------------------------------------------------------------------------------------------------------------------
# the abstract record, as far as the matchers need it

def qname(q):
    return "".join(q["name"])


def tree(case):
    """queue list with the root at index 1 (index 0 unused), as Tree(c) of the specification"""
    qs = [dict(q) for q in case["conf"]["queues"]]
    if case.get("implied", implied_root(qs)):
        for q in qs:
            q["up"] += 1
        qs.insert(0, {"name": list("root"), "up": 0, "parent": True, "max": {}, "guar": {}, "maxApps": 0, "limits": [], "tmpl": {}})
    return [None] + qs


def implied_root(qs):
    tops = [q for q in qs if q["up"] == 0]
    return not (len(tops) == 1 and qname(tops[0]).lower() == "root")


def res(v):
    return v if isinstance(v, dict) else {}


def within(small, big):
    small, big = res(small), res(big)
    return all(small[t] <= big[t] for t in small if t in big)


def ancestors(T, i):
    out = []
    while T[i]["up"] != 0:
        i = T[i]["up"]
        out.append(i)
    return out


def has_kids(T, i):
    return any(q is not None and q["up"] == i for q in T)


def subjects(q, kind):
    key = "users" if kind == "user" else "groups"
    return [(k, n) for k, l in enumerate(q["limits"]) for n in l[key]]


def naming(q, kind, n):
    key = "users" if kind == "user" else "groups"
    return [l for l in q["limits"] if n in l[key]]


# ----------------------------------------------------------------------------------------------------------------------
# known findings: narrow recognisers.  Rule level (kind "unsound"): which violated rules of this case does the finding explain.

def explain_rules(case):
    """-> {rule name: matcher} for the violated rules of this accepted case that a known defect of the validator explains"""
    why, out = set(case.get("why") or []), {}
    T = tree(case)
    chains = case["conf"]["rules"]
    # the validator does not run the checks of the rule constructors (placement.newRule)
    if "RuleHasValue" in why:
        out["RuleHasValue"] = "rule_not_buildable"
    if "FixedValueNames" in why:
        out["FixedValueNames"] = "rule_not_buildable"
    if "RuleNameKnown" in why and all(IDENT.match(r["name"]) for ch in chains for r in ch):
        out["RuleNameKnown"] = "rule_not_buildable"             # an unknown name that is an identifier passes the name check
    if "QualifiedFixedHasNoParent" in why:
        def qualified(r):
            return r["name"] == "fixed" and r["value"] and "".join(r["value"][0]).lower() == "root"
        bad = [(ch, k) for ch in chains for k in range(1, len(ch)) if qualified(ch[k])]
        if bad and all(any(r["name"] != "fixed" for r in ch[:k]) for ch, k in bad):   # a qualified fixed rule behind a dynamic rule is never looked at
            out["QualifiedFixedHasNoParent"] = "rule_not_buildable"
    # the leaf test of a static path looks at the parent flag as written, not at the children
    if "StaticPathTargetIsLeaf" in why:
        hits = [p for p in case.get("paths") or [] if p["wellformed"] and p["static"] >= 1 and p["missing"] == 0 and not p["dynamic"]]
        par = [p["at"] for p in hits if p["at"] == 1 or T[p["at"]]["parent"] or has_kids(T, p["at"])]
        if par and all(a != 1 and not T[a]["parent"] and has_kids(T, a) for a in par):
            out["StaticPathTargetIsLeaf"] = "implied_parent_flag"
    # a wildcard limit of an ancestor is not compared when another ancestor names the user / group
    for rule, resource in (("LimitResourceWithinAncestorWildcard", True), ("LimitApplicationsWithinAncestorWildcard", False)):
        if rule not in why:
            continue
        bad = shadowed = 0
        for i in range(1, len(T)):
            for kind in ("user", "group"):
                for k, n in subjects(T[i], kind):
                    if n == "*":
                        continue
                    l, anc = T[i]["limits"][k], ancestors(T, i)
                    viol = False
                    for a in anc:
                        if naming(T[a], kind, n):
                            continue
                        for w in naming(T[a], kind, "*"):
                            if resource:
                                viol |= not within(l["max"], w["max"])
                            else:
                                viol |= not (w["maxApps"] == 0 or (l["maxApps"] != 0 and l["maxApps"] <= w["maxApps"]))
                    if viol:
                        bad += 1
                        shadowed += any(naming(T[a], kind, n) for a in anc)
        if bad and bad == shadowed:
            out[rule] = "wildcard_limit_shadowed"
    # the limit is not compared with the queue maximum when the queue is CALLED root
    if "LimitResourceWithinQueueMax" in why:
        bad = [i for i in range(1, len(T)) if any(not within(l["max"], T[i]["max"]) for l in T[i]["limits"])]
        if bad and all(i != 1 and qname(T[i]) == "root" for i in bad):
            out["LimitResourceWithinQueueMax"] = "nested_queue_named_root"
    return out


BUILD_MESSAGES = (("unknown rule name specified", "RuleNameKnown"), ("recovery rule cannot be part of the config", "RuleNameKnown"),
                  ("a fixed queue rule must have a queue name set", "RuleHasValue"), ("a tag queue rule must have a tag name set", "RuleHasValue"),
                  ("invalid queue name", "FixedValueNames"), ("cannot have a fixed queue rule with qualified queue", "QualifiedFixedHasNoParent"))


def explain_event(m):
    """matcher name for a load / reload / placement failure that a known defect explains exactly, or None"""
    case, kind, detail = m["case"], m["kind"], m.get("detail") or ""
    qs, chains = case["conf"]["queues"], case["conf"]["rules"]
    explained = explain_rules(case)
    if kind in ("place", "place_after_reload"):
        def culprit(ch):
            r = ch[-1]
            first = "".join(r["value"][0]).lower() if r["value"] else ""
            return r["name"] == "fixed" and r["create"] and first.startswith("root") and first != "root"
        if "slice bounds out of range" in (m.get("panic") or "") and (m.get("stack") or [""])[0].endswith("PlaceApplication") and any(culprit(ch) for ch in chains):
            return "fixed_root_prefix"
        return None
    if kind in ("load", "reload") and "partition cannot be created without root queue" in detail:
        tops = [q for q in qs if q["up"] == 0]
        if len(tops) == 1 and qname(tops[0]).lower() == "root" and qname(tops[0]) != "root":
            return "root_name_case"
        return None
    if kind in ("load", "reload") and "invalid quantity" in detail:
        T = tree(case)
        def neg(r):
            return any(v < 0 for v in res(r).values())
        checked = any(neg(q["max"]) or neg(q["guar"]) or any(neg(l["max"]) for l in q["limits"]) for q in qs)
        tmpl = any(q is not None and (i == 1 or q["parent"] or has_kids(T, i)) and (neg(q["tmpl"].get("max")) or neg(q["tmpl"].get("guar"))) for i, q in enumerate(T))
        return "template_quantity" if tmpl and not checked else None
    if kind == "load_rules" and "runs 0 placement rules" in detail:
        return "rule_not_buildable" if any(explained.get(r) == "rule_not_buildable" for r in RULE_BUILD) else None
    if kind == "reload":
        for text, rule in BUILD_MESSAGES:
            if text in detail:
                return "rule_not_buildable" if explained.get(rule) == "rule_not_buildable" else None
    return None


def judge(m):
    """-> (verdict, matchers): verdict 'known' (explained by the matchers), 'ambiguous' (not judged) or 'violation'"""
    case = m["case"]
    if m["kind"] == "unsound":
        why = set(case.get("why") or [])
        shielded = set(r for a in case.get("amb") or [] for r in AMB_SHIELD.get(a, ()))
        why -= shielded
        if not why:
            return "ambiguous", []
        ex = explain_rules(case)
        if all(r in ex for r in why):
            return "known", sorted(set(ex[r] for r in why))
        return "violation", []
    name = explain_event(m)
    return ("known", [name]) if name else ("violation", [])


def classify(mismatches, kfs):
    by_matcher = {k["matcher"]: k for k in kfs if k.get("status") == "known" and k.get("matcher")}
    viol, ambiguous, obs, examples = [], 0, {k["id"]: 0 for k in by_matcher.values()}, {}
    for m in mismatches:
        verdict, names = judge(m)
        if verdict == "ambiguous":
            ambiguous += 1
        elif verdict == "known" and all(n in by_matcher for n in names):
            for n in names:
                kid = by_matcher[n]["id"]
                obs[kid] += 1
                examples.setdefault(kid, {"kind": m["kind"], "detail": m.get("detail"), "panic": m.get("panic"), "yaml": m.get("yaml")})
        else:
            viol.append(m)
    return viol, ambiguous, obs, examples


# ----------------------------------------------------------------------------------------------------------------------
# tools

def enumerate_family(d, fam, mod, seed, shards, shard):
    cfg = "run_%s_%d.cfg" % (fam, shard)
    open(os.path.join(d, cfg), "w").write(
        'CONSTANTS\n Fam = "%s"\n Mod = %d\n Seed = %d\n Shards = %d\n Shard = %d\nINIT Init\nNEXT Next\nINVARIANT Emit\nCHECK_DEADLOCK FALSE\n'
        % (fam, mod, seed, shards, shard))
    t = time.time()
    rc, out = C.tlc(d, "MC_ConfigValid", cfg, workers=1, timeout=1500)
    if rc != 0 or "Model checking completed. No error has been found." not in out:
        raise C.Infra("TLC failed on MC_ConfigValid %s (rc %s): %s" % (cfg, rc, out[-2000:]))
    lines = [l for l in out.splitlines() if l.startswith('<<"CASE", ')]
    gen, dist = C.tlc_stats(out)
    if dist != len(lines):
        raise C.Infra("MC_ConfigValid %s: %d distinct states but %d CASE lines" % (cfg, dist, len(lines)))
    return {"fam": fam, "shard": shard, "lines": lines, "generated": gen, "distinct": dist, "wall_s": round(time.time() - t, 1)}


def run_harness(d, tag, lines):
    """-> (summary, mismatches, verdict records)"""
    cf, mm, vd = [os.path.join(d, "%s.%s" % (tag, s)) for s in ("cases", "mismatch.ndjson", "verdicts.ndjson")]
    with open(cf, "w") as f:
        f.write("\n".join(lines) + "\n")
    p = C.sh([C.VERIF + "/.build/ykh", "confvalid", "-cases", cf, "-out", mm, "-verdicts", vd], timeout=1500, check=False)
    if p.returncode != 0:
        raise C.Infra("ykh confvalid failed (rc %s): %s" % (p.returncode, p.stdout[-2000:]))
    try:
        summary = json.loads(p.stdout.strip().splitlines()[-1])
    except (ValueError, IndexError):
        raise C.Infra("ykh confvalid printed no summary: %s" % p.stdout[-500:])
    return summary, [json.loads(l) for l in open(mm) if l.strip()], [json.loads(l) for l in open(vd) if l.strip()]


def signature(m):
    return (m["kind"], ",".join(sorted(m["case"].get("why") or [])) if m["kind"] == "unsound" else re.sub(r"[^A-Za-z]+", "-", (m.get("panic") or m.get("detail") or ""))[:60])


def write_replays(prop, seed, viol):
    groups = {}
    for m in viol:
        groups.setdefault(signature(m), []).append(m)
    os.makedirs(C.VERIF + "/replays", exist_ok=True)
    paths = []
    for n, (sig, ms) in enumerate(sorted(groups.items())[:MAX_REPLAY_FILES]):
        path = "%s/replays/%s-%s-%d-%d.json" % (C.VERIF, prop, sig[0], seed, n)
        first = ms[0]
        json.dump({"property": prop, "kind": sig[0], "count_in_run": len(ms),
                   "expected": "an accepted configuration satisfies every rule of spec/ConfigValid.tla, loads into a new and into a running scheduler with all "
                               "placement rules in force, first placements do not panic, repeated validation gives one verdict",
                   "actual": {"code": "accepted", "spec_valid": first["valid"], "violated_rules": first.get("why"), "detail": first.get("detail"),
                              "panic": first.get("panic"), "stack": first.get("stack"), "application": first.get("app"), "verdicts": first.get("verdicts")},
                   "yaml": first.get("yaml"),
                   "how": "bin/check %s --replay <this file> re-runs every entry of 'cases' (the abstract configuration exactly as enumerated by TLC, "
                          "with the specification's verdict) against the current tree" % prop,
                   "cases": [m["case"] for m in ms[:25]],
                   "first_mismatches": [{k: v for k, v in m.items() if k != "case"} for m in ms[:5]]}, open(path, "w"), indent=1)
        paths.append(path)
    return paths


def kf_lines(prop, kfs, obs):
    return ["KNOWN-FINDING: property=%s %s [%s] observed_in_this_run=%d" % (prop, k["what"], k["id"], obs.get(k["id"], 0))
            for k in kfs if k.get("status") == "known" and prop in k.get("properties", [])]


# ----------------------------------------------------------------------------------------------------------------------

def replay(prop, path, kfs):
    C.build()
    rp = json.load(open(path))
    cases = rp.get("cases") or []
    if not cases:
        raise C.Infra("replay file has no cases: " + path)
    d = C.scratch("c15r")
    try:
        summary, mism, _ = run_harness(d, "replay", [json.dumps(c, separators=(",", ":")) for c in cases])
    finally:
        shutil.rmtree(d, ignore_errors=True)
    if summary.get("cases", 0) != len(cases):
        raise C.Infra("replayed %s of %d cases" % (summary.get("cases"), len(cases)))
    viol, ambiguous, obs, _ = classify(mism, kfs)
    for m in viol[:10]:
        print("still failing: " + json.dumps({k: v for k, v in m.items() if k not in ("case", "yaml")}))
    print("replayed %d case(s): %d accepted, %d disagreement(s), %d not covered by a known finding" % (len(cases), summary.get("accepted", 0), len(mism), len(viol)))
    if viol:
        print("VIOLATION property=%s replay=%s" % (prop, path))
    sys.exit(1 if viol else 0)


def main(prop, tier, seed, argv):
    t0 = time.time()
    kfs = [k for k in C.known_findings() if prop in k.get("properties", [])]
    if "--replay" in argv:
        return replay(prop, argv[argv.index("--replay") + 1], kfs)
    C.build()
    d = C.scratch("c15")
    try:
        C.copy_spec(d)
        phase, tp = {"build_and_setup": round(time.time() - t0, 1)}, time.time()
        pl = plan(tier)
        jobs = [(fam, pl[fam][0], seed, pl[fam][1], sh) for fam in FAMILIES for sh in range(pl[fam][1])]
        jobs.sort(key=lambda j: -({"F3a": 3, "F1": 2}.get(j[0], 1)))           # the long ones first
        enum = C.pmap(lambda j: enumerate_family(d, *j), jobs, min(C.NCPU, len(jobs)))
        phase["tlc_enumeration"], tp = round(time.time() - tp, 1), time.time()
        lines = [l for e in enum for l in e["lines"]]
        states, transitions = sum(e["distinct"] for e in enum), sum(e["generated"] for e in enum)
        if not lines:
            raise C.Infra("vacuous run: TLC enumerated no case")

        n = max(1, min(C.NCPU, 16, len(lines) // 200))
        runs = C.pmap(lambda i: run_harness(d, "part%d" % i, lines[i::n]), range(n), n)
        phase["harness_replay"], tp = round(time.time() - tp, 1), time.time()

        # totals
        tot = {k: sum(r[0][k] for r in runs) for k in ("cases", "accepted", "rejected", "acceptedValid", "loads", "reloads", "appsSubmitted", "appsAccepted",
                                                         "appsRejected", "validations", "mismatches")}
        byfam = {}
        for r in runs:
            for f, s in r[0]["byFam"].items():
                for k, v in s.items():
                    byfam.setdefault(f, {}).setdefault(k, 0)
                    byfam[f][k] += v
        mism = [m for r in runs for m in r[1]]
        verdicts = [v for r in runs for v in r[2]]
        if tot["cases"] != len(lines) or len(verdicts) != len(lines):
            raise C.Infra("cases lost: TLC printed %d, the harness replayed %d (%d verdicts)" % (len(lines), tot["cases"], len(verdicts)))

        # vacuity guards
        if tot["acceptedValid"] == 0 or tot["rejected"] == 0 or tot["appsAccepted"] == 0:
            raise C.Infra("vacuous run: %d accepted and valid, %d rejected, %d applications placed" % (tot["acceptedValid"], tot["rejected"], tot["appsAccepted"]))
        empty = [f for f in FAMILIES if byfam.get(f, {}).get("accepted", 0) == 0 or byfam.get(f, {}).get("cases", 0) == 0]
        if empty:
            raise C.Infra("vacuous run: no accepted configuration in families %s" % empty)
        if tot["loads"] != tot["accepted"] or tot["reloads"] != tot["accepted"]:
            raise C.Infra("accepted %d, loaded %d, reloaded %d" % (tot["accepted"], tot["loads"], tot["reloads"]))

        # classification
        viol, ambiguous, obs, examples = classify(mism, kfs)
        paths = write_replays(prop, seed, viol) if viol else []
        bysig = {}
        for m in viol:
            bysig["%s: %s" % signature(m)] = bysig.get("%s: %s" % signature(m), 0) + 1
        if viol:
            print("disagreements not covered by a known finding: %s" % json.dumps(bysig, sort_keys=True))
        accepted_docs = set(v["doc"] for v in verdicts if v["code"] == "accepted")
        rejected_valid = {}
        for v in verdicts:
            if v["valid"] and v["code"] != "accepted":
                key = re.sub(r"[0-9]+|\(.*?\)|map\[.*?\]", "", v["code"])[:70]
                rejected_valid[key] = rejected_valid.get(key, 0) + 1
        amb_cases = sum(1 for v in verdicts if v.get("amb"))
        samples = [json.loads(s) if isinstance(s, str) else s for r in runs[:3] for s in r[0]["samples"][:2]]
        cov = {
            "states": states, "transitions": transitions, "traces_validated_against_impl": tot["cases"], "evaluations": tot["cases"],
            "distinct_nontrivial": len(accepted_docs),
            "rule": "one evaluation = one abstract configuration enumerated by TLC as an initial state of MC_ConfigValid (with SpecValid computed by the "
                    "specification), rendered to YAML and put to the real validator; it is non-trivial when the real validator ACCEPTS it, because only then "
                    "the soundness oracle, both loads and the placements are exercised; distinct = distinct YAML documents (sha1) among the accepted ones",
            "samples": samples, "exhaustive": tier == "thorough",
            "explanation": "exhaustive over the stated finite families only (thorough); quick keeps the residue class (weighted index sum + seed) mod Mod of the large families",
            "plan": {f: {"mod": pl[f][0], "tlc_processes": pl[f][1]} for f in FAMILIES},
            "by_family": byfam, "accepted": tot["accepted"], "rejected": tot["rejected"], "accepted_and_spec_valid": tot["acceptedValid"],
            "rejected_although_spec_valid": sum(rejected_valid.values()), "rejected_although_spec_valid_reasons": dict(sorted(rejected_valid.items(), key=lambda kv: -kv[1])[:12]),
            "cases_with_ambiguous_subcase": amb_cases, "disagreements_not_judged_ambiguous": ambiguous,
            "loads_new_scheduler": tot["loads"], "reloads_running_scheduler": tot["reloads"], "validations": tot["validations"],
            "applications_submitted": tot["appsSubmitted"], "applications_accepted": tot["appsAccepted"], "applications_rejected": tot["appsRejected"],
            "disagreements": len(mism), "known_findings_observed": obs, "known_finding_examples": examples, "violations_by_signature": bysig,
            "tlc_runs": [{k: v for k, v in e.items() if k != "lines"} for e in enum], "harness_processes": n, "phase_wall_s": phase,
            "checker_cmd": "tlc MC_ConfigValid (one process per family / shard) | ykh confvalid",
        }
        C.write_evidence(prop, tier, seed, "model_checking", cov, time.time() - t0, len(viol), [
            "TLC evaluates ConfigValid.tla correctly; the rules are the documented meaning as read from comments and error messages (listed at the head of the module)",
            "the harness renders the abstract record faithfully (names = characters joined, values joined with dots, quantities as decimal numbers, -1 = unparsable quantity)",
            "filter entries carry their classification (name / regexp / broken) from the generator: \"u[0-9\" and \"g(\" are broken regular expressions, \"^u.*$\" is a regular expression",
            "soundness only: a rejected configuration is never a violation; ambiguous sub-cases (guaranteed type missing in the parent, create flags differing in a chain, dotted unqualified fixed values, "
            "application bound 0 below a bounded limit, zero quantities) are not judged",
            "one partition, memory/pods types, trees of depth <= 3, at most three placement rules; ACLs, properties, node sort policy and vcore units are outside the families",
            "the running scheduler of the reload step runs a fixed base configuration without applications; state carried by applications across a reload is property C16",
        ])
        C.finish(prop, paths, kf_lines(prop, kfs, obs))
    finally:
        shutil.rmtree(d, ignore_errors=True)
