"""C20 - event history returns exactly the requested, gap-free range.

Pipeline (technique: explicit TLA+ specification + TLC, bound to the real code by replay):
  ring   : spec/EventRing.tla. TLC enumerates every behaviour (Add / Resize op sequence) within the bounds and, per abstract state, the
           specification's answer to every query (start,count) and every recent(count). The harness rebuilds a real eventRingBuffer from
           each op sequence and compares ids and (lowest,last) of every query exactly (lock-step at every behaviour prefix).
  store  : spec/EventStore.tla. Every behaviour of Store / CollectEvents / SetStoreSize with the expected batch of every collection.
  stream : spec/EventStream.tla models the DESIGN of CreateEventStream / PublishEvent (publisher split into RingAdd;Publish, subscriber into
           Register;ReadHistory;Forward). TLC enumerates every interleaving, evaluates the property on the design (counterexamples = design
           findings) and prints per schedule what the design delivers and what the property admits. Every schedule is replayed on a real
           EventStreaming + ring buffer with the gate stream.registered forcing the interleaving; the verdict is taken from what the real
           consumer channel delivered.
  system : the one-subscriber schedules once more, end to end through the real EventSystemImpl (pkg/events/event_system.go): its own
           goroutine is the publisher, parked by the gate stream.publish between the ring buffer add and PublishEvent; checks in addition
           that an event is stored and recorded before it is published and that history and store hold every event at the end.
  sampled: ring, store and stream with larger bounds, behaviours sampled by `tlc -simulate` (one worker) with the run's seed.
A failing case is a known finding only when it falls in the narrow input class of an entry of KNOWN_FINDINGS.json AND the real code's
wrong output is exactly the one that entry predicts; everything else is a VIOLATION with a replay file.
"""
import json, os, re, shutil, sys, time
from . import common as C

PROP = "C20"
MAX_REPLAY_FILES = 12     # per part; further failing cases are counted and summarised, not written one by one


# ------------------------------------------------------------------------------------------------------------------------------
# TLC plumbing

def tlc_lines(out, tag):
    """values printed by PrintT(<<tag, ToJson(v)>>); TLC prints them on one line (model checking) or wrapped (simulation)"""
    for m in re.finditer(r'<<\s*"%s",\s*"((?:[^"\\]|\\.)*)"\s*>>' % tag, out):
        yield json.loads(json.loads('"' + m.group(1) + '"'))


def write_cfg(work, name, base, subst):
    """copy spec/<base> to <name> with `Const = value` / `Const <- value` lines replaced"""
    s = open(os.path.join(work, base)).read()
    for k, v in subst.items():
        s, n = re.subn(r"(?m)^(\s*%s\s*(?:=|<-)\s*).*$" % re.escape(k), lambda m: m.group(1) + str(v), s)
        if n != 1:
            raise C.Infra("cfg %s: constant %s not found" % (base, k))
    open(os.path.join(work, name), "w").write(s)
    return name


def run_tlc(work, module, cfg, stats, workers=None, simulate=None, extra=(), ok_rc=(0,)):
    t = time.time()
    if simulate:
        workers = 1       # a simulation is reproducible from its seed only with one worker
    rc, out = C.tlc(work, module, cfg, workers=workers or min(8, C.NCPU), timeout=1500, extra=("-deadlock", "-noGenerateSpecTE") + tuple(extra), simulate=simulate)
    if rc not in ok_rc:
        raise C.Infra("TLC failed rc=%s on %s/%s:\n%s" % (rc, module, cfg, out[-2500:]))
    gen, dist = C.tlc_stats(out)
    if simulate:
        m = re.search(r"The number of states generated: (\d+)", out)
        gen = dist = int(m.group(1)) if m else 0
    stats["runs"].append({"module": module, "cfg": cfg, "generated": gen, "distinct": dist, "mode": "simulate" if simulate else "exhaustive", "wall_s": round(time.time() - t, 1)})
    return rc, out


def harness(sub, inp, outp, extra=(), on_line=None):
    """run a replay sub-command; result lines are passed to on_line (or collected), the summary line is returned"""
    p = C.sh([C.VERIF + "/.build/ykh", "events", sub, "-in", inp, "-out", outp] + list(extra), timeout=1500, check=False)
    if p.returncode != 0:
        raise C.Infra("harness events %s failed rc=%s: %s" % (sub, p.returncode, p.stdout[-2000:]))
    res, summary = [], None
    for l in open(outp):
        if l.startswith('{"summary":true'):
            summary = json.loads(l)
        elif on_line:
            on_line(l)
        else:
            res.append(json.loads(l))
    if summary is None:
        raise C.Infra("harness events %s wrote no summary" % sub)
    return res, summary


# ------------------------------------------------------------------------------------------------------------------------------
# known-finding matchers (referenced by the field "matcher" of KNOWN_FINDINGS.json entries)

def ring_layout(ops):
    """physical layout the documented algorithm produces for an op list: (capacity, next id, held, resize offset)"""
    cap, nid, n, off = ops[0], 0, 0, 0
    for op in ops[1:]:
        if op == 0:
            nid += 1
            n = min(n + 1, cap)
        elif op != cap:
            n = min(n, op)
            cap = op
            off = nid - n
    return cap, nid, n, off


def m_ring_wrap_underflow(f):
    """getEventsFromID on a full buffer whose write position is not 0, start stored at or behind the write position, and the requested
    range ending before the physical end of the slice (pos + count < capacity): `end = pos + count - capacity` underflows, the second
    range [0, head) is appended. Predicted wrong answer: the requested ids followed by the `head` newest ids; lowest/last correct."""
    if f["kind"] != "query":
        return False
    cap, nid, n, off = ring_layout(f["ops"])
    s, c = f["start"], f["count"]
    if n != cap or not (nid - n <= s < nid):
        return False
    head, pos = (nid - off) % cap, (s - off) % cap
    cc = cap if c < 0 else min(c, cap)
    if not (head > 0 and pos >= head and pos + cc < cap):
        return False
    return f["got"] == f["want"] + list(range(nid - head, nid)) and f["got_lowest"] == f["want_lowest"] and f["got_last"] == f["want_last"]


def m_ring_recent_lost(f):
    """GetRecentEvents(count) with count larger than the number of events held, on a buffer that has already lost events (lowest id > 0):
    the start id is computed without regard to the lowest id, is not found, and nothing is returned."""
    if f["kind"] != "recent":
        return False
    nid, cap, lo = f["key"]
    c = f["count"]
    return lo > 0 and (c < 0 or c > nid - lo) and f["got"] == [] and len(f["want"]) > 0


def stream_overlap(sched, s):
    """(count, ids published between reg s and read s, events recorded at read s)"""
    cnt, reg, pubs, added = None, False, [], 0
    for st in sched:
        if st[0] == "add":
            added += 1
        elif st[0] == "reg" and st[1] == s:
            reg, cnt = True, st[2]
        elif st[0] == "pub" and reg:
            pubs.append(st[1])
        elif st[0] == "read" and st[1] == s:
            return cnt, pubs, added
    return cnt, pubs, added


def m_stream_history_reorder(f):
    """CreateEventStream with a count-limited history (count >= 1) while an event that is NOT part of the history read (id < recorded - count)
    is published between the registration and the history read: the forwarder delivers the history first, then that older event, resets its
    duplicate filter and delivers the history events again. Predicted wrong delivery = exactly what spec/EventStream.tla's design model delivers."""
    cnt, pubs, added = stream_overlap(f["sched"], f["sub"])
    if cnt is None or cnt < 1:
        return False
    if not any(j < added - cnt for j in pubs):
        return False
    return f["got"] in f["model"] and not f["timeout"] and not f["err"] and not f.get("system_check_failed")


MATCHERS = {"ring_wrap_underflow": ("ring", m_ring_wrap_underflow), "ring_recent_lost": ("ring", m_ring_recent_lost),
            "stream_history_reorder": ("stream", m_stream_history_reorder)}


def active_kfs():
    out = []
    for k in C.known_findings():
        if PROP in k.get("properties", [k.get("property")]) and k.get("status") == "known":
            if k.get("matcher") not in MATCHERS:
                raise C.Infra("known finding %s: unknown matcher %r" % (k["id"], k.get("matcher")))
            out.append(k)
    return out


KEEP_VIOLATIONS = 3000    # once a part has this many violating cases the verdict is settled; the rest is counted, not classified


class Classifier:
    """splits the failures of one part into known-finding hits and violations, as they are read"""
    def __init__(self, part, kfs, kf_obs, kf_sample):
        self.part, self.kf_obs, self.kf_sample = part, kf_obs, kf_sample
        self.fns = [(k["id"], MATCHERS[k["matcher"]][1]) for k in kfs if MATCHERS[k["matcher"]][0] == part]
        self.viol, self.nviol, self.nfail, self.unclassified, self.bad_keys = [], 0, 0, 0, set()

    def add(self, f):
        self.nfail += 1
        self.bad_keys.add(json.dumps(f.get("ops") or f.get("sched")))
        for kid, fn in self.fns:
            if fn(f):
                self.kf_obs[kid] = self.kf_obs.get(kid, 0) + 1
                if kid not in self.kf_sample:
                    self.kf_sample[kid] = dict(f, part=self.part)
                return
        self.nviol += 1
        if len(self.viol) < KEEP_VIOLATIONS:
            self.viol.append(f)

    def line(self, l):
        if self.nviol >= KEEP_VIOLATIONS:
            self.nfail += 1
            self.nviol += 1          # not classified any more: counted on the failing side, the verdict is already VIOLATION
            self.unclassified += 1
            return
        self.add(json.loads(l))


# ------------------------------------------------------------------------------------------------------------------------------
# the three parts

def ring_part(work, tag, tab_subst, beh_subst, stats, cl, simulate=None, seed=1):
    """returns (summary, sample behaviours); failures go to the classifier cl"""
    tcfg = write_cfg(work, "ring_tab_%s.cfg" % tag, "MC_EventRing_tables.cfg", tab_subst)
    _, tout = run_tlc(work, "MC_EventRing", tcfg, stats, workers=1)
    bcfg = write_cfg(work, "ring_beh_%s.cfg" % tag, "MC_EventRing_beh.cfg", beh_subst)
    extra = ("-depth", str(int(beh_subst["MaxAdds"]) + int(beh_subst["MaxResizes"]) + 1), "-seed", str(seed)) if simulate else ()
    _, bout = run_tlc(work, "MC_EventRing", bcfg, stats, simulate=simulate, extra=extra)
    inp, outp = os.path.join(work, "ring_%s.in" % tag), os.path.join(work, "ring_%s.out" % tag)
    ntab, nbeh, seen, samples = 0, 0, set(), []
    with open(inp, "w") as f:
        for t in tlc_lines(tout, "TABLE"):
            f.write(json.dumps({"t": "table", "key": t["key"], "q": t["q"], "r": t["r"]}) + "\n")
            ntab += 1
        for b in tlc_lines(bout, "BEH"):
            k = tuple(b["ops"])
            if k in seen:      # simulation repeats prefixes
                continue
            seen.add(k)
            f.write(json.dumps({"t": "beh", "key": b["key"], "ops": b["ops"]}) + "\n")
            nbeh += 1
            if len(samples) < 2 and len(b["ops"]) > 8 and b["key"][2] > 0:
                samples.append({"part": "ring", "ops": b["ops"], "abstract_state_nextId_capacity_lowest": b["key"]})
    if ntab == 0 or nbeh == 0:
        raise C.Infra("ring %s: TLC produced %d tables / %d behaviours" % (tag, ntab, nbeh))
    _, summ = harness("ring", inp, outp, on_line=cl.line)
    if summ["behaviours"] != nbeh:
        raise C.Infra("ring %s: harness replayed %d of %d behaviours" % (tag, summ["behaviours"], nbeh))
    summ["tables"] = ntab
    return summ, samples


def store_part(work, tag, subst, stats, cl, simulate=None, seed=1):
    cfg = write_cfg(work, "store_%s.cfg" % tag, "MC_EventStore.cfg", subst)
    extra = ("-depth", str(int(subst["MaxOps"]) + 2), "-seed", str(seed)) if simulate else ()
    _, out = run_tlc(work, "MC_EventStore", cfg, stats, simulate=simulate, extra=extra)
    inp, outp = os.path.join(work, "store_%s.in" % tag), os.path.join(work, "store_%s.out" % tag)
    n, seen, samples = 0, set(), []
    with open(inp, "w") as f:
        for ops in tlc_lines(out, "STORE"):
            k = json.dumps(ops)
            if k in seen:
                continue
            seen.add(k)
            f.write(k + "\n")
            n += 1
            if not samples and any(o[0] == 2 for o in ops) and any(o[0] == 1 and len(o[1]) > 1 for o in ops):
                samples.append({"part": "store", "ops_with_expected_observations": ops})
    if n == 0:
        raise C.Infra("store %s: TLC produced no behaviour" % tag)
    _, summ = harness("store", inp, outp, on_line=cl.line)
    if summ["behaviours"] != n:
        raise C.Infra("store %s: harness replayed %d of %d behaviours" % (tag, summ["behaviours"], n))
    return summ, samples


def stream_part(work, tag, base, subst, stats, simulate=None, seed=1, depth=80, system_every=0):
    """returns (failures, counters, samples); a failure = (schedule, subscriber) whose real delivery is not admitted by the property"""
    cfg = write_cfg(work, "stream_%s.cfg" % tag, base, subst)
    extra = ("-depth", str(depth), "-seed", str(seed)) if simulate else ()
    _, out = run_tlc(work, "MC_EventStream", cfg, stats, simulate=simulate, extra=extra)
    cfgtxt = open(os.path.join(work, cfg)).read()
    n_ev = int(re.search(r"NEvents\s*=\s*(\d+)", cfgtxt).group(1))
    ringcap = int(re.search(r"RingCap\s*=\s*(\d+)", cfgtxt).group(1))
    scheds = {}     # schedule -> {"sched":..., "subs":[{count, closed, want, model:set}]}
    for t in tlc_lines(out, "SCHED"):
        k = json.dumps(t["sched"])
        e = scheds.get(k)
        if e is None:
            e = scheds[k] = {"sched": t["sched"], "subs": [dict(count=s["count"], closed=s["closed"], want=s["want"], model=[], ok=True) for s in t["subs"]]}
        for i, s in enumerate(t["subs"]):
            if s["model"] not in e["subs"][i]["model"]:
                e["subs"][i]["model"].append(s["model"])
            e["subs"][i]["ok"] = e["subs"][i]["ok"] and s["ok"]
            if s["want"] != e["subs"][i]["want"]:
                raise C.Infra("stream %s: the admitted set of a schedule depends on forward timing (spec error)" % tag)
    if not scheds:
        raise C.Infra("stream %s: TLC produced no terminal schedule" % tag)
    cases = list(scheds.values())
    fails, cnt, samples = stream_eval(work, tag, "stream", cases, n_ev, ringcap)
    if system_every:
        # the same schedules end to end through the real event system (its own goroutine is the publisher, parked by the gate stream.publish)
        sub = cases[::system_every]
        f2, c2, _ = stream_eval(work, tag + "_sys", "system", sub, n_ev, ringcap)
        fails += f2
        cnt["system"] = c2
    return fails, cnt, samples


def stream_eval(work, tag, how, cases, n_ev, ringcap):
    """replay the schedules (how = stream: directly on ring buffer + EventStreaming; system: through EventSystemImpl) and judge the deliveries"""
    inp, outp = os.path.join(work, "stream_%s.in" % tag), os.path.join(work, "stream_%s.out" % tag)
    with open(inp, "w") as f:
        for i, c in enumerate(cases):
            f.write(json.dumps({"i": i, "n": n_ev, "nsubs": len(c["subs"]), "ringcap": ringcap, "sched": c["sched"]}) + "\n")
    res, summ = harness(how, inp, outp, ["-wait", "10s"])
    cnt = {"schedules": len(cases), "replayed": summ["schedules"], "aborted": summ["aborted"], "timeouts": summ["timeouts"], "conform": 0, "design_cex": 0,
           "overlap": 0, "deliveries": 0, "nil_records_after_close": 0, "closed": 0, "gate_registered_hits": summ["gate_registered_hits"],
           "gate_publish_hits": summ["gate_publish_hits"], "model_drift": 0}
    cnt["design_cex"] = sum(1 for c in cases for sub in c["subs"] if not sub["ok"])
    fails, samples = [], []
    for r in res:
        c = cases[r["i"]]
        if r.get("err", "").startswith("subscriber never reached the gate") or r.get("err", "").startswith("the event system never reached the gate"):
            raise C.Infra("stream %s: %s (is the tree built with the verif gates of pkg/events?)" % (tag, r["err"]))
        conform = True
        sysbad = None
        if how == "system" and not r.get("err"):
            full = list(range(n_ev + 1))      # the schedule's events and the sentinel
            if r["order"]:
                sysbad = "event system: " + "; ".join(r["order"])
            elif r["hist"] != full:
                sysbad = "event system: GetEventsFromID(0, unlimited) = %s after recording events %s" % (r["hist"], full)
            elif r["batch"] != full:
                sysbad = "event system: the store handed over %s after storing events %s" % (r["batch"], full)
        for si_, sub in enumerate(c["subs"]):
            s = si_ + 1
            got = r["recv"][si_]
            cnt["deliveries"] += len(got)
            cnt["nil_records_after_close"] += r["nils"][si_]
            _, pubs, _ = stream_overlap(c["sched"], s)
            if pubs:
                cnt["overlap"] += 1
            bad = None
            if r.get("err"):
                bad = r["err"]
            elif sysbad:
                bad = sysbad
            elif r["timeout"][si_]:
                bad = "timeout: the consumer channel did not deliver " + ("its close" if sub["closed"] else "the sentinel event")
            elif sub["closed"] and not r["closed"][si_]:
                bad = "consumer channel not closed after RemoveEventStream"
            elif not sub["closed"] and r["closed"][si_]:
                bad = "consumer channel closed although the stream was not removed"
            elif r["extra"][si_]:
                bad = "records delivered after the sentinel"
            elif got not in sub["want"]:
                bad = "delivered sequence not admitted by the property"
            if sub["closed"]:
                cnt["closed"] += 1
            if got not in sub["model"]:
                conform = False
            if bad:
                fails.append({"kind": how, "why": bad, "sched": c["sched"], "sub": s, "count": sub["count"], "closed": sub["closed"], "n": n_ev,
                              "nsubs": len(c["subs"]), "ringcap": ringcap, "want": sub["want"], "model": sub["model"], "got": got,
                              "timeout": r["timeout"][si_], "err": r.get("err", ""), "system_check_failed": bool(sysbad)})
            elif got not in sub["model"]:
                cnt["model_drift"] += 1
        if conform and not sysbad:
            cnt["conform"] += 1
            allok = all(x["ok"] for x in c["subs"])
            if any(stream_overlap(c["sched"], s + 1)[1] for s in range(len(c["subs"]))) and allok not in [x["design_meets_property"] for x in samples]:
                samples.append({"part": how, "sched": c["sched"], "delivered_by_real_code": r["recv"], "admitted_by_property": [x["want"] for x in c["subs"]],
                                "design_model_delivers": [x["model"] for x in c["subs"]], "design_meets_property": allok})
    return fails, cnt, samples


# ------------------------------------------------------------------------------------------------------------------------------
# replay files

def write_replays(part, viols, seed, start_n, size_key):
    os.makedirs(C.VERIF + "/replays", exist_ok=True)
    paths = []
    for n, f in enumerate(sorted(viols, key=size_key)[:MAX_REPLAY_FILES]):
        p = "%s/replays/%s-%s-%d-%d.json" % (C.VERIF, PROP, part, seed, start_n + n)
        json.dump({"property": PROP, "part": part, "case": f,
                   "note": "expected (want) is the answer of the TLA+ specification, got is what the real code returned"}, open(p, "w"), indent=1, sort_keys=True)
        paths.append(p)
    return paths


def replay_case(work, rep):
    """re-run exactly one recorded case against the current tree; returns the list of failures (empty = passes now)"""
    part, f = rep["part"], rep["case"]
    inp, outp = os.path.join(work, "replay.in"), os.path.join(work, "replay.out")
    if part == "ring":
        q, r = [], []
        if f["kind"] == "recent":
            r = [[f["count"], f["want"]]]
        elif f["kind"] == "query":
            q = [[f["start"], f["count"], f["want"], f["want_lowest"], f["want_last"]]]
        with open(inp, "w") as o:
            o.write(json.dumps({"t": "table", "key": f["key"], "q": q, "r": r}) + "\n")
            o.write(json.dumps({"t": "beh", "key": f["key"], "ops": f["ops"]}) + "\n")
        fails, _ = harness("ring", inp, outp)
        return fails
    if part == "store":
        open(inp, "w").write(json.dumps(f["ops"]) + "\n")
        fails, _ = harness("store", inp, outp)
        return fails
    if part == "stream":
        with open(inp, "w") as o:
            for i in range(5):     # the schedule is forced by the gate; repeated because the close/forward race is the code's own choice
                o.write(json.dumps({"i": i, "n": f["n"], "nsubs": f["nsubs"], "ringcap": f["ringcap"], "sched": f["sched"]}) + "\n")
        res, _ = harness("system" if f.get("kind") == "system" else "stream", inp, outp, ["-wait", "10s", "-workers", "1"])
        fails = []
        for r in res:
            si_ = f["sub"] - 1
            got = r["recv"][si_]
            full = list(range(f["n"] + 1))
            sysbad = f.get("kind") == "system" and (r.get("order") or r.get("hist") != full or r.get("batch") != full)
            if r.get("err") or sysbad or r["timeout"][si_] or r["extra"][si_] or got not in f["want"] or (f["closed"] != r["closed"][si_]):
                fails.append({"got": got, "want": f["want"], "err": r.get("err", ""), "timeout": r["timeout"][si_], "closed": r["closed"][si_]})
        return fails
    raise C.Infra("replay file: unknown part %r" % part)


def replay_main(path):
    rep = json.load(open(path))
    C.build()
    work = C.scratch("c20r")
    try:
        fails = replay_case(work, rep)
    finally:
        shutil.rmtree(work, ignore_errors=True)
    if fails:
        print("REPLAY property=%s still fails: %s" % (PROP, json.dumps(fails[0])[:600]))
        print("VIOLATION property=%s replay=%s" % (PROP, path))
        sys.exit(1)
    print("REPLAY property=%s passes on the current tree" % PROP)
    sys.exit(0)


# ------------------------------------------------------------------------------------------------------------------------------

def main(prop, tier, seed, argv):
    if "--replay" in argv:
        return replay_main(argv[argv.index("--replay") + 1])
    t0 = time.time()
    big = tier == "thorough"
    import glob
    for old in glob.glob("%s/replays/%s-*-%d-*.json" % (C.VERIF, PROP, seed)):     # replay files of an earlier run with this seed
        os.remove(old)
    stats = {"states": 0, "transitions": 0, "runs": []}
    violations, kf_obs, kf_sample, samples, infra = [], {}, {}, [], None
    cov, kfs = {}, []
    work = None
    try:
        kfs = active_kfs()
        C.build()
        work = C.scratch("c20")
        C.copy_spec(work)
        # the parts are independent: TLC + replay + classification of each runs as one task, a few tasks at a time
        simb = {"Caps": "{1,2,3,4,5,6,7}", "MaxAdds": 16, "MaxStart": 17, "MaxCount": 8}
        mk = lambda part: Classifier(part, kfs, {}, {})

        def t_ring_ex():
            cl = mk("ring")
            return ("ring_ex", cl) + ring_part(work, "ex", {"MaxResizes": 1000}, {"MaxResizes": 3 if big else 2}, stats, cl)

        def t_ring_sim():
            cl = mk("ring")
            return ("ring_sim", cl) + ring_part(work, "sim", dict(simb, MaxResizes=1000), dict(simb, MaxResizes=6), stats, cl, simulate="num=%d" % (8000 if big else 800), seed=seed)

        def t_store_ex():
            cl = mk("store")
            return ("store_ex", cl) + store_part(work, "ex", {"MaxOps": 7 if big else 6}, stats, cl)

        def t_store_sim():
            cl = mk("store")
            return ("store_sim", cl) + store_part(work, "sim", {"Sizes": "{1,2,3,4,5}", "MaxEvents": 14, "MaxOps": 16}, stats, cl, simulate="num=%d" % (20000 if big else 2000), seed=seed)

        def t_prop():
            # the design against the property: TLC reports a shortest counterexample when the design is broken
            rc, pout = run_tlc(work, "MC_EventStream", "MC_EventStream_prop.cfg", stats, workers=1, ok_rc=(0, 12))
            m = re.search(r"Invariant (\w+) is violated", pout)
            if rc == 12 and not m:
                raise C.Infra("TLC rc 12 without an invariant violation:\n" + pout[-1500:])
            return ("prop", None, m.group(1) if m else None, [])

        def t_stream(tag, base, subst, sim, system_every=0):
            def run():
                cl = mk("stream")
                f, c, smp = stream_part(work, tag, base, subst, stats, simulate=sim, seed=seed, system_every=system_every)
                for x in f:
                    cl.add(x)
                return ("stream_" + tag, cl, c, smp if tag == "one" else smp[:1])
            return run

        tasks = [t_ring_ex, t_ring_sim, t_store_ex, t_store_sim, t_prop,
                 t_stream("one", "MC_EventStream_1.cfg", {}, None, system_every=1 if big else 3),       # every interleaving, with close; also end to end
                 t_stream("two", "MC_EventStream_2.cfg", {"NEvents": 4 if big else 3}, None)]
        if big:
            tasks.append(t_stream("twoclose", "MC_EventStream_2.cfg", {"NEvents": 2, "AllowClose": "TRUE", "EagerForward": "FALSE"}, None))
        # sampled, without close: a sampled behaviour shows only one of the deliveries a close admits
        tasks.append(t_stream("sim", "MC_EventStream_2.cfg", {"NEvents": 6, "Subs": "{1, 2, 3}"}, "num=%d" % (20000 if big else 2500)))
        done = {r[0]: r for r in C.pmap(lambda t: t(), tasks, 4)}
        stats["states"] = sum(r["distinct"] for r in stats["runs"])
        stats["transitions"] = sum(r["generated"] for r in stats["runs"])

        def merge(part):
            m = Classifier(part, kfs, kf_obs, kf_sample)
            for name, r in sorted(done.items()):
                cl = r[1]
                if cl is not None and cl.part == part:
                    m.viol += cl.viol
                    m.nviol, m.nfail, m.unclassified = m.nviol + cl.nviol, m.nfail + cl.nfail, m.unclassified + cl.unclassified
                    m.bad_keys |= cl.bad_keys
                    for k, v in cl.kf_obs.items():
                        kf_obs[k] = kf_obs.get(k, 0) + v
                    for k, v in cl.kf_sample.items():
                        kf_sample.setdefault(k, v)
            return m
        rcl, scl, tcl = merge("ring"), merge("store"), merge("stream")
        rs, rs2, ss, ss2 = done["ring_ex"][2], done["ring_sim"][2], done["store_ex"][2], done["store_sim"][2]
        samples = [x for name, r in sorted(done.items()) for x in r[3]]
        design_cex = done["prop"][2]
        scnt = {name[7:]: r[2] for name, r in done.items() if name.startswith("stream_")}
        if min(rs["queries_nonempty"], rs["behaviours_wrapped"], rs2["queries_nonempty"], rs2["behaviours_wrapped"]) == 0:
            raise C.Infra("vacuous ring run: %s %s" % (rs, rs2))
        if min(ss["collects_nonempty"], ss["stores_dropped"], ss["behaviours_resized"], ss2["collects_nonempty"]) == 0:
            raise C.Infra("vacuous store run: %s %s" % (ss, ss2))
        tot = lambda k: sum(c[k] + c.get("system", {}).get(k, 0) for c in scnt.values())
        if (design_cex is not None) != (scnt["one"]["design_cex"] > 0):
            raise C.Infra("TLC's invariant check (%s) and the per-schedule evaluation (%d design counterexamples) disagree" % (design_cex, scnt["one"]["design_cex"]))
        if tot("aborted"):
            print("stream replay stopped early after %d timeouts" % tot("timeouts"))
        sysc = scnt["one"].get("system", {})
        if min(tot("overlap"), tot("deliveries"), tot("closed"), tot("gate_registered_hits"), tot("gate_publish_hits"),
               sysc.get("gate_publish_hits", 0), sysc.get("overlap", 0)) == 0 and not tcl.nviol:
            raise C.Infra("vacuous stream run: %s" % scnt)
        if tot("model_drift"):
            print("NOTE: %d (schedule, subscriber) pairs satisfy the property but differ from the design model of spec/EventStream.tla "
                  "(the model describes the pinned tree; update it when the streaming code is repaired)" % tot("model_drift"))

        # ---- verdict
        paths = write_replays("ring", rcl.viol, seed, 0, lambda f: (len(f["ops"]), f.get("start", 0), f.get("count", 0)))
        paths += write_replays("store", scl.viol, seed, 0, lambda f: (len(f["ops"]), f["step"]))
        paths += write_replays("stream", tcl.viol, seed, 0, lambda f: (len(f["sched"]), f["sub"]))
        nviol = rcl.nviol + scl.nviol + tcl.nviol
        if nviol > len(paths):
            print("%d violating cases in total (ring %d, store %d, stream %d; %d of them counted without classification after the first %d of a part); "
                  "replay files written for %d small ones" % (nviol, rcl.nviol, scl.nviol, tcl.nviol, rcl.unclassified + scl.unclassified + tcl.unclassified, KEEP_VIOLATIONS, len(paths)))
        violations = paths
        os.makedirs(C.VERIF + "/replays", exist_ok=True)
        for kid, f in kf_sample.items():      # one concrete instance per known finding, replayable with --replay (exits 1 while the defect is present)
            f = dict(f)
            part = f.pop("part")
            json.dump({"property": PROP, "part": part, "case": f, "known_finding": kid}, open("%s/replays/%s-known-%s.json" % (C.VERIF, PROP, kid), "w"), indent=1, sort_keys=True)
        # behaviours / schedules on which the real code agreed with the specification (ring, store) resp. with the design model (stream)
        validated = (rs["behaviours"] + rs2["behaviours"] - len(rcl.bad_keys)) + (ss["behaviours"] + ss2["behaviours"] - len(scl.bad_keys)) + tot("conform")
        evaluations = rs["queries"] + rs2["queries"] + ss["steps"] + ss2["steps"] + tot("replayed")
        nontrivial = rs["queries_nonempty"] + rs2["queries_nonempty"] + ss["collects_nonempty"] + ss2["collects_nonempty"] + tot("overlap")
        cov = {"states": stats["states"], "transitions": stats["transitions"], "traces_validated_against_impl": max(validated, 0), "samples": samples,
               "evaluations": evaluations, "distinct_nontrivial": nontrivial,
               "rule": "ring: one evaluation = one query (start,count) or recent(count) on a real ring buffer rebuilt from a distinct TLC behaviour (op sequence), compared with "
                       "the specification's answer; non-trivial = the specification's answer holds at least one event. store: one evaluation = one step, non-trivial = a "
                       "non-empty collection. stream: one evaluation = one distinct schedule replayed with the gate; non-trivial = (schedule, subscriber) with an event published "
                       "between the registration and the history read. All (behaviour, query) pairs are distinct by construction. traces_validated_against_impl = ring/store "
                       "behaviours on which every answer of the real code equals the specification's + stream schedules whose real delivery equals the design model's.",
               "exhaustive": True,
               "exhaustive_scope": "ring: every Add/Resize sequence with capacities 1..4, <= 9 events, <= %d resizes, queries 0..10 x (0..10, unlimited); store: sizes 1..3, <= 6 events, "
                                   "behaviours of length %d; stream: 1 subscriber/4 events/close and 2 subscribers/%d events%s, counts 0,1,2,unlimited, every interleaving; plus seeded "
                                   "samples with larger bounds" % (3 if big else 2, 7 if big else 6, 4 if big else 3, " and 2 subscribers/2 events/close" if big else ""),
               "tlc_runs": stats["runs"], "ring": {"exhaustive": rs, "sampled": rs2}, "store": {"exhaustive": ss, "sampled": ss2}, "stream": scnt,
               "design_counterexample_invariant": design_cex, "known_findings_observed": kf_obs,
               "failing_cases": {"ring": rcl.nfail, "store": scl.nfail, "stream": tcl.nfail},
               "violating_cases": {"ring": rcl.nviol, "store": scl.nviol, "stream": tcl.nviol}}
    except C.Infra as e:
        infra = str(e)
    finally:
        if work and not os.environ.get("VERIF_KEEP"):
            shutil.rmtree(work, ignore_errors=True)
    if not cov:
        cov = {"states": max(stats["states"], 0), "transitions": stats["transitions"], "traces_validated_against_impl": 0, "samples": [], "evaluations": 0,
               "distinct_nontrivial": 0, "rule": "run aborted: " + (infra or ""), "exhaustive": False}
    C.write_evidence(PROP, tier, seed, "model_checking", cov, time.time() - t0, len(violations),
                     ["TLC evaluates the specifications correctly", "the harness reports what the real objects returned (ids by pointer identity of the records it added)",
                      "the gate stream.registered sits between createEventStreamInternal and GetRecentEvents (pkg/events/event_streaming.go, build tag verif)",
                      "forward steps of the stream commute with all other steps (FIFO local channel), so a schedule's outcome does not depend on their timing",
                      "the ring never wraps in the stream model (RingCap > events); wrapped histories are covered by the ring part",
                      "removal of a slow consumer (1000 buffered events) and nil records emitted between RemoveEventStream and the channel close are not modelled"])
    kf_lines = ["KNOWN-FINDING: property=%s %s [%s] observed_in_this_run=%d" % (PROP, k["what"], k["id"], kf_obs.get(k["id"], 0)) for k in kfs]
    C.finish(PROP, violations, kf_lines, infra=infra)
