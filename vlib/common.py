"""Shared plumbing for the /verif checks: build, scratch dirs, TLC invocation, evidence, verdicts."""
import json, os, re, shutil, subprocess, sys, tempfile, time, concurrent.futures

VERIF = os.environ.get("VERIF_ROOT", "/verif")   # a private clone may be used during development
REPO = os.environ.get("VERIF_REPO", "/repo")
JAR = "/opt/veriftools/tla/tla2tools.jar:/opt/veriftools/tla/CommunityModules-deps.jar"
ENV = dict(os.environ, GOFLAGS="-mod=mod", GOPROXY="off")
ENV.pop("GOSUMDB", None)   # GOSUMDB=off breaks the offline toolchain switch (measured)
NCPU = os.cpu_count() or 4


class Infra(Exception):
    """Anything that is not a verdict: build failure, tool crash, timeout, dead driver (exit 2)."""


class CoreCrash(Exception):
    """The driver process died with a Go panic / fatal error raised inside yunikorn-core (not in the harness)."""
    def __init__(self, msg, output, trace):
        super().__init__(msg)
        self.output, self.trace = output, trace


def sh(cmd, timeout=None, cwd=None, env=None, check=True):
    p = subprocess.run(cmd, shell=isinstance(cmd, str), cwd=cwd, env=env or ENV, stdout=subprocess.PIPE, stderr=subprocess.STDOUT, timeout=timeout, text=True)
    if check and p.returncode != 0:
        raise Infra("command failed (%s): %s\n%s" % (p.returncode, cmd, p.stdout[-3000:]))
    return p


def build(race=False):
    t = time.time()
    sh([VERIF + "/bin/build"] + (["race"] if race else []), timeout=1500)
    return time.time() - t


def scratch(prefix):
    return tempfile.mkdtemp(prefix="verif-" + prefix + "-", dir=os.environ.get("VERIF_TMP", "/tmp"))


def seed():
    try:
        return int(os.environ.get("VERIF_SEED", "1"))
    except ValueError:
        return 1


def tier(argv_tier=None):
    t = argv_tier or os.environ.get("VERIF_TIER", "quick")
    return t if t in ("quick", "thorough") else "quick"


def tlc(workdir, module, cfg, workers=1, timeout=1800, extra=(), heap="3g", simulate=None, deque=False):
    """Run TLC in workdir (spec files must already be there). Returns stdout text. Raises Infra on tool failure."""
    meta = os.path.join(workdir, "meta-" + os.path.basename(cfg))
    jopts = ["-Xmx" + heap, "-Xss64m", "-XX:+UseParallelGC", "-Djava.io.tmpdir=" + workdir]   # SANY litters java.io.tmpdir
    if deque:
        jopts.append("-Dtlc2.tool.queue.IStateQueue=StateDeque")
    cmd = ["java"] + jopts + ["-cp", JAR, "tlc2.TLC", "-workers", str(workers), "-metadir", meta, "-config", cfg] + list(extra)
    if simulate:
        cmd += ["-simulate", simulate]
    cmd += [module]
    try:
        p = subprocess.run(cmd, cwd=workdir, stdout=subprocess.PIPE, stderr=subprocess.STDOUT, timeout=timeout, text=True)
    except subprocess.TimeoutExpired:
        raise Infra("TLC timeout after %ss: %s %s" % (timeout, module, cfg))
    out = p.stdout
    shutil.rmtree(meta, ignore_errors=True)
    return p.returncode, out


def copy_spec(workdir):
    for f in os.listdir(VERIF + "/spec"):
        if f.endswith(".tla") or f.endswith(".cfg"):
            shutil.copy(os.path.join(VERIF, "spec", f), workdir)


def tlc_stats(out):
    """(generated, distinct) from a TLC run."""
    m = re.search(r"(\d+) states generated, (\d+) distinct states found", out)
    if m:
        return int(m.group(1)), int(m.group(2))
    return 0, 0


def known_findings():
    return json.load(open(VERIF + "/KNOWN_FINDINGS.json"))["findings"]


def write_evidence(prop, tier_, seed_, level, coverage, wall, violations, assumptions):
    os.makedirs(VERIF + "/evidence", exist_ok=True)
    ev = {"property_id": prop, "tier": tier_, "seed": seed_, "level": level, "coverage": coverage, "assumptions": assumptions,
          "wall_s": round(wall, 2), "violations": violations}
    tmp = VERIF + "/evidence/." + prop + ".json.tmp"
    json.dump(ev, open(tmp, "w"), indent=1, sort_keys=True)
    os.replace(tmp, VERIF + "/evidence/" + prop + ".json")


def pmap(fn, items, workers):
    with concurrent.futures.ThreadPoolExecutor(max_workers=workers) as ex:
        return list(ex.map(fn, items))


def finish(prop, violations, kf_lines, infra=None):
    """Print verdict lines and exit with the contract's code."""
    for k in kf_lines:
        print(k)
    for v in violations:
        print("VIOLATION property=%s replay=%s" % (prop, v))
    sys.stdout.flush()
    if infra:
        print("INFRA-ERROR property=%s %s" % (prop, infra))
        sys.exit(2)
    sys.exit(1 if violations else 0)
