"""Pipelines A and B: exhaustive TLC runs of the generative specification (spec/YuniKorn.tla, MC_YK.tla) and
model-based test generation (one shortest environment history per reachable state; sampled long behaviours)."""
import json, os, re
from . import common as C

TEST_RE = re.compile(r'^<<"TEST", "(.*)">>$', re.M)


def _tests(out):
    res = []
    for m in TEST_RE.finditer(out):
        try:
            res.append(json.loads(m.group(1).replace('\\"', '"')))
        except ValueError:
            pass
    return res


def model_check(work, cfg, workers=8, timeout=1700, heap="8g"):
    rc, out = C.tlc(work, "MC_YK.tla", cfg, workers=workers, timeout=timeout, heap=heap)
    gen, dist = C.tlc_stats(out)
    ok = "Model checking completed. No error has been found." in out
    viol = re.findall(r"Invariant (\w+) is violated", out)
    if not ok and not viol:
        raise C.Infra("TLC failed on %s (rc=%s): %s" % (cfg, rc, out[-1500:]))
    return dict(cfg=cfg, generated=gen, distinct=dist, ok=ok, violated=viol, out=out)


def write_ops(tests, path, conf="mc"):
    with open(path, "w") as f:
        for t in tests:
            f.write(json.dumps({"op": "reset", "conf": conf, "profile": "tlc-generated"}) + "\n")
            for op in t:
                f.write(json.dumps(op) + "\n")
    return len(tests)


def state_cover_tests(work, depth, warm=False):
    """environment histories of all behaviours of at most `depth` operations, as TLC generates them (measured: TLC evaluates
    the printing invariant for nearly every generated successor, so this is one history per explored TRANSITION, not per
    distinct state); de-duplicated, and histories that are a prefix of another one are dropped.
    warm: 1 = start from YuniKorn!InitWarm (a placeholder already allocated; the history starts with the 5 operations that
    lead there), 2 = InitWarm2 (in addition a smaller real task of the group is waiting), 3 = InitFull (both nodes filled by a plain application: the reservation regime), 4 = InitPre (full nodes held by a queue
    without guarantee, an application of a guaranteed queue submitted: queue preemption; replay with conf="mcpre"), 5 = InitPre2 (one step further: a victim is marked and its release
    announced, the asking ask holds a reservation: a preemption in flight), 6 / 7 / 8 = InitWarm2 / InitPre2 / InitFull with the
    Restart action enabled (the core crashes and the shim replays what it knows), and explore `depth` further operations."""
    cfg = "MC_YK_emit%s%d.cfg" % ("w%d" % warm if warm else "", depth)
    base = open(os.path.join(work, {0: "MC_YK_intended.cfg", 1: "MC_YK_warm.cfg", 2: "MC_YK_warm2.cfg", 3: "MC_YK_full.cfg", 4: "MC_YK_pre.cfg", 5: "MC_YK_pre2.cfg",
                              6: "MC_YK_warm2_rs.cfg", 7: "MC_YK_pre2_rs.cfg", 8: "MC_YK_full_rs.cfg"}[int(warm)])).read()
    total = depth + WARM_PREFIX[int(warm)]
    base = re.sub(r"MaxHist = \d+", "MaxHist = %d" % total, base).replace("INVARIANT TypeOK", "INVARIANT TypeOK\nINVARIANT EmitTest")
    open(os.path.join(work, cfg), "w").write(base)
    rc, out = C.tlc(work, "MC_YK.tla", cfg, workers=1, timeout=1700, heap="6g")
    if "No error has been found" not in out:
        raise C.Infra("test emission failed: " + out[-1200:])
    gen, dist = C.tlc_stats(out)
    uniq = sorted(set(json.dumps(t, sort_keys=True) for t in _tests(out)))
    tests = [json.loads(u) for u in uniq]
    full = [t for t in tests if len(t) == total]
    prefixes = set()
    for t in full:
        for i in range(1, len(t)):
            prefixes.add(json.dumps(t[:i], sort_keys=True))
    keep = full + [t for t in tests if len(t) < total and json.dumps(t, sort_keys=True) not in prefixes]
    return keep, gen, dist


WARM_PREFIX = {0: 0, 1: 5, 2: 6, 3: 7, 4: 10, 5: 12, 6: 6, 7: 12, 8: 7}   # operations in the history the (warm) initial state starts with


def simulated_tests(work, num, seed, depth=28):
    cfg = "MC_YK_sim.cfg"
    rc, out = C.tlc(work, "MC_YK.tla", cfg, workers=1, timeout=1700, heap="4g", extra=("-depth", str(depth + 1), "-seed", str(seed)), simulate="num=%d" % num)
    if "is violated" in out or "Error:" in out and "TEST" not in out:
        raise C.Infra("simulation failed: " + out[-1200:])
    uniq = sorted(set(json.dumps(t, sort_keys=True) for t in _tests(out)))
    return [json.loads(u) for u in uniq]
