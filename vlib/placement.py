"""C17 - placement puts applications only where rules and ACLs allow.

Pipeline (technique: explicit TLA+ specification + TLC, bound to the real code by lock-step replay):
 1. spec/Placement.tla is the documented meaning of the placement rule chain as one deterministic function
    Place(rules, tree, app) over abstract values (queue paths = token sequences, tree with leaf / draining / submit and admin
    ACL / child template per queue, rules provided / user / tag / fixed with create flag, filter and parent rules, the
    implicit recovery rule and the default queue).
 2. TLC enumerates spec/MC_Placement.tla: configurations (rule chain x ACL layout) are its initial states, the applications
    of a configuration their successors.  Family "exh": every chain of at most one parent-less rule of the vocabulary x the
    chosen layouts x applications; family "sampled": seeded random chains of 1..3 rules with parent rules of depth <= 2,
    a random layout, random applications (TLC's own generator, seeded with -seed).  TLC checks on every case that the
    specification satisfies the statement of C17 (invariant Sane) and prints the case with the outcome Place demands.
 3. `ykh placement` (harness/placement) builds a REAL ClusterContext per configuration (YAML configuration, the draining leaf
    by a configuration reload), submits a fresh application per case through the SI path and compares: accepted / rejected
    (+ reason), the queue the application sits in, that it is an active leaf, exactly which queues appeared, that a created
    queue is unmanaged and took its limits from the child template in force at its parent.  Panics are failures.
 4. Mismatches are matched narrowly against KNOWN_FINDINGS.json; everything else is a VIOLATION with a replay file.
"""
import glob, json, os, shutil, subprocess, sys, time
from . import common as C

N_LAYOUTS = 12          # Len(Layouts) in spec/MC_Placement.tla
RECOVERY = "root.@recovery@"
KF_RECOVERY, KF_TEMPLATE = "recovery_nonforced_provided_create", "reload_drops_inherited_template"
MAX_CASES_PER_REPLAY = 25


# ----------------------------------------------------------------------------------------------------------------------
# known findings: narrow recognisers (input class AND the exact wrong outcome the entry predicts)

def _dotted(p):
    return ".".join(p)


def explain(m):
    """matcher name of the known finding that explains mismatch m exactly, or None"""
    c, got, want = m.get("case") or {}, m.get("got") or {}, m.get("want") or {}
    app, rules, tree = c.get("app") or {}, c.get("rules") or [], c.get("tree") or []
    kind = m.get("kind")
    if kind in ("wrong-queue", "accepted-should-reject"):
        # a NON-forced application that asked for root.@recovery@ sits in the recovery queue, which did not exist, and a
        # top-level `provided` rule with create: true admits the user
        if (not app.get("forced") and _dotted(app.get("queue") or []) == RECOVERY and got.get("queue") == RECOVERY
                and got.get("created") == [RECOVERY] and not any(_dotted(q["path"]) == RECOVERY for q in tree)
                and any(r["name"] == "provided" and r["create"] and _filter_admits(r["filter"], app) for r in rules)):
            return KF_RECOVERY
        return None
    if kind == "template":
        # the queue was created below a configured parent that has no child template of its own (it inherits one), the core
        # was reconfigured once (the tree has a draining queue), and the created queue got no template at all
        if want.get("tmpl", 0) <= 0 or got.get("maxApps") != 0 or got.get("max") != "none" or got.get("guaranteed") != "none":
            return None
        if not any(q["draining"] for q in tree):
            return None
        byp = {_dotted(q["path"]): q for q in tree}
        p = list(want.get("queue") or [])[:-1]
        while p and _dotted(p) not in byp:
            p = p[:-1]
        anchor = byp.get(_dotted(p))
        if anchor is not None and len(p) > 1 and anchor["tmpl"] == 0 and not anchor["leaf"]:
            return KF_TEMPLATE
    return None


def _filter_admits(f, app):
    if f["type"] == "none":
        return True
    if not f["users"] and not f["groups"]:
        return f["type"] == "allow"
    hit = app["user"] in f["users"] or bool(set(app["groups"]) & set(f["groups"]))
    return hit if f["type"] == "allow" else not hit


def classify(mismatches, kfs):
    """-> (violations, observed {kf id: n}, examples {kf id: mismatch})"""
    by_matcher = {k["matcher"]: k for k in kfs if k.get("status") == "known" and k.get("matcher")}
    viol, obs, examples = [], {k["id"]: 0 for k in by_matcher.values()}, {}
    for m in mismatches:
        u = explain(m)
        if u and u in by_matcher:
            kid = by_matcher[u]["id"]
            obs[kid] += 1
            examples.setdefault(kid, m)
        else:
            viol.append(m)
    return viol, obs, examples


def kf_lines(prop, kfs, obs):
    return ["KNOWN-FINDING: property=%s %s [%s] observed_in_this_run=%d" % (prop, k["what"], k["id"], obs.get(k["id"], 0))
            for k in kfs if k.get("status") == "known" and prop in k.get("properties", [])]


# ----------------------------------------------------------------------------------------------------------------------
# tools

def build():
    """C.build() plus a freshness test: bin/build leaves the previous binary in place when the compiler fails"""
    t = time.time()
    C.build()
    exe = C.VERIF + "/.build/ykh"
    if not os.path.exists(exe) or os.path.getmtime(exe) < t - 2:
        p = C.sh("cd %s/harness && go build -tags verif -o /dev/null ./cmd/ykh" % C.VERIF, check=False, timeout=1500)
        raise C.Infra("the harness does not build against the current tree (stale %s): %s" % (exe, p.stdout[-1500:]))


def sizes(tier, seed):
    import random
    rnd = random.Random(seed)
    if tier == "quick":
        # three seeded layouts for the exhaustive family, a seeded subset of the applications; ~5 * 10^4 cases
        return {"NSampled": 4000, "AppsPerSampled": 10, "ExhLayouts": sorted(rnd.sample(range(1, N_LAYOUTS + 1), 3)), "AppsPerExh": 60}
    return {"NSampled": 30000, "AppsPerSampled": 16, "ExhLayouts": list(range(1, N_LAYOUTS + 1)), "AppsPerExh": 0}


def run_tlc(d, sz, seed, workers, timeout):
    cfg = os.path.join(d, "run_Placement.cfg")
    open(cfg, "w").write(
        "CONSTANTS\n NSampled = %d\n AppsPerSampled = %d\n ExhLayouts = {%s}\n AppsPerExh = %d\n"
        "INIT Init\nNEXT Next\nINVARIANT Sane\nINVARIANT Emit\nCHECK_DEADLOCK FALSE\n"
        % (sz["NSampled"], sz["AppsPerSampled"], ", ".join(map(str, sz["ExhLayouts"])), sz["AppsPerExh"]))
    out, meta = os.path.join(d, "cases.tlc"), os.path.join(d, "meta")
    cmd = ["java", "-Xmx6g", "-Xss64m", "-XX:+UseParallelGC", "-cp", C.JAR, "tlc2.TLC", "-workers", str(workers), "-seed", str(seed),
           "-metadir", meta, "-config", "run_Placement.cfg", "MC_Placement"]
    try:
        with open(out, "w") as f:
            rc = subprocess.run(cmd, cwd=d, stdout=f, stderr=subprocess.STDOUT, timeout=timeout).returncode
    except subprocess.TimeoutExpired:
        raise C.Infra("TLC timeout after %ss on MC_Placement" % timeout)
    finally:
        shutil.rmtree(meta, ignore_errors=True)
    ncases, other = 0, []
    with open(out) as f:
        for line in f:
            if line.startswith('<<"CASE", '):
                ncases += 1
            elif not line.startswith('<<"LAYOUT", '):
                other.append(line)
    log = "".join(other)
    if rc != 0 or "Model checking completed. No error has been found." not in log:
        what = "the specification contradicts the statement of C17 on a generated case (invariant Sane)" if "Invariant Sane is violated" in log else "TLC failed"
        raise C.Infra("%s (rc %s): %s" % (what, rc, log[-2500:]))
    return out, ncases, C.tlc_stats(log)


def first_cases(cases_file, n):
    out = []
    with open(cases_file) as f:
        for line in f:
            if line.startswith('<<"CASE", '):
                out.append(json.loads(json.loads(line.strip()[len('<<"CASE", '):-2])))
                if len(out) >= n:
                    break
    return out


def run_harness(d, cases_file, shards, timeout):
    """replay in `shards` processes (the core has process-wide singletons); -> (summary, mismatches)"""
    def one(i):
        mm = os.path.join(d, "mismatch.%d.ndjson" % i)
        cmd = [C.VERIF + "/.build/ykh", "placement", "-cases", cases_file, "-out", mm, "-shard", str(i), "-shards", str(shards)]
        try:
            p = subprocess.run(cmd, cwd=d, stdout=subprocess.PIPE, stderr=subprocess.PIPE, timeout=timeout, text=True, env=C.ENV)
        except subprocess.TimeoutExpired:
            raise C.Infra("ykh placement: timeout after %ss (shard %d of %d)" % (timeout, i, shards))
        if p.returncode != 0:
            raise C.Infra("ykh placement failed (rc %s, shard %d): %s" % (p.returncode, i, (p.stderr or p.stdout)[-2000:]))
        try:
            s = json.loads(p.stderr.strip().splitlines()[-1])
        except (ValueError, IndexError):
            raise C.Infra("ykh placement printed no summary: %s" % p.stderr[-500:])
        return s, [json.loads(l) for l in open(mm) if l.strip()]
    res = C.pmap(one, range(shards), shards)
    tot, mism = {}, []
    for s, mm in res:
        mism += mm
        for k, v in s.items():
            if isinstance(v, bool):
                continue
            if isinstance(v, int):
                tot[k] = tot.get(k, 0) + v
            elif isinstance(v, dict):
                t = tot.setdefault(k, {})
                for a, b in v.items():
                    t[a] = t.get(a, 0) + b
            elif isinstance(v, list):
                tot.setdefault(k, []).extend(v)
    return tot, mism


def write_replays(prop, seed, viol):
    """one replay file per kind of violation; -> paths"""
    groups = {}
    for m in viol:
        groups.setdefault(m.get("kind"), []).append(m)
    os.makedirs(C.VERIF + "/replays", exist_ok=True)
    paths = []
    for n, (kind, ms) in enumerate(sorted(groups.items())):
        path = "%s/replays/%s-%s-%d-%d.json" % (C.VERIF, prop, kind, seed, n)
        first = ms[0]
        json.dump({"property": prop, "kind": kind, "count_in_run": len(ms), "detail": first.get("detail"),
                   "expected": first.get("want"), "actual": first.get("got"), "configuration_yaml": first.get("config"),
                   "rules": first["case"].get("rules"), "app": first["case"].get("app"),
                   "how": "bin/check %s --replay <this file> re-runs every entry of 'cases' (rule chain, queue tree with ACLs, application and the outcome "
                          "spec/Placement.tla demands, exactly as enumerated by TLC) against the current tree" % prop,
                   "cases": [m["case"] for m in ms[:MAX_CASES_PER_REPLAY]],
                   "first_mismatches": [{k: v for k, v in m.items() if k not in ("case", "config")} for m in ms[:5]]},
                  open(path, "w"), indent=1)
        paths.append(path)
    return paths


# ----------------------------------------------------------------------------------------------------------------------

def replay(prop, path, kfs):
    build()
    rp = json.load(open(path))
    cases = rp.get("cases") or []
    if not cases:
        raise C.Infra("replay file has no cases: " + path)
    d = C.scratch("c17r")
    try:
        cf = os.path.join(d, "cases.ndjson")
        with open(cf, "w") as f:
            for c in cases:
                f.write(json.dumps(c, separators=(",", ":")) + "\n")
        summary, mism = run_harness(d, cf, 1, 600)
    finally:
        shutil.rmtree(d, ignore_errors=True)
    if summary.get("cases", 0) != len(cases):
        raise C.Infra("replayed %s of %d cases (configuration rejected by the core: %s)" % (summary.get("cases"), len(cases), summary.get("rejectedConfigSamples")))
    viol, _, _ = classify(mism, kfs)
    for m in viol[:10]:
        print("still failing: " + json.dumps({k: v for k, v in m.items() if k not in ("case", "config")}))
    print("replayed %d case(s): %d mismatch(es), %d not covered by a known finding" % (len(cases), len(mism), len(viol)))
    if viol:
        print("VIOLATION property=%s replay=%s" % (prop, path))
    sys.exit(1 if viol else 0)


def main(prop, tier, seed, argv):
    t0 = time.time()
    kfs = [k for k in C.known_findings() if prop in k.get("properties", [])]
    if "--replay" in argv:
        return replay(prop, argv[argv.index("--replay") + 1], kfs)
    for old in glob.glob("%s/replays/%s-*-%d-*.json" % (C.VERIF, prop, seed)):     # replay files of an earlier run with this seed
        os.remove(old)
    build()
    d = C.scratch("c17")
    try:
        C.copy_spec(d)
        big = tier == "thorough"
        sz = sizes(tier, seed)
        workers = max(2, min(C.NCPU, 16))
        phase, tp = {"build_and_setup": round(time.time() - t0, 1)}, time.time()

        def lap(name):
            nonlocal tp
            phase[name], tp = round(time.time() - tp, 1), time.time()

        cases_file, ncases, (gen, dist) = run_tlc(d, sz, seed, workers, 1500 if big else 300)
        lap("tlc_enumerate")
        s, mism = run_harness(d, cases_file, workers, 3000 if big else 400)
        lap("replay_against_real_core")

        # vacuity / consistency guards
        replayed, skipped = s.get("cases", 0), s.get("casesSkipped", 0)
        if ncases == 0 or replayed + skipped != ncases:
            raise C.Infra("case lines lost: TLC printed %d cases, the harness replayed %d and skipped %d" % (ncases, replayed, skipped))
        if skipped * 10 > ncases:
            raise C.Infra("the core refused the configuration of %d of %d cases (configuration validity is the subject of C15), e.g. %s"
                          % (skipped, ncases, (s.get("rejectedConfigSamples") or ["?"])[0]))
        need = ("accepted", "rejected", "created", "laterRule", "recovery", "templateChecked", "worlds")
        missing = [k for k in need if s.get(k, 0) == 0]
        if missing:
            raise C.Infra("vacuous run: no case of kind %s (counters %s)" % (missing, {k: s.get(k, 0) for k in need}))
        for why in ("no placement rule matched", "invalid queue name", "parent rule returned a leaf queue", "parent of the queue to create is a leaf"):
            if s.get("byWhy", {}).get(why, 0) == 0:
                raise C.Infra("vacuous run: no rejection of kind '%s'" % why)

        # classification
        viol, obs, examples = classify(mism, kfs)
        paths = write_replays(prop, seed, viol) if viol else []
        bykind = {}
        for m in viol:
            bykind[m["kind"]] = bykind.get(m["kind"], 0) + 1
        if viol:
            print("mismatches not covered by a known finding: %s" % json.dumps(bykind, sort_keys=True))
            for m in viol[:3]:
                print("  e.g. %s: %s | rules %s | app %s" % (m["kind"], m["detail"], json.dumps(m["case"]["rules"]), json.dumps(m["case"]["app"])))
        cov = {
            "states": dist, "transitions": gen, "traces_validated_against_impl": replayed, "evaluations": replayed,
            "distinct_nontrivial": s.get("nonTrivial", 0),
            "rule": "one evaluation = one case enumerated by TLC (a distinct state of MC_Placement: rule chain, ACL layout, application) and replayed against a real "
                    "ClusterContext; a case is non-trivial when the chain has at least one configured rule and the application names a queue or is accepted "
                    "(counted by the harness; cases are distinct TLC states, the sampled family may repeat an input under another index n)",
            "samples": [json.loads(x) for x in (s.get("samples") or [])[:6]] or first_cases(cases_file, 3),
            "exhaustive": False,
            "explanation": "family exh is exhaustive for chains of <= 1 parent-less rule of the vocabulary (62 admissible chains) x layouts %s x %s applications; "
                           "family sampled draws %d chains (1..3 rules, parent depth <= 2) with %d applications each from TLC's generator seeded with %d"
                           % (sz["ExhLayouts"], "all 612" if sz["AppsPerExh"] == 0 else "%d random" % sz["AppsPerExh"], sz["NSampled"], sz["AppsPerSampled"], seed),
            "model_sizes": sz, "phase_wall_s": phase,
            "cases_by_family": s.get("byFam", {}), "configurations": s.get("configs", 0), "cores_built": s.get("worlds", 0),
            "configurations_refused_by_core": s.get("configsRejected", 0), "cases_skipped": skipped,
            "guard_hit_counters": {"accepted": s.get("accepted", 0), "rejected": s.get("rejected", 0), "queue_created": s.get("created", 0),
                                   "later_rule_decides": s.get("laterRule", 0), "recovery_queue": s.get("recovery", 0),
                                   "default_queue": s.get("defaultQueue", 0), "template_checked": s.get("templateChecked", 0),
                                   "rejections_by_reason": s.get("byWhy", {})},
            "panics": s.get("panics", 0), "mismatches": len(mism), "known_findings_observed": obs,
            "known_finding_examples": {k: {a: b for a, b in v.items() if a not in ("case", "config")} for k, v in examples.items()},
            "violations_by_kind": bykind,
            "checker_cmd": "tlc -seed <seed> MC_Placement (INVARIANT Sane, Emit) | ykh placement -shards %d" % workers,
        }
        C.write_evidence(prop, tier, seed, "model_checking", cov, time.time() - t0, len(viol), [
            "TLC evaluates Placement.tla correctly; the specification is the documented meaning (doc comments + unit tests of pkg/scheduler/placement, acl.go, "
            "Queue.CheckSubmitAccess, PartitionContext.createQueue), its agreement with the statement of C17 is checked by TLC on every case (invariant Sane)",
            "the harness renders names / ACLs / rules / templates faithfully (queue shape is re-read from the core before the first case of a configuration)",
            "sub-cases without documented meaning are not generated: fixed values starting with 'root' but not 'root.' (owned by C15), unqualified fixed values "
            "with dots, the part @recovery@ below a non-root queue, creation below a draining parent, the recovery queue's own template; regular expression "
            "filters are specified by the set of users they match",
            "configurations the validator rejects are not generated (Admissible in MC_Placement mirrors checkPlacementRules; validity itself is C15)",
            "sequential submissions, one application at a time; every case sees the configured tree (the core is rebuilt after a case that created a queue)",
        ])
        C.finish(prop, paths, kf_lines(prop, kfs, obs))
    finally:
        shutil.rmtree(d, ignore_errors=True)
