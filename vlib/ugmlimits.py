"""C05 (module ugmlimits) - the user / group manager enforces the limits of the latest configuration.

Pipeline (technique: explicit TLA+ specification + TLC, bound to the Go code by lock-step replay):
 1. spec/UGM.tla specifies the manager (pkg/scheduler/ugm) as a deterministic state machine over its public API: UpdateConfig,
    IncreaseTrackedResource, DecreaseTrackedResource and the observations Headroom / CanRunApp.
 2. spec/MC_UGM.tla generates behaviours together with the observations the specification expects after every step:
      pairs : exhaustive (TLC breadth first): every ordered pair of configurations of a family x a fixed usage script;
      sim   : sampled (tlc -simulate, one worker per process, seeds derived from the run's seed): up to 3 configurations, each a few
              edits away from the previous one, interleaved with Increase / Decrease of 3 applications. Three profiles: "all";
              "nocase" (no limits on the mixed case queue root.Dev, whose defect ends most behaviours at their first configuration);
              "clean" (in addition none of the configuration changes that hit the recorded defects, so that the behaviours stay
              comparable to their end: any mismatch there is a violation).
    TLC also checks on every generated state that the specification is well typed, that every configuration passes the rules of
    the configuration validator, and C05 on the specification (an increase admitted by Headroom / CanRunApp stays within limits).
 3. `ykh ugmlimits` replays every behaviour on the real manager (twice: observations after every step / only after later
    configurations and at the end) and compares every observation. Every configuration is also given to the real validator.
 4. A mismatch is a known finding only if the configuration history has the shape of an entry of KNOWN_FINDINGS.json AND the wrong
    values are exactly the ones that entry predicts (for ALL observations of the step); everything else is a VIOLATION + replay file.
"""
import itertools, json, os, re, shutil, subprocess, sys, time
from . import common as C

INF = 1000000
MAX_REPLAY_FILES = 12
FAMILIES = ("user", "group", "root", "case")


# ----------------------------------------------------------------------------------------------------------------------
# Evaluator of spec/UGM.tla's observations. Used ONLY to recognise known findings: it recomputes what the manager would answer
# if some limits in force deviated from the configuration in the way an entry predicts. It is cross-checked against the
# specification's own expectations on every behaviour it is used on (explain() refuses to match otherwise).

class Model:
    """conf, applications and the group ledger (usage and counted applications per group and queue). Without deviations the ledger is
    what spec/UGM.tla defines (sum over the applications resolved to the group); `wipes` and `drop` reproduce recorded defects."""

    def __init__(self, hdr, drop=frozenset()):
        self.hdr = hdr
        self.drop = drop        # queues whose limits the manager does not see (mixed case defect)
        self.conf = {}          # (q, k, n) -> ([memory, pods], apps)
        self.apps = {}          # app -> dict(user, q, group, res)
        self.gl = {}            # (group, q) -> [[memory, pods], set(apps)]

    def path(self, q):
        out = [q]
        while q in self.hdr["parent"]:
            q = self.hdr["parent"][q]
            out.append(q)
        return out              # leaf first

    def seen(self):
        return {k: v for k, v in self.conf.items() if k[0] not in self.drop}

    def resolve(self, q, user):
        gs, conf = self.hdr["groups"][user], self.seen()
        if not gs:
            return ""
        for p in self.path(q):
            for g in gs:
                if (p, "g", g) in conf:
                    return g
            if (p, "g", "*") in conf:
                return "*"
        return ""

    def apply(self, act, wipes=()):
        """wipes: [(q, group)] - group limits removed by this configuration whose removal resets the group's ledger on the ancestors of q"""
        if act["op"] == "conf":
            self.conf = {(e["q"], e["k"], e["n"]): (list(e["r"]), e["a"]) for e in act["lim"]}
            for q, g in wipes:
                for p in self.path(q)[1:]:
                    e = self.gl.get((g, p))
                    if e and e[1] and e[0] not in (None, [0, 0]):
                        self.gl[(g, p)] = [None, set()]       # usage nil: decreases are ignored until the next increase
            return
        sign = 1 if act["op"] == "inc" else -1
        a = self.apps.get(act["app"])
        if a is None:
            a = self.apps[act["app"]] = dict(user=act["user"], q=act["q"], group=self.resolve(act["q"], act["user"]), res=[0, 0])
        a["res"] = [a["res"][i] + sign * act["r"][i] for i in (0, 1)]
        if a["group"] != "":
            for p in self.path(a["q"]):
                e = self.gl.setdefault((a["group"], p), [[0, 0], set()])
                if e[0] is None and sign == 1:
                    e[0] = [0, 0]
                if e[0] is not None:
                    e[0] = [e[0][i] + sign * act["r"][i] for i in (0, 1)]
                if sign == 1:
                    e[1].add(act["app"])
                elif act.get("rm"):
                    e[1].discard(act["app"])
        if sign == -1 and act.get("rm"):
            del self.apps[act["app"]]

    def observe(self, q, app, user, uover=None, gover=None):
        """(headroom [memory, pods], canRun); uover / gover: {(queue, user / group): limit in force instead of the configured one}"""
        conf = self.seen()
        group = self.apps[app]["group"] if app in self.apps else self.resolve(q, user)
        room, run = [INF, INF], True
        for p in self.path(q):
            l = uover[(p, user)] if uover and (p, user) in uover else conf.get((p, "u", user)) or conf.get((p, "u", "*"))
            if l is not None:
                counted = [n for n, a in self.apps.items() if a["user"] == user and p in self.path(a["q"])]
                room, run = self._limit(l, [sum(self.apps[a]["res"][i] for a in counted) for i in (0, 1)], counted, app, room, run)
            if group != "":
                l = gover[(p, group)] if gover and (p, group) in gover else conf.get((p, "g", group))
                if l is not None:
                    e = self.gl.get((group, p), [[0, 0], set()])
                    room, run = self._limit(l, e[0] or [0, 0], e[1], app, room, run)
        return room, run

    @staticmethod
    def _limit(l, use, counted, app, room, run):
        room = [min(room[i], l[0][i] - use[i]) if l[0][i] != INF else room[i] for i in (0, 1)]
        if l[1] != 0 and app not in counted and len(counted) + 1 > l[1]:
            run = False
        return room, run


def descendants(hdr, q):
    out = []
    for p in hdr["parent"]:
        x = p
        while x in hdr["parent"]:
            x = hdr["parent"][x]
            if x == q:
                out.append(p)
    return out


def mixed_case(hdr):
    return frozenset(q for q, name in hdr["names"].items() if q.split(".")[-1] != name)


def conf_dict(act):
    return {(e["q"], e["k"], e["n"]): (list(e["r"]), e["a"]) for e in act["lim"]}


# Deviations: what a recorded defect makes the manager enforce instead of the configuration. A candidate is a dict
#   matcher, what, uover {(q, user): limit | None}, gover {(q, group): None}, drop (queues), wipe (step, q, group)

def candidates(hdr, beh, step):
    """candidate deviations for the state after steps[0..step], from the configuration history"""
    conf_steps = [i for i in range(step + 1) if beh["steps"][i]["act"]["op"] == "conf"]
    confs = [{}] + [conf_dict(beh["steps"][i]["act"]) for i in conf_steps]      # the manager starts without limits
    cands, users, mc = [], hdr["users"], mixed_case(hdr)
    if any(k[0] in mc for c in confs for k in c):
        # limits configured on a queue whose configured name is not lower case are keyed by the configured spelling: never enforced
        cands.append(dict(matcher="ugm_mixed_case_queue", what="limits on %s are not in force" % sorted(mc), drop=mc))
    for t in range(1, len(confs)):
        old, new, last = confs[t - 1], confs[t], t == len(confs) - 1
        for q in hdr["names"]:
            # wildcard user limit dropped from q: it stays in force for trackers that used it when the queue has named user limits before
            # and after (no clean-up at all), and for trackers that UpdateConfig itself creates (they still read the old wildcard limits)
            w = old.get((q, "u", "*"))
            if w is not None and (q, "u", "*") not in new:
                for u in users:
                    if (q, "u", u) in new:
                        continue
                    if any((q, "u", u) in c or (q, "u", "*") in c for c in confs[t + 1:]):
                        continue      # overwritten by a later configuration that gives the user a limit on q again
                    cands.append(dict(matcher="ugm_stale_wildcard_user", what="user %s keeps the wildcard limit %s of %s" % (u, w, q), uover={(q, u): w}))
            for g in sorted({k[2] for k in old if k[1] == "g" and k[0] == q}):
                if (q, "g", g) not in new and q != "root":
                    # the removal resets the group's usage and counted applications on every ancestor of q
                    cands.append(dict(matcher="ugm_group_removal_wipes_ancestors", what="group %s: limit removed from %s at step %d, ledger of %s reset" % (g, q, conf_steps[t - 1], Model(hdr).path(q)[1:]),
                                      wipe=(conf_steps[t - 1], q, g)))
            if not last:
                continue          # every UpdateConfig applies all configured limits again: only the latest change can have lost one
            desc = descendants(hdr, q)
            for u in users:
                # named user limit removed from q while the user has named limits below q: the subtree is unlinked after the new limits
                # were applied; the trackers are created again later, with the wildcard limit if there is one
                if (q, "u", u) in old and (q, "u", u) not in new:
                    lost = [d for d in desc if (d, "u", u) in new]
                    # what a tracker that is created again gets: the new wildcard limit (created by a later call), the old one (created by
                    # UpdateConfig itself, which still reads the old wildcard limits), or nothing (created and cleared by UpdateConfig)
                    variants = [{(d, u): new.get((d, "u", "*")) for d in lost}, {(d, u): old.get((d, "u", "*")) or new.get((d, "u", "*")) for d in lost}, {(d, u): None for d in lost}]
                    for n, v in enumerate(variants):
                        if lost and v not in variants[:n]:
                            cands.append(dict(matcher="ugm_moved_limit_lost", what="user %s: limit removed from %s, limits on %s lost (in force there: %s)" % (u, q, sorted(lost), sorted(v.items())), uover=v))
            for g in sorted({k[2] for k in old if k[1] == "g" and k[0] == q}):
                if (q, "g", g) not in new:
                    lost = {(d, g): None for d in desc if (d, "g", g) in new}
                    if lost:
                        cands.append(dict(matcher="ugm_moved_limit_lost", what="group %s: limit removed from %s, limits on %s lost" % (g, q, sorted(d for d, _ in lost)), gover=lost))
    return cands


def run_model(hdr, beh, step, drop=frozenset(), wipes=(), check=False):
    """the model after steps[0..step]; check: compare with the specification's expectations on the way (None if they differ)"""
    model = Model(hdr, drop)
    for i, st in enumerate(beh["steps"][:step + 1]):
        model.apply(st["act"], [(q, g) for s, q, g in wipes if s == i])
        if check:
            for app, user, q, o in probes(hdr, model, st):
                r = model.observe(q, app, user)
                if [list(r[0]), r[1]] != [list(o[0]), o[1]]:
                    return None, "evaluator disagrees with the specification at step %d (%s %s %s): %s vs %s" % (i, app, user, q, r, o)
    return model, None


def probes(hdr, model, st):
    out = []
    for k, o in enumerate(st["exp"]["new"]):
        out.append(("", hdr["users"][k // len(hdr["leaves"])], hdr["leaves"][k % len(hdr["leaves"])], o))
    for k, o in enumerate(st["exp"]["app"]):
        if o:
            a = model.apps[hdr["apps"][k]]
            out.append((hdr["apps"][k], a["user"], a["q"], o))
    return out


def explain(hdr, beh, mode, ms):
    """ms: the mismatches of one replay (one mode) at its first failing step. -> (set of matcher names, descriptions) or (None, reason)."""
    if any(m["kind"] not in ("headroom", "canrun") or m.get("detail") for m in ms):
        return None, "not an observation mismatch"
    step = ms[0]["step"]
    got = {(m["kind"], m["app"], m["user"], m["q"]): m["got"] for m in ms}
    # the evaluator must reproduce the specification's expectations on this behaviour, else it is not fit to recognise anything
    model, err = run_model(hdr, beh, step, check=True)
    if model is None:
        return None, err
    cands = candidates(hdr, beh, step)
    if not cands:
        return None, "configuration history has no known shape"
    st = beh["steps"][step]
    for n in range(1, min(len(cands), 6) + 1):
        for sub in itertools.combinations(cands, n):
            uo, go, drop, wipes = {}, {}, frozenset(), []
            for c in sub:
                uo.update(c.get("uover", {})); go.update(c.get("gover", {})); drop |= c.get("drop", frozenset())
                if "wipe" in c:
                    wipes.append(c["wipe"])
            # what the manager does not see on a queue it cannot lose there either
            uo, go = ({k: v for k, v in o.items() if k[0] not in drop} for o in (uo, go))
            m2 = run_model(hdr, beh, step, drop, wipes)[0] if drop or wipes else model
            ok = True
            for app, user, q, o in probes(hdr, m2, st):
                room, run = m2.observe(q, app, user, uo, go)
                if list(room) != list(got.get(("headroom", app, user, q), o[0])) or run != got.get(("canrun", app, user, q), o[1]):
                    ok = False
                    break
            if ok:
                return {c["matcher"] for c in sub}, [c["what"] for c in sub]
    return None, "no combination of the known deviations predicts the observed values (%d candidates)" % len(cands)


# ----------------------------------------------------------------------------------------------------------------------
# tools

def tlc_to_file(work, cfg, out, workers, simulate=None, extra=(), timeout=1700, heap="2g"):
    meta = os.path.join(work, "meta-" + os.path.basename(cfg))
    cmd = ["java", "-Xmx" + heap, "-Xss64m", "-XX:+UseParallelGC", "-cp", C.JAR, "tlc2.TLC", "-workers", str(workers), "-metadir", meta,
           "-config", cfg, "-noGenerateSpecTE"] + list(extra)
    if simulate:
        cmd += ["-simulate", simulate]
    cmd += ["MC_UGM"]
    t = time.time()
    try:
        with open(os.path.join(work, out), "w") as f:
            p = subprocess.run(cmd, cwd=work, stdout=f, stderr=subprocess.STDOUT, timeout=timeout)
    except subprocess.TimeoutExpired:
        raise C.Infra("TLC timeout after %ss: %s" % (timeout, cfg))
    finally:
        shutil.rmtree(meta, ignore_errors=True)
    return p.returncode, time.time() - t


def harness(work, cases, tag, modes="dense,sparse"):
    """-> (summary, mismatches by behaviour id, failing behaviours by id, header, TLC's own messages)"""
    mm, logf, hashf = (os.path.join(work, tag + x) for x in (".mm", ".log", ".hashes"))
    p = subprocess.run([C.VERIF + "/.build/ykh", "ugmlimits", "-cases", os.path.join(work, cases), "-out", mm, "-tag", tag, "-modes", modes, "-log", logf, "-hashes", hashf],
                       cwd=work, stdout=subprocess.PIPE, stderr=subprocess.PIPE, text=True, env=C.ENV, timeout=1700)
    if p.returncode != 0:
        raise C.Infra("ykh ugmlimits failed on %s (rc %s): %s" % (cases, p.returncode, p.stderr[-1500:]))
    try:
        summary = json.loads(p.stderr.strip().splitlines()[-1])
    except (ValueError, IndexError):
        raise C.Infra("ykh ugmlimits printed no summary: %s" % p.stderr[-500:])
    by_id, behs = {}, {}
    for l in open(mm):
        d = json.loads(l)
        if "failing_behaviour" in d:
            behs[d["failing_behaviour"]] = d["beh"]
        else:
            by_id.setdefault(d["id"], []).append(d)
    summary["hashes"] = set(open(hashf).read().split())
    return summary, by_id, behs, open(logf).read()


def build():
    """C.build(), and make sure that the harness binary was really produced by this build: bin/build ends with `go build && mv`, whose
    failure does not stop a `set -e` script, so a compile error would leave the previous binary in place."""
    t = time.time()
    C.build()
    exe = C.VERIF + "/.build/ykh"
    if not os.path.exists(exe) or os.path.getmtime(exe) < t - 2:
        p = C.sh("cd %s/harness && go build -tags verif -o /dev/null ./cmd/ykh" % C.VERIF, check=False, timeout=1500)
        raise C.Infra("the harness does not build against %s: %s" % (C.REPO, p.stdout[-1500:]))


def read_header(path):
    for l in open(path):
        if l.startswith('<<"HDR"'):
            return json.loads(json.loads(l.strip()[len('<<"HDR", '):-2]))
        if l.startswith('{"hdr"'):
            return json.loads(l)["hdr"]
    raise C.Infra("no header in " + path)


def write_cfg(work, name, base, subst):
    s = open(os.path.join(work, base)).read()
    for k, v in subst.items():
        s, n = re.subn(r"(?m)^(\s*%s\s*(?:=|<-)\s*).*$" % re.escape(k), lambda m: m.group(1) + str(v), s)
        if n != 1:
            raise C.Infra("cfg %s: constant %s not found" % (base, k))
    open(os.path.join(work, name), "w").write(s)
    return name


def classify(hdr, by_id, behs, kfs):
    """-> (violations [(id, beh, mismatches, reason)], observed {kf id: n}, examples {kf id: (id, description)})"""
    by_matcher = {k["matcher"]: k for k in kfs if k.get("status") == "known" and k.get("matcher")}
    viol, obs, examples = [], {k["id"]: 0 for k in by_matcher.values()}, {}
    for bid, ms in by_id.items():
        beh = behs[bid]
        used_all, reason = set(), None
        for mode in sorted({m["mode"] for m in ms}):
            mm = [m for m in ms if m["mode"] == mode]
            first = min(m["step"] for m in mm)
            used, why = explain(hdr, beh, mode, [m for m in mm if m["step"] == first])
            if not used or not all(u in by_matcher for u in used):
                reason = "%s replay, step %d: %s" % (mode, first, why if not used else "matches %s, not listed as known" % sorted(used))
                break
            used_all |= used
            for u in used:
                examples.setdefault(by_matcher[u]["id"], (bid, why))
        if reason:
            viol.append((bid, beh, ms, reason))
        else:
            for u in used_all:
                obs[by_matcher[u]["id"]] += 1
    return viol, obs, examples


def write_replays(prop, seed, hdr, viol):
    os.makedirs(C.VERIF + "/replays", exist_ok=True)
    paths = []
    for n, (bid, beh, ms, reason) in enumerate(viol[:MAX_REPLAY_FILES]):
        path = "%s/replays/%s-ugmlimits-%s-%d.json" % (C.VERIF, prop, seed, n)
        first = min(m["step"] for m in ms)
        json.dump({"property": prop, "module": "ugmlimits", "behaviour": bid, "why_not_known": reason,
                   "how": "bin/check %s --replay <this file> replays 'behaviours' (exactly as generated by TLC, expectations included) on the current tree" % prop,
                   "first_failing_step": first, "failing_action": beh["steps"][first]["act"],
                   "expected_vs_actual": [{k: m[k] for k in ("mode", "step", "kind", "app", "user", "q", "want", "got")} for m in ms],
                   "hdr": hdr, "behaviours": [dict(beh, id=bid)]}, open(path, "w"), indent=1)
        paths.append(path)
    return paths


def kf_lines(prop, kfs, obs):
    return ["KNOWN-FINDING: property=%s %s [%s] observed_in_this_run=%d" % (prop, k["what"], k["id"], obs.get(k["id"], 0))
            for k in kfs if k.get("status") == "known" and str(k.get("matcher", "")).startswith("ugm_")]


def run_cases_file(work, hdr, behaviours, tag):
    with open(os.path.join(work, tag + ".cases"), "w") as f:
        f.write(json.dumps({"hdr": hdr}) + "\n")
        for b in behaviours:
            f.write(json.dumps(b, separators=(",", ":")) + "\n")
    return harness(work, tag + ".cases", tag)


def replay(prop, path, kfs):
    build()
    rp = json.load(open(path))
    if not rp.get("behaviours") or not rp.get("hdr"):
        raise C.Infra("replay file has no behaviours: " + path)
    d = C.scratch("c05u")
    try:
        summary, by_id, behs, _ = run_cases_file(d, rp["hdr"], rp["behaviours"], "replay")
    finally:
        shutil.rmtree(d, ignore_errors=True)
    if summary["behaviours"] != len(rp["behaviours"]) or summary["configurations_rejected_by_the_validator"]:
        raise C.Infra("replayed %d of %d behaviours, %d configurations rejected" % (summary["behaviours"], len(rp["behaviours"]), summary["configurations_rejected_by_the_validator"]))
    viol, obs, _ = classify(rp["hdr"], by_id, behs, kfs)
    for bid, _, ms, reason in viol[:10]:
        print("still failing: %s (%s): %s" % (bid, reason, json.dumps(ms[0])))
    print("replayed %d behaviour(s): %d with mismatches, %d not covered by a known finding" % (len(rp["behaviours"]), len(by_id), len(viol)))
    if viol:
        print("VIOLATION property=%s replay=%s" % (prop, path))
    sys.exit(1 if viol else 0)


# ----------------------------------------------------------------------------------------------------------------------

def main(prop, tier, seed, argv):
    t0 = time.time()
    kfs = [k for k in C.known_findings() if prop in k.get("properties", [])]
    if "--replay" in argv:
        return replay(prop, argv[argv.index("--replay") + 1], kfs)
    build()
    d = C.scratch("c05u")
    try:
        C.copy_spec(d)
        big = tier == "thorough"
        nproc = max(2, min(C.NCPU - 2, 12))
        per_proc = (7000 if big else 330) if not os.environ.get("UGM_SIM_NUM") else int(os.environ["UGM_SIM_NUM"])
        jobs = []
        for fam in FAMILIES:
            cfg = write_cfg(d, "pairs_%s.cfg" % fam, "MC_UGM_pairs.cfg", {"Family": '"%s"' % fam, "FamValues": "FamValues3" if big else "FamValues2"})
            jobs.append(dict(tag="pair-" + fam, cfg=cfg, workers=3, simulate=None, extra=(), mode="exhaustive"))
        for i in range(nproc):
            # all: everything; nocase: no limits on the mixed case queue (whose defect would end most behaviours at their first
            # configuration); clean: in addition none of the configuration changes that hit the recorded defects
            prof = ("all", "nocase", "clean", "nocase", "clean", "nocase")[i % 6]
            cfg = write_cfg(d, "sim_%d.cfg" % i, "MC_UGM_sim.cfg", {"Clean": "TRUE" if prof == "clean" else "FALSE", "MixedCase": "TRUE" if prof == "all" else "FALSE"})
            jobs.append(dict(tag="sim-%d-%d-%s" % (seed, i, prof), cfg=cfg, workers=1, simulate="num=%d" % per_proc,
                             extra=("-deadlock", "-depth", "8000", "-seed", str(seed * 1000 + i)), mode="simulate", clean=prof == "clean", profile=prof))

        def run(job):
            rc, wall = tlc_to_file(d, job["cfg"], job["tag"] + ".out", job["workers"], simulate=job["simulate"], extra=job["extra"])
            summary, by_id, behs, tl = harness(d, job["tag"] + ".out", job["tag"])
            if job["mode"] == "exhaustive":
                ok = rc == 0 and "Model checking completed. No error has been found." in tl
                gen, dist = C.tlc_stats(tl)
            else:
                m = re.search(r"The number of states generated: (\d+)", tl)
                ok = rc == 0 and m is not None and "Error:" not in tl
                gen = dist = int(m.group(1)) if m else 0
            if not ok:
                raise C.Infra("TLC failed on %s (rc %s): %s" % (job["cfg"], rc, tl[-2000:]))
            hdr = read_header(os.path.join(d, job["tag"] + ".out"))
            os.remove(os.path.join(d, job["tag"] + ".out"))
            return dict(job=job, hdr=hdr, summary=summary, by_id=by_id, behs=behs, generated=gen, distinct=dist, tlc_wall=round(wall, 1))
        results = C.pmap(run, jobs, nproc + 2)
        hdr = results[0]["hdr"]
        if any(r["hdr"] != hdr for r in results):
            raise C.Infra("the TLC runs disagree on the header")

        # totals and vacuity guards
        tot, distinct = {}, set()
        for r in results:
            distinct |= r["summary"].pop("hashes")
            for k, v in r["summary"].items():
                if isinstance(v, int) and not isinstance(v, bool):
                    tot[k] = tot.get(k, 0) + v
        rejected = [x for r in results for x in r["summary"].get("rejected_examples") or []]
        if tot.get("configurations_rejected_by_the_validator"):
            raise C.Infra("spec/UGM.tla ValidConfig admits configurations the real validator rejects: %s" % rejected[:2])
        for r in results:
            if r["summary"]["behaviours"] == 0:
                raise C.Infra("vacuous run: no behaviour generated by %s" % r["job"]["cfg"])
        if tot["probes_headroom_limited"] == 0 or tot["probes_canrun_false"] == 0 or tot["behaviours_with_2_or_more_configurations"] == 0:
            raise C.Infra("vacuous run: %s" % json.dumps(tot))

        # classification
        by_id, behs = {}, {}
        for r in results:
            by_id.update(r["by_id"]); behs.update(r["behs"])
        viol, obs, examples = classify(hdr, by_id, behs, kfs)
        paths = write_replays(prop, seed, hdr, viol) if viol else []
        if viol:
            print("behaviours with mismatches that no known finding predicts: %d (%d replay files written)" % (len(viol), len(paths)))
            for bid, _, ms, reason in viol[:5]:
                print("  %s: %s; e.g. %s" % (bid, reason, json.dumps({k: ms[0][k] for k in ("kind", "app", "user", "q", "want", "got")})))
        per_job = [{"tag": r["job"]["tag"], "mode": r["job"]["mode"], "profile": r["job"].get("profile", r["job"]["mode"]), "behaviours": r["summary"]["behaviours"],
                    "failing": r["summary"]["failing_behaviours"], "states": r["distinct"], "generated": r["generated"], "tlc_wall_s": r["tlc_wall"]} for r in results]
        clean_fail = sum(r["summary"]["failing_behaviours"] for r in results if r["job"].get("clean"))
        cov = {
            "states": sum(r["distinct"] for r in results), "transitions": sum(r["generated"] for r in results),
            "traces_validated_against_impl": tot["behaviours"], "evaluations": tot["behaviours"], "distinct_nontrivial": len(distinct),
            "rule": "one evaluation = one behaviour generated by TLC from MC_UGM.tla (API call sequence with the specification's expected observations after every call) and "
                    "replayed on the real manager in both observation modes, every probe (Headroom and CanRunApp of one application / user / leaf after one step) compared with the "
                    "specification's value; a behaviour is non-trivial when at least one expected observation is limited (a headroom that names a resource type, or CanRunApp false); "
                    "distinct = distinct FNV-64a hashes of the behaviours' JSON text, counted across all TLC runs of this check",
            "samples": [json.loads(s) for s in results[0]["summary"]["samples"][:1] + results[-1]["summary"]["samples"][:2]],
            "exhaustive": False,
            "explanation": "exhaustive only for the configuration pairs of the families %s with the fixed usage script; the sampled part is random" % (FAMILIES,),
            "probes": tot["probes"], "replays": tot["replays"], "steps": tot["steps"], "configuration_updates": tot["conf_steps"],
            "behaviours_with_2_or_more_configurations": tot["behaviours_with_2_or_more_configurations"],
            "probes_headroom_limited": tot["probes_headroom_limited"], "probes_headroom_exhausted": tot["probes_headroom_exhausted"],
            "probes_canrun_false": tot["probes_canrun_false"], "distinct_configurations_checked_by_real_validator": tot["distinct_configurations"],
            "failing_behaviours": tot["failing_behaviours"], "failing_behaviours_in_clean_runs": clean_fail, "mismatches": tot["mismatches"],
            "known_findings_observed": obs, "known_finding_examples": {k: {"behaviour": v[0], "deviation": v[1]} for k, v in examples.items()},
            "runs": per_job,
            "checker_cmd": "tlc MC_UGM (PairSpec per family; SimSpec -simulate num=%d -seed %d..) | ykh ugmlimits" % (per_proc, seed * 1000),
        }
        C.write_evidence(prop, tier, seed, "model_checking", cov, time.time() - t0, len(viol), [
            "TLC evaluates UGM.tla / MC_UGM.tla correctly; the harness converts representations faithfully (it computes no expectation)",
            "only configurations that the configuration validator accepts are given to the manager (checked against the real validator for every configuration)",
            "not specified, not generated: removing the limit of a group from a queue while an application resolved to that group is counted there "
            "(unit tests expect the group usage to be dropped and the applications to be re-resolved; the property text expects usage = sum of live allocations)",
            "not specified, not generated: two groups of one user with named limits on the same queue in an order that differs from the user's group order "
            "(the manager picks by configuration order, ensureGroup's comment says 'first matching group')",
            "sequential use of the manager; applications are observed with their own user and queue; a new application is observed under a fresh id",
        ])
        C.finish(prop, paths, kf_lines(prop, kfs, obs))
    finally:
        shutil.rmtree(d, ignore_errors=True)
