"""C18 - resource arithmetic and quantity parsing are exact or saturate, never wrap.

Pipeline (technique: explicit TLA+ specification, bound to the Go code by lock-step replay):
 0. TLC checks that spec/ResOps.tla on plain integers agrees with spec/Res.tla, the operators of the trace validator
    (spec/MC_ResOpsInt.tla; specification consistency, not a verdict).
 1. Apalache proves / refutes the obligations of spec/MC_Int64Sat.tla: the transcription of addVal/subVal/mulVal AS CODED
    (spec/Int64Sat.tla, two's-complement wrap explicit) against Clamp(exact), for ALL int64 inputs.  TLC checks the same
    obligations exhaustively at word width 8 (spec/MC_Int8Sat.tla).  A refuted obligation is a DESIGN finding only.
 2. TLC enumerates spec/MC_ResOps.tla: every operator of spec/ResOps.tla (the documented meaning of resources.go) on all
    pairs of resources over key sets within {a, b}, nil and empty included, values from a boundary set around MinInt64, 0,
    MaxInt64; the expected result is computed by the specification with exact-or-saturate scalars.
 3. TLC enumerates spec/MC_Quantity.tla: all strings up to a length bound over a 17 symbol alphabet plus boundary numerals,
    with the expected value in symbolic form numeral * 10^a * 2^b (spec/Quantity.tla).  This half is a specification-derived
    DIFFERENTIAL test: the harness evaluates the symbolic form with math/big.
 4. `ykh resarith` replays every case against the real pkg/common/resources (result, panics, arguments unmodified).
 5. Mismatches are matched narrowly against KNOWN_FINDINGS.json; everything else is a VIOLATION with a replay file.
"""
import json, os, random, re, shutil, subprocess, sys, threading, time
from . import common as C

MIN, MAX = -2 ** 63, 2 ** 63 - 1

# obligation -> what it says (spec/MC_Int64Sat.tla)
OBLIGATIONS = [
    ("AddOK", "addVal as coded = Clamp(a + b) for all int64 a, b"),
    ("SubOK", "subVal as coded = Clamp(a - b) for all int64 a, b"),
    ("SubOKExceptMin", "subVal as coded BEFORE the repair = Clamp(a - b) whenever b # MinInt64"),
    ("SubMinAlwaysWrong", "subVal as coded BEFORE the repair # Clamp(a - b) for every a when b = MinInt64"),
    ("SubRepairedOK", "subVal with the negation repaired = Clamp(a - b) for all int64 a, b"),
    ("MulSmallOK", "mulVal as coded = Clamp(a * b) for all int64 a and b in -4..4"),
    ("MulOK", "mulVal as coded = Clamp(a * b) for all int64 a, b"),
]
N_OPTIONAL, N_RATIO_OPTIONAL = 18, 16     # lengths of Optional / RatioOptional in spec/MC_ResOps.tla

SUBFAMILY = ("Sub", "SubOnlyExisting", "SubEliminateNegative", "SubErrorNegative")
NONNEG = ("SubEliminateNegative", "SubErrorNegative")
KF_MININT, KF_LEFTONLY = "subval_minint", "subnonneg_leftonly"


# ----------------------------------------------------------------------------------------------------------------------
# known findings: narrow recognisers

def _clamp(v):
    return max(MIN, min(MAX, v))


def _sub_coded(a, b):
    """subVal as coded (SubCoded in spec/Int64Sat.tla), used ONLY to recognise the known finding KF-C18-SUBVAL-MININT."""
    if b == MIN:
        return a + MIN if a >= 0 else MIN
    return _clamp(a - b)


def _tomap(v):
    if isinstance(v, dict):
        return {k: int(x) for k, x in v.items()}
    return None


def explain(m):
    """Set of matcher names whose defects explain the mismatch exactly (value by value), or None."""
    op = m.get("op")
    if m.get("kind") != "result" or op not in SUBFAMILY:
        return None
    xs, ys = _tomap(m.get("x64")) or {}, _tomap(m.get("y64")) or {}
    got, want = m.get("got"), m.get("want64")
    goterr = None
    if op == "SubErrorNegative":
        if not isinstance(got, dict) or not isinstance(want, dict):
            return None
        goterr, got, want = got.get("err"), got.get("res"), want.get("res")
    got, want = _tomap(got), _tomap(want)
    if got is None or want is None:
        return None
    used = set()
    for t in m.get("diff") or []:
        if t not in got or t not in want:
            return None                                  # a type present on one side only is never a known finding
        a = xs.get(t, 0)
        if ys.get(t) == MIN and (op != "SubOnlyExisting" or t in xs):
            pred = _sub_coded(a, MIN)
            if op in NONNEG and pred < 0:
                pred = 0
            if got[t] != pred:
                return None
            used.add(KF_MININT)
        elif op in NONNEG and t in xs and t not in ys and xs[t] < 0 and got[t] == xs[t] and want[t] == 0:
            used.add(KF_LEFTONLY)
        else:
            return None
    if m.get("errdiff"):
        leftonly = any(v < 0 for t, v in xs.items() if t not in ys)

        def err(minint_bug, leftonly_bug):
            e = any((_sub_coded(xs.get(t, 0), b) if minint_bug else _clamp(xs.get(t, 0) - b)) < 0 for t, b in ys.items())
            return e or (leftonly and not leftonly_bug)
        # the smallest set of the two defects that is consistent with the values above and yields the observed error flag
        for mb, lb in ((False, False), (False, True), (True, False), (True, True)):
            if (mb or KF_MININT not in used) and (lb or KF_LEFTONLY not in used) and (mb or lb) and err(mb, lb) == goterr:
                used.update([KF_MININT] * mb + [KF_LEFTONLY] * lb)
                break
        else:
            return None
    return used or None


def classify(mismatches, kfs):
    """-> (violations [mismatch], observed {kf id: n}, examples {kf id: mismatch})."""
    by_matcher = {k["matcher"]: k for k in kfs if k.get("status") == "known" and k.get("matcher")}
    viol, obs, examples = [], {k["id"]: 0 for k in by_matcher.values()}, {}
    for m in mismatches:
        used = explain(m)
        if used and all(u in by_matcher and m["op"] in by_matcher[u].get("op", []) for u in used):
            for u in used:
                kid = by_matcher[u]["id"]
                obs[kid] += 1
                examples.setdefault(kid, m)
        else:
            viol.append(m)
    return viol, obs, examples


# ----------------------------------------------------------------------------------------------------------------------
# tools

def apalache(d, inv, timeout):
    out = os.path.join(d, "apa-" + inv)
    cmd = ["apalache-mc", "check", "--length=0", "--init=Init", "--next=Next", "--inv=" + inv, "--out-dir=" + out, "MC_Int64Sat.tla"]
    t = time.time()
    try:
        p = subprocess.run(cmd, cwd=d, stdout=subprocess.PIPE, stderr=subprocess.STDOUT, timeout=timeout, text=True)
    except subprocess.TimeoutExpired:
        return {"obligation": inv, "outcome": "undecided", "detail": "timeout after %ss" % timeout, "wall_s": round(time.time() - t, 1)}
    txt = p.stdout
    r = {"obligation": inv, "wall_s": round(time.time() - t, 1)}
    if "The outcome is: NoError" in txt and p.returncode == 0:
        r["outcome"] = "proved"
    elif "The outcome is: Error" in txt and "invariant 0 violated" in txt:
        r["outcome"] = "refuted"
        for root, _, files in os.walk(out):
            if "violation1.tla" in files:
                mm = re.search(r"State0 == (.*)", open(os.path.join(root, "violation1.tla")).read())
                if mm:
                    r["counterexample"] = mm.group(1).replace("/\\", "and")
    else:
        raise C.Infra("apalache failed on obligation %s (rc %s): %s" % (inv, p.returncode, txt[-1500:]))
    return r


def tlc_replay(d, module, cfg, tag, workers, timeout):
    """Run TLC on module/cfg and stream its CASE lines into `ykh resarith`; -> (summary dict, mismatches, (generated, distinct))."""
    log, mm, meta = [os.path.join(d, tag + s) for s in (".tlc.log", ".mismatch.ndjson", ".meta")]
    java = ["java", "-Xmx6g", "-Xss64m", "-XX:+UseParallelGC", "-Djava.io.tmpdir=" + d, "-cp", C.JAR, "tlc2.TLC", "-workers", str(workers), "-metadir", meta,
            "-config", cfg, module]
    ykh = [C.VERIF + "/.build/ykh", "resarith", "-cases", "-", "-out", mm, "-log", log]
    p1 = subprocess.Popen(java, cwd=d, stdout=subprocess.PIPE, stderr=subprocess.STDOUT)
    p2 = subprocess.Popen(ykh, cwd=d, stdin=p1.stdout, stdout=subprocess.PIPE, stderr=subprocess.PIPE, text=True, env=C.ENV)
    p1.stdout.close()
    try:
        _, err = p2.communicate(timeout=timeout)
        rc1 = p1.wait(timeout=60)
    except subprocess.TimeoutExpired:
        p1.kill(); p2.kill()
        raise C.Infra("timeout after %ss: TLC %s | ykh resarith" % (timeout, module))
    finally:
        shutil.rmtree(meta, ignore_errors=True)
    tl = open(log).read() if os.path.exists(log) else ""
    if rc1 != 0 or "Model checking completed. No error has been found." not in tl:
        raise C.Infra("TLC failed on %s (rc %s): %s" % (module, rc1, tl[-2000:]))
    if p2.returncode != 0:
        raise C.Infra("ykh resarith failed (rc %s): %s" % (p2.returncode, err[-2000:]))
    try:
        summary = json.loads(err.strip().splitlines()[-1])
    except (ValueError, IndexError):
        raise C.Infra("ykh resarith printed no summary: %s" % err[-500:])
    mism = [json.loads(l) for l in open(mm) if l.strip()]
    return summary, mism, C.tlc_stats(tl)


def run_cases(d, cases):
    """Replay bare JSON cases; -> (summary, mismatches)."""
    cf, mm = os.path.join(d, "cases.ndjson"), os.path.join(d, "replay.mismatch.ndjson")
    with open(cf, "w") as f:
        for c in cases:
            f.write(json.dumps(c, separators=(",", ":")) + "\n")
    p = C.sh([C.VERIF + "/.build/ykh", "resarith", "-cases", cf, "-out", mm], timeout=600, check=False)
    if p.returncode != 0:
        raise C.Infra("ykh resarith failed (rc %s): %s" % (p.returncode, p.stdout[-2000:]))
    summary = json.loads(p.stdout.strip().splitlines()[-1])
    return summary, [json.loads(l) for l in open(mm) if l.strip()]


def write_cfgs(d, tier, seed):
    rnd = random.Random(seed)
    if tier == "quick":
        # MinInt64, 0, MaxInt64 (always) + -1, 1 + two seeded boundary values; strings up to 4 symbols
        pick = {3, 4} | set(rnd.sample([i for i in range(1, N_OPTIONAL + 1) if i not in (3, 4)], 2))
        ratio = set(rnd.sample(range(1, N_RATIO_OPTIONAL + 1), 4))
        maxlen = 4
    else:
        pick = set(range(1, N_OPTIONAL + 1)) - set(rnd.sample(range(7, N_OPTIONAL + 1), 3))
        ratio = set(range(1, N_RATIO_OPTIONAL + 1))
        maxlen = 5
    fmt = lambda s: "{" + ", ".join(str(i) for i in sorted(s)) + "}"
    open(os.path.join(d, "run_ResOps.cfg"), "w").write(
        "CONSTANTS\n Nil = Nil\n NoTypes = NoTypes\n Unspec = Unspec\n Pick = %s\n PickRatio = %s\n"
        "INIT Init\nNEXT Next\nINVARIANT Emit\nCHECK_DEADLOCK FALSE\n" % (fmt(pick), fmt(ratio)))
    open(os.path.join(d, "run_Quantity.cfg"), "w").write(
        "CONSTANTS\n MaxLen = %d\nINIT Init\nNEXT Next\nINVARIANT Emit\nCHECK_DEADLOCK FALSE\n" % maxlen)
    nvals = 3 + len(pick)
    return {"pick": sorted(pick), "pick_ratio": sorted(ratio), "max_len": maxlen, "values": nvals, "resources": 2 + 2 * nvals + nvals * nvals,
            "ratios": 5 + len(ratio)}


def write_replays(prop, seed, viol):
    """One replay file per (kind, operator) group of violations; -> paths."""
    groups = {}
    for m in viol:
        groups.setdefault((m.get("kind"), m.get("op")), []).append(m)
    os.makedirs(C.VERIF + "/replays", exist_ok=True)
    paths = []
    for n, ((kind, op), ms) in enumerate(sorted(groups.items())):
        path = "%s/replays/%s-%s-%s-%d-%d.json" % (C.VERIF, prop, kind, op, seed, n)
        first = ms[0]
        json.dump({"property": prop, "kind": kind, "op": op, "count_in_run": len(ms),
                   "expected": first.get("want64"), "actual": first.get("got"), "x": first.get("x64"), "y": first.get("y64"),
                   "string": first.get("string"), "detail": first.get("detail"),
                   "how": "bin/check %s --replay <this file> re-runs every entry of 'cases' (the case exactly as enumerated by TLC) against the current tree" % prop,
                   "cases": [m["case"] for m in ms[:25]],
                   "first_mismatches": [{k: v for k, v in m.items() if k != "case"} for m in ms[:5]]},
                  open(path, "w"), indent=1)
        paths.append(path)
    return paths


def kf_lines(prop, kfs, obs):
    lines = []
    for k in kfs:
        if k.get("status") == "known" and prop in k.get("properties", []):
            lines.append("KNOWN-FINDING: property=%s %s [%s] observed_in_this_run=%d" % (prop, k["what"], k["id"], obs.get(k["id"], 0)))
    return lines


# ----------------------------------------------------------------------------------------------------------------------

def replay(prop, path, kfs):
    C.build()
    rp = json.load(open(path))
    cases = rp.get("cases") or []
    if not cases:
        raise C.Infra("replay file has no cases: " + path)
    d = C.scratch("c18r")
    try:
        summary, mism = run_cases(d, cases)
    finally:
        shutil.rmtree(d, ignore_errors=True)
    if summary.get("cases", 0) != len(cases):
        raise C.Infra("replayed %s of %d cases" % (summary.get("cases"), len(cases)))
    if any(m.get("kind") == "oracle" for m in mism):
        raise C.Infra("symbolic value disagreement: %s" % [m for m in mism if m.get("kind") == "oracle"][:1])
    viol, obs, _ = classify(mism, kfs)
    for m in viol[:10]:
        print("still failing: " + json.dumps({k: v for k, v in m.items() if k != "case"}))
    print("replayed %d case(s): %d mismatch(es), %d not covered by a known finding" % (len(cases), len(mism), len(viol)))
    if viol:
        print("VIOLATION property=%s replay=%s" % (prop, path))
    sys.exit(1 if viol else 0)


def main(prop, tier, seed, argv):
    t0 = time.time()
    kfs = [k for k in C.known_findings() if prop in k.get("properties", [])]
    if "--replay" in argv:
        return replay(prop, argv[argv.index("--replay") + 1], kfs)
    C.build()
    d = C.scratch("c18")
    try:
        C.copy_spec(d)
        sizes = write_cfgs(d, tier, seed)
        workers = max(2, min(C.NCPU, 16))
        big = tier == "thorough"

        # 0./1. design level, in the background: Apalache (width 64, all inputs); TLC (width 8, exhaustive; ResOps.tla vs Res.tla)
        bg = {}

        def guarded(name, fn):
            def run():
                try:
                    bg[name] = fn()
                except Exception as e:          # re-raised below, in the main thread
                    bg[name + ".err"] = e
            th = threading.Thread(target=run)
            th.start()
            return th

        def small_models():
            rc, out8 = C.tlc(d, "MC_Int8Sat", "MC_Int8Sat.cfg", workers=2, timeout=900)
            if rc != 0 or "No error has been found" not in out8:
                raise C.Infra("TLC failed on MC_Int8Sat: " + out8[-1500:])
            ref = {}
            for mm in re.finditer(r'<<"REFUTED", "(\w+)", (-?\d+), (-?\d+)', out8):
                ref.setdefault(mm.group(1), []).append((int(mm.group(2)), int(mm.group(3))))
            # consistency of ResOps.tla (plain integers) with Res.tla, the operators of the trace validator; not a verdict about the code
            rc, outc = C.tlc(d, "MC_ResOpsInt", "MC_ResOpsInt.cfg", workers=2, timeout=900)
            if rc != 0 or "No error has been found" not in outc or "DISAGREE" in outc or C.tlc_stats(outc)[1] == 0:
                raise C.Infra("ResOps.tla and Res.tla disagree (or TLC failed): " + "\n".join([l for l in outc.splitlines() if "DISAGREE" in l][:5] or [outc[-1500:]]))
            return C.tlc_stats(out8), ref, C.tlc_stats(outc)
        obligations = [o for o in OBLIGATIONS if big or o[0] != "MulSmallOK"]      # MulSmallOK is implied by MulOK; kept as a fallback in thorough
        threads = [guarded("apalache", lambda: C.pmap(lambda o: apalache(d, o[0], 900 if big else 240), obligations, 3)),
                   guarded("small", small_models)]
        phase, tp = {"build_and_setup": round(time.time() - t0, 1)}, time.time()

        def lap(name):
            nonlocal tp
            phase[name], tp = round(time.time() - tp, 1), time.time()

        # 2.-4. enumerate with TLC, replay in lock step against the real code
        s_ops, m_ops, (gen_ops, dist_ops) = tlc_replay(d, "MC_ResOps", "run_ResOps.cfg", "resops", workers, 3000 if big else 600)
        lap("resops_enumerate_and_replay")
        s_q, m_q, (gen_q, dist_q) = tlc_replay(d, "MC_Quantity", "run_Quantity.cfg", "quantity", workers, 3000 if big else 600)
        lap("quantity_enumerate_and_replay")
        for th in threads:
            th.join()
        lap("waiting_for_design_level_checks")
        for name in ("apalache", "small"):
            if name + ".err" in bg:
                e = bg[name + ".err"]
                raise e if isinstance(e, C.Infra) else C.Infra("%s: %r" % (name, e))
        obl = bg["apalache"]
        (gen8, dist8), ref8, (genc, distc) = bg["small"]

        # vacuity / consistency guards
        cases = s_ops["cases"] + s_q["cases"]
        if s_ops["cases"] == 0 or s_q["cases"] == 0:
            raise C.Infra("vacuous run: %d vector cases, %d quantity cases replayed" % (s_ops["cases"], s_q["cases"]))
        if dist_ops - sizes["resources"] != s_ops["cases"] or 2 * dist_q != s_q["cases"]:
            raise C.Infra("case lines lost: TLC reports %d/%d distinct states, harness replayed %d/%d cases" % (dist_ops, dist_q, s_ops["cases"], s_q["cases"]))
        expected_ops = 30
        if len(s_ops["byOp"]) != expected_ops or min(s_ops["byOp"].values()) == 0:
            raise C.Infra("operators exercised: %s" % sorted(s_ops["byOp"]))
        if s_q["quantityAccepted"] == 0 or s_q["quantityUnrepresentable"] == 0 or s_ops["saturatingCases"] == 0:
            raise C.Infra("vacuous run: no accepted / overflowing quantity or no saturating vector case")
        oracle = [m for m in m_ops + m_q if m.get("kind") == "oracle"]
        if oracle:
            raise C.Infra("symbolic value disagreement between TLC and the harness evaluator: %s" % json.dumps(oracle[0])[:600])

        # 5. classification
        viol, obs, examples = classify(m_ops + m_q, kfs)
        paths = write_replays(prop, seed, viol) if viol else []
        for p in obl:
            if p["outcome"] == "refuted":
                print("DESIGN-FINDING: property=%s obligation %s refuted by Apalache for width 64 (%s): %s" % (prop, p["obligation"], dict(OBLIGATIONS)[p["obligation"]], p.get("counterexample", "")))
        for name, inst in sorted(ref8.items()):
            print("DESIGN-FINDING: property=%s obligation %s refuted by TLC for width 8 on %d of 65536 pairs, e.g. (a, b) = %s" % (prop, name, len(inst), inst[0]))
        byop = {}
        for m in viol:
            byop[m["op"] + "/" + m["kind"]] = byop.get(m["op"] + "/" + m["kind"], 0) + 1
        if viol:
            print("mismatches not covered by a known finding: %s" % json.dumps(byop, sort_keys=True))
        discharged = sum(1 for p in obl if p["outcome"] == "proved")
        cov = {
            "states": dist_ops + dist_q + dist8 + distc, "transitions": gen_ops + gen_q + gen8 + genc,
            "traces_validated_against_impl": cases, "evaluations": cases,
            "distinct_nontrivial": s_ops["nonTrivial"] + s_q["nonTrivial"],
            "rule": "one evaluation = one case enumerated by TLC (a distinct state of MC_ResOps / MC_Quantity: operator + arguments, or parser + string) and replayed against "
                    "the real function; a vector case is non-trivial when the specification determines the result and at least one argument defines a type, a quantity case when "
                    "the string is in the documented grammar (accepted or unrepresentable); counted by the harness",
            "samples": [json.loads(s) for s in (s_ops["samples"][:5] + s_q["samples"][:3])],
            "exhaustive": True,
            "explanation": "exhaustive over the stated finite families only: key sets within {a,b} with %d boundary values (%d resources, %d ratios), strings of at most %d symbols over 17 symbols plus 43 boundary numerals" % (sizes["values"], sizes["resources"], sizes["ratios"], sizes["max_len"]),
            "vector_cases": s_ops["cases"], "quantity_cases": s_q["cases"], "cases_by_operator": dict(s_ops["byOp"], **s_q["byOp"]),
            "saturating_cases": s_ops["saturatingCases"] + s_q["saturatingCases"], "unspecified_predicate_cases": s_ops["unspecified"],
            "quantity": {k: s_q[k] for k in ("quantityAccepted", "quantityUnrepresentable", "quantityLenient", "quantityOutsideGrammar")},
            "model_sizes": sizes, "phase_wall_s": phase,
            "obligations": len(obl), "discharged": discharged, "obligation_results": obl,
            "res_tla_consistency_pairs": distc,
            "width8_exhaustive": {"pairs": dist8, "refuted_instances": {k: len(v) for k, v in ref8.items()}},
            "mismatches": len(m_ops) + len(m_q), "known_findings_observed": obs,
            "known_finding_examples": {k: {a: b for a, b in v.items() if a != "case"} for k, v in examples.items()},
            "violations_by_operator": byop,
            "checker_cmd": "apalache-mc check --length=0 --inv=<obligation> MC_Int64Sat.tla; tlc MC_Int8Sat, MC_ResOps, MC_Quantity | ykh resarith",
        }
        C.write_evidence(prop, tier, seed, "model_checking", cov, time.time() - t0, len(viol), [
            "TLC evaluates ResOps.tla / Int64Sat.tla / Quantity.tla correctly; boundary-symbolic pairs <<k, r>> = k*2^61 + r are exact for the enumerated values",
            "the harness converts representations faithfully; for quantity strings it evaluates numeral*10^a*2^b with math/big (specification-derived differential test, not model checking of the parser)",
            "the Apalache obligations concern the transcription of addVal/subVal/mulVal in Int64Sat.tla (design level); only the lock-step replay yields verdicts",
            "documentation that leaves a result open is specified as NoTypes / Unspec / lenient and not compared (StrictlyGreaterThan*OnlyExisting outside the agreed cases, Equals(nil, nil), blanks in quantity strings)",
            "aliased arguments (the same object passed twice) and concurrent use are outside the model",
        ])
        C.finish(prop, paths, kf_lines(prop, kfs, obs))
    finally:
        shutil.rmtree(d, ignore_errors=True)
