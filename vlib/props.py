"""Per-property check definitions and the driver of the pipelines."""
import json, os, sys, time
from . import common as C
from . import tracecheck as T

# workload sizing: (traces per process, steps per trace, processes)
def sized(tier, q, t):
    return q if tier == "quick" else t

def runs_for(prop, tier):
    Q = lambda prof, tr=25, st=80, pr=2: dict(profile=prof, traces=tr, steps=st, procs=pr)
    big = tier == "thorough"
    def R(prof, w=1.0):
        return Q(prof, int((250 if big else 30) * w), 120 if big else 80, 6 if big else 2)
    table = {
        "C01": [R("capacity", 1.5), R("core"), R("reserve", .7), R("gang")],
        "C02": [R("core"), R("reload"), R("dyn"), R("capacity", .5), R("gang")],
        "C03": [R("core"), R("gang"), R("capacity", .6), R("preempt", .6), R("extbind", .5)],
        "C04": [R("core"), R("gang"), R("preempt", .6)],
        "C05": [R("limits", 1.5), R("core", .5)],
        "C06": [R("gang", 2), R("core", .5)],
        "C07": [R("preempt", 1.5), R("preempt2", 1.5), R("quota", .7)],
        "C08": [R("preempt", 1.5), R("preempt2", 1.5), R("quota")],
        "C09": [R("reserve", 1.5), R("core"), R("preempt", .6), R("extbind", .6)],
        "C10": [R("core"), R("gang", 1.5)],
        "C11": [R("core", 1.5), R("reload"), R("dyn")],
        "C16": [R("reload", 2), R("quota", .6), R("limits", .6)],
        "C13": [R("bad", 3), R("core", .5)],
        "C12": [R("restart", 3)],
        "C05": [R("limits", 3), R("core", .7), R("gang", .5)],
    }
    return table[prop]

def model_stage(tier, seed, mc=True, focus="cold", pre_tests=False):
    """Pipelines A + B for the core pipeline properties: exhaustive TLC runs of the generative specification (intended
    behaviour; cold start and the two warm starts around a placeholder swap) and environment histories generated from it
    (bounded behaviours + sampled long behaviours). focus = "warm": most of the replay budget goes to the histories
    that start with an allocated placeholder."""
    from . import modelgen as G
    import random

    def gen(work):
        res = {"ops_files": []}
        if mc:
            cfg = "MC_YK_intended.cfg" if tier == "quick" else "MC_YK_intended11.cfg"
            res.update(states=0, transitions=0, model_cfg="")
            warm_cfgs = {"warm": ("MC_YK_warm.cfg", "MC_YK_warm2.cfg"), "resv": ("MC_YK_full.cfg",), "pre": ("MC_YK_pre.cfg", "MC_YK_pre2.cfg"), "cold": (),
                         "restart": ("MC_YK_warm2_rs.cfg", "MC_YK_pre2_rs.cfg", "MC_YK_full_rs.cfg")}
            # quick: the cold model and the start states the property is about; thorough: all of them
            cfgs = (cfg,) + (warm_cfgs[focus] if tier == "quick" else ("MC_YK_warm.cfg", "MC_YK_warm2.cfg", "MC_YK_full.cfg", "MC_YK_pre.cfg", "MC_YK_pre2.cfg", "MC_YK_warm2_rs.cfg", "MC_YK_pre2_rs.cfg", "MC_YK_full_rs.cfg"))
            for c in cfgs:
                r = G.model_check(work, c, workers=min(C.NCPU, 12))
                if not r["ok"]:
                    raise C.Infra("the intended-behaviour model (%s) violates %s: specification error" % (c, r["violated"]))
                res.update(states=res["states"] + r["distinct"], transitions=res["transitions"] + r["generated"], model_cfg=(res["model_cfg"] + " " + c).strip())
        quick = tier == "quick"
        rnd = random.Random(seed)

        def take(tests, n):
            rnd.shuffle(tests)
            return tests[:n]
        warm, resv = focus == "warm", focus == "resv"
        cold, _, _ = G.state_cover_tests(work, 5 if quick else 6)
        cold = take(cold, (400 if warm else 600 if resv else 1000) if quick else 10000)
        w2, _, _ = G.state_cover_tests(work, 3 if quick else 4, warm=2)
        w2 = take(w2, (2000 if warm else 200) if quick else 12000)
        w1, _, _ = G.state_cover_tests(work, 4 if quick else 5, warm=1)
        w1 = take(w1, (300 if warm else 100) if quick else 12000)
        # both nodes full: the reservation regime
        f3, _, _ = G.state_cover_tests(work, 3 if quick else 4, warm=3)
        f3 = take(f3, (1000 if resv else 200) if quick else 8000)
        f4 = []
        if quick and resv:
            f4, _, _ = G.state_cover_tests(work, 4, warm=3)
            f4 = take(f4, 500)
        ss = G.simulated_tests(work, 250 if quick else 4000, seed)
        # full nodes held by a queue without guarantee, an application of a guaranteed queue arrives: queue preemption
        # (own queue layout: conf "mcpre")
        pre = focus == "pre"
        p3, p4 = [], []
        if pre or pre_tests or not quick:
            p3, _, _ = G.state_cover_tests(work, 3 if quick else 4, warm=4)
            p3 = take(p3, (700 if pre else 150) if quick else 12000)
            # ... and with a preemption already in flight
            p4, _, _ = G.state_cover_tests(work, 3 if quick else 4, warm=5)
            p4 = take(p4, (2500 if pre else 300) if quick else 12000)
        if pre:   # the other families only as a smoke test
            cold, w2, w1, f3, f4, ss = cold[:150], w2[:100], w1[:50], f3[:100], [], ss[:50]
        # the core restarts at any point around a swap, a preemption in flight, a reservation: only histories with a restart
        r_mc, r_pre = [], []
        if focus == "restart" or not quick:
            def with_restart(ts):
                return [t for t in ts if any(o.get("op") == "restart" for o in t)]
            d = 3 if quick else 4
            r_mc = take(with_restart(G.state_cover_tests(work, d, warm=6)[0]), 1200 if quick else 8000) + \
                take(with_restart(G.state_cover_tests(work, d, warm=8)[0]), 800 if quick else 8000)
            r_pre = take(with_restart(G.state_cover_tests(work, d, warm=7)[0]), 800 if quick else 8000)
            if focus == "restart":
                cold, w2, w1, f3, f4, ss, p3, p4 = cold[:100], w2[:50], [], f3[:50], [], ss[:50], [], []
        allt = cold + w2 + w1 + f3 + f4 + ss + r_mc
        n = 6 if quick else 12
        for i in range(n):
            f = os.path.join(work, "gen-ops-%d.ndjson" % i)
            G.write_ops(allt[i::n], f)
            res["ops_files"].append(f)
        allp = p3 + p4 + r_pre
        np_ = ((4 if pre else 1) if quick else 8) if allp else 0
        for i in range(np_):
            f = os.path.join(work, "gen-ops-pre-%d.ndjson" % i)
            G.write_ops(allp[i::np_], f, conf="mcpre")
            res["ops_files"].append(f)
        res.update(tests_bounded=len(cold), tests_warm=len(w1) + len(w2) + len(f3) + len(f4) + len(allp), tests_preemption=len(allp), tests_restart=len(r_mc) + len(r_pre), tests_simulated=len(ss))
        return res
    return gen


NEED = {   # vacuity guards: the run is not a verdict unless these step kinds occurred
    "C01": ["schedAlloc"], "C02": ["schedAlloc"], "C03": ["schedAlloc", "drains", "replConfirm"], "C04": ["schedAlloc", "confirm"],
    "C05": ["schedAlloc"], "C06": ["replDecided", "replConfirm", "phTimerFired"], "C07": ["preemptSteps"], "C08": ["preemptSteps"],
    "C09": ["resvMade"], "C10": ["appStateChanges", "stateTimerFired"], "C11": ["schedAlloc"], "C16": ["reloadOk", "reloadRejected"], "C13": ["bad"], "C12": ["restart", "schedAlloc"], "C05": ["schedAlloc", "reloadOk"],
}

# properties decided by their own pipeline module (vlib/<module>.py: main(prop, tier, seed, argv))
OTHER = {"C14": "conc", "C18": "resarith", "C19": "sorting", "C20": "events", "C15": "confvalid", "C17": "placement"}
# C13: besides its own checks, every ledger invariant counts in the malformed-request profile ("leaves accounting as it was")
PREFIXES = {"C13": ["C13_", "C03_", "C01_NodeLedger", "C09_Views", "C05_UserUsage", "C05_GroupUsage"],
            # C12: "... and scheduling afterwards still respects the capacity, quota and accounting properties"
            "C12": ["C12_", "C01_NodeLedger", "C01_Step", "C01_AvailNonNeg", "C02_Step", "C03_", "C05_Step", "C05_UserUsage", "C05_GroupUsage"]}
SECOND_PART = {"C05": "ugmlimits"}   # the user/group manager as a deterministic state machine (spec/UGM.tla, lock-step)
MODEL_PROPS = {"C01", "C02", "C03", "C04", "C06", "C07", "C08", "C09", "C10", "C12"}   # properties the generative model speaks about
WARM_FOCUS = {"C03", "C04", "C06", "C10"}   # of those, the ones about what happens around a placeholder swap
RESV_FOCUS = {"C01", "C02", "C09"}   # ... and the ones about full nodes, head room and reservations
PRE_FOCUS = {"C07", "C08"}           # ... and queue preemption
CRASH_OWNERS = {"C08", "C13"}   # properties whose statement covers "the core process dies"
LEVEL_TEXT = {}

def main(argv):
    if not argv:
        print("usage: check <PROPERTY> [quick|thorough] [--replay file]"); sys.exit(2)
    prop = argv[0]
    tier = C.tier(argv[1] if len(argv) > 1 and argv[1] in ("quick", "thorough") else None)
    seed = C.seed()
    t0 = time.time()
    os.makedirs(C.VERIF + "/replays", exist_ok=True)
    try:
        if "--replay" in argv and prop not in OTHER:
            from . import replay
            replay.main(prop, argv[argv.index("--replay") + 1])
            return
        if prop in OTHER:
            import importlib
            importlib.import_module("vlib." + OTHER[prop]).main(prop, tier, seed, argv)
            return
        C.build()
        kf_all = C.known_findings()
        res = T.run(prop, PREFIXES.get(prop, [prop + "_"]), runs_for(prop, tier), tier, seed, kf_all, NEED[prop], gen=model_stage(tier, seed, focus="warm" if prop in WARM_FOCUS else "resv" if prop in RESV_FOCUS else "pre" if prop in PRE_FOCUS else "restart" if prop == "C12" else "cold", pre_tests=prop == "C03") if prop in MODEL_PROPS else None)
        # a crash of the core process is a violation for the properties that speak about it, otherwise not a verdict
        crash_infra = None
        for msg, rp in res["crashes"]:
            if prop in CRASH_OWNERS:
                res["violations"].append(rp)
                print("core crash: " + msg)
            else:
                crash_infra = msg
        missing = [n for n in NEED[prop] if res["counters"].get(n, 0) == 0]
        kf_lines = []
        for k in kf_all:
            pref = PREFIXES.get(prop, [prop + "_"])
            touches = any(n.startswith(x) for n in k.get("taints_step", []) + k.get("taints_state", []) for x in pref)
            if k.get("status") == "known" and k.get("shape") and (prop in k.get("properties", [k.get("property")]) or touches):
                kf_lines.append("KNOWN-FINDING: property=%s %s [%s] observed_in_this_run=%d" % (prop, k["what"], k["id"], res["kf_obs"].get(k["id"], 0)))
        cov = {"evaluations": res["steps"], "distinct_nontrivial": res["nontrivial"],
               "rule": "one evaluation = one step of the real core validated by TLC against YKTrace.tla (all %s checks on the logged pre/post state); a trace (operation sequence: seeded workload profile or TLC-generated environment history) is non-trivial when it contains at least one step of the kinds %s; distinct = distinct operation sequences (sha1)" % (PREFIXES.get(prop, [prop + "_*"]), NEED[prop]),
               "samples": res["samples"], "traces_validated_against_impl": res["traces"], "steps_validated": res["steps"], "guard_hit_counters": res["counters"],
               "failing_checks": res["failing_checks"], "known_findings_observed": res["kf_obs"], "exhaustive": False}
        level = "exploration"
        assumptions = ["the projection (harness/drive/project.go) reports the core's state faithfully", "TLC evaluates YKTrace.tla correctly", "sequential driver: one operation at a time, quiescent after each step"]
        if res.get("model"):
            m = res["model"]
            level = "model_checking"
            cov.update(states=m["states"], transitions=m["transitions"], model=m["model_cfg"], model_exhaustive_within_bounds=True,
                       tests_generated_bounded=m["tests_bounded"], tests_generated_warm=m["tests_warm"], tests_generated_preemption=m.get("tests_preemption", 0), tests_generated_restart=m.get("tests_restart", 0), tests_generated_simulated=m["tests_simulated"],
                       explanation="states/transitions: exhaustive TLC run of spec/YuniKorn.tla (intended behaviour) under %s, all design invariants hold; its environment histories were replayed on the real core and every step validated" % m["model_cfg"])
            assumptions.append("the generative model is exhaustive only within the constants of its MC_YK configuration")
        C.write_evidence(prop, tier, seed, level, cov, time.time() - t0, len(res["violations"]), assumptions)
        if os.environ.get("VERIF_VERBOSE"):
            print(json.dumps({k: v for k, v in res.items() if k != "samples"}, indent=1))
        infra = crash_infra or (("vacuous run: no step of kind %s" % missing) if missing else None)
        if prop in SECOND_PART and not infra:
            # a second decision procedure for the same property (its own module): run it, merge verdicts and evidence
            import importlib, io, contextlib
            buf = io.StringIO()
            rc = 0
            try:
                with contextlib.redirect_stdout(buf):
                    importlib.import_module("vlib." + SECOND_PART[prop]).main(prop, tier, seed, [])
            except SystemExit as e:
                rc = e.code or 0
            out2 = buf.getvalue()
            for ln in out2.splitlines():
                if ln.startswith("KNOWN-FINDING:"):
                    kf_lines.append(ln)
                elif ln.startswith("VIOLATION"):
                    res["violations"].append(ln.split("replay=")[1].strip())
                elif ln.startswith("INFRA-ERROR"):
                    infra = ln
            if rc == 2 and not infra:
                infra = "second part (%s) failed: %s" % (SECOND_PART[prop], out2[-800:])
            try:
                ev2 = json.load(open(C.VERIF + "/evidence/%s.json" % prop))
                cov[SECOND_PART[prop]] = ev2["coverage"]
                cov["states"], cov["transitions"] = ev2["coverage"].get("states", 0), ev2["coverage"].get("transitions", 0)
                cov["traces_validated_against_impl"] = res["traces"] + ev2["coverage"].get("traces_validated_against_impl", 0)
                level = "model_checking" if cov["states"] else level
                assumptions = assumptions + ev2.get("assumptions", [])
            except (OSError, ValueError, KeyError):
                pass
            C.write_evidence(prop, tier, seed, level, cov, time.time() - t0, len(res["violations"]), assumptions)
        C.finish(prop, res["violations"], kf_lines, infra=infra)
    except C.Infra as e:
        print("INFRA-ERROR property=%s %s" % (prop, e))
        sys.exit(2)
    except Exception:   # a bug in the machinery is not a verdict either
        import traceback
        print("INFRA-ERROR property=%s unexpected error in the checking machinery: %s" % (prop, traceback.format_exc()[-1500:]))
        sys.exit(2)
