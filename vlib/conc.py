"""Property C14: concurrent operation.
 (1) spec/YKConc.tla: the allocation pipeline refined into the implementation's critical sections, model-checked by TLC
     (intended = current behaviour: conservation at quiescence holds for every interleaving of the scheduling cycle with node
     removal); the interleaving classes it distinguishes are forced on the REAL code through the gates of the verif build
     (ykh gate) and every step of those runs is validated by YKTrace.tla.
 (2) concurrent sessions of the real core (scheduling loop, request streams, node churn, reloads, quota preemption, timers,
     confirmations, DAO readers) built with -race: data race reports, panics, goroutines left blocked, and the quiescent
     final state validated against the state invariants of YKTrace.tla (capacity, quota, accounting, user usage, reservations).
 (3) spec/LockOrder.tla: the lock acquisition edges recorded in such sessions must be acyclic (instances and classes).
"""
import json, os, re, shutil, subprocess, sys, time
from . import common as C
from . import tracecheck as T

# Final state of a sampled session. The ledger invariants (C01/C03/C05) are NOT verdicts there: the known defect family
# KF-C14-REMOVAL-DURING-CYCLE (a release / removal landing inside the allocation window of a scheduling cycle) corrupts exactly
# those books, cannot be recognised from a final state, and is decided deterministically by the gate scenarios instead.
# Their failures are counted in the evidence as observations.
FINAL_PREFIXES = ["C02_Headroom", "C02_RootMax", "C09_", "C10_Transitions", "C13_NoPanic", "C13_NoHang"]
FINAL_OBSERVED = ["C01_", "C03_", "C05_", "C02_Usage", "C11_Counts", "C10_CompletedClean"]
GATE_PREFIXES = ["C01_", "C02_", "C03_", "C04_", "C05_", "C09_", "C10_", "C11_", "C13_"]


def app_setup(node_caps=(4, 4)):
    return [{"op": "addNode", "node": "n0", "cap": {"memory": node_caps[0], "pods": 4}}, {"op": "addNode", "node": "n1", "cap": {"memory": node_caps[1], "pods": 4}},
            {"op": "addApp", "app": "app0", "queue": "root.a", "user": "u0", "groups": ["g1"], "tags": {}, "gang": False, "style": "", "forced": False},
            {"op": "addAsk", "app": "app0", "key": "k0", "res": {"memory": 2}, "ph": False, "tg": "", "aged": False, "reqNode": "", "prio": 0, "node": ""},
            {"op": "deny", "key": "k0", "node": "n1"}]


def scenarios():
    """the interleaving classes of spec/YKConc.tla (who runs entirely inside whose gap) + variants with other RM events"""
    sched = {"op": "schedule"}
    after = [sched, sched]
    out = []
    for point in ("tryNode.beforeNodeAdd", "partition.allocate.entry"):
        out.append(dict(name="removeNode-inside-cycle@" + point, conf="C", point=point, id="k0", setup=app_setup(), gated=sched,
                        during=[{"op": "removeNode", "node": "n0"}], after=after))
        out.append(dict(name="removeNode+readd-inside-cycle@" + point, conf="C", point=point, id="k0", setup=app_setup(), gated=sched,
                        during=[{"op": "removeNode", "node": "n0"}, {"op": "addNode", "node": "n0", "cap": {"memory": 4, "pods": 4}}], after=after))
        out.append(dict(name="drain-inside-cycle@" + point, conf="C", point=point, id="k0", setup=app_setup(), gated=sched,
                        during=[{"op": "drain", "node": "n0"}], after=after))
        out.append(dict(name="otherNodeRemoved-inside-cycle@" + point, conf="C", point=point, id="k0", setup=app_setup(), gated=sched,
                        during=[{"op": "removeNode", "node": "n1"}], after=after))
        out.append(dict(name="removeApp-inside-cycle@" + point, conf="C", point=point, id="k0", setup=app_setup(), gated=sched,
                        during=[{"op": "removeApp", "app": "app0"}], after=after))
        out.append(dict(name="release-inside-cycle@" + point, conf="C", point=point, id="k0", setup=app_setup(), gated=sched,
                        during=[{"op": "release", "app": "app0", "key": "k0", "term": "STOPPED_BY_RM"}], after=after))
    # the scheduling cycle runs entirely inside the node removal (between removal from the list and the clean-up)
    out.append(dict(name="cycle-inside-removeNode", conf="C", point="removeNode.afterList", id="n1", setup=app_setup(), gated={"op": "removeNode", "node": "n1"},
                    during=[sched, sched], after=after))
    out.append(dict(name="cycle-inside-removeNode-of-target", conf="C", point="removeNode.afterList", id="n0", setup=app_setup(), gated={"op": "removeNode", "node": "n0"},
                    during=[sched, sched], after=after))
    return out


RACE_RE = re.compile(r"WARNING: DATA RACE\n(.*?)\n==================", re.S)


def race_signatures(stderr):
    """one signature per report: the innermost yunikorn-core frame of each of the two conflicting accesses"""
    sigs = []
    for m in RACE_RE.finditer(stderr):
        rep = m.group(1)
        parts = re.split(r"\n(?=Previous (?:read|write) at )", rep)
        fr = []
        for part in parts[:2]:
            f = re.search(r"^\s+(github\.com/apache/yunikorn-core/pkg/\S+)\(\)", part, re.M)
            fr.append(f.group(1).replace("github.com/apache/yunikorn-core/pkg/", "") if f else "?")
        sigs.append((tuple(sorted(fr)), rep[:3000]))
    return sigs


def main(prop, tier, seed, argv):
    t0 = time.time()
    if "--replay" in argv:
        return replay(prop, argv[argv.index("--replay") + 1])
    C.build(race=True)
    kf_all = C.known_findings()
    work = C.scratch(prop)
    violations, kf_obs, samples = [], {}, []
    cov = {}
    try:
        C.copy_spec(work)
        # ---- (1) design: YKConc.tla
        rc, out = C.tlc(work, "YKConc.tla", "MC_YKConc_intended.cfg", workers=4, timeout=600)
        if "No error has been found" not in out:
            raise C.Infra("YKConc.tla (intended) does not hold: specification error\n" + out[-1500:])
        gen, dist = C.tlc_stats(out)
        rc2, out2 = C.tlc(work, "YKConc.tla", "MC_YKConc_ascoded.cfg", workers=1, timeout=600)
        cov.update(states=dist, transitions=gen, design_counterexample_before_fix="Conserved is violated" in out2)
        # ---- (1b) gate replay of the interleaving classes on the real code
        scs = scenarios()
        open(os.path.join(work, "scenarios.json"), "w").write(json.dumps(scs))
        p = C.sh([C.VERIF + "/.build/ykh", "gate", "-scenarios", "scenarios.json", "-out", "gate.ndjson"], cwd=work, timeout=600, check=False)
        if p.returncode != 0:
            raise C.Infra("gate replay failed: " + p.stdout[-1500:])
        enabled = [k["id"] for k in kf_all if k.get("status") == "known"]
        fails, kfs, n = T.validate(work, os.path.join(work, "gate.ndjson"), enabled)
        tf = T.TraceFile(os.path.join(work, "gate.ndjson"))
        parked = sum(1 for l in tf.lines if '"op":"gated"' in l and '"parked":true' in l)
        if parked < len(scs) - 2:
            raise C.Infra("only %d of %d gate scenarios reached their gate point" % (parked, len(scs)))
        cov.update(gate_scenarios=len(scs), gate_scenarios_parked=parked, gate_steps_validated=n)
        first = {}
        for name, ln in fails:
            if any(name.startswith(x) for x in GATE_PREFIXES):
                key = (tf.trace_of(ln), name)
                first[key] = min(ln, first.get(key, ln))
        kf_by = {k["id"]: k for k in kf_all}
        for (t, name), ln in sorted(first.items()):
            att = None
            for kid, kln in kfs:
                k = kf_by.get(kid)
                # a gate scenario is one unit: the shape is recognised on its "gated" line, the damage may show on the lines around it
                if k and k.get("status") == "known" and tf.trace_of(kln) == t and (name in k.get("taints_step", []) or name in k.get("taints_state", [])):
                    att = kid
            if att:
                kf_obs[att] = kf_obs.get(att, 0) + 1
                continue
            a, b = tf.span(t)
            rp = "%s/replays/%s-gate-%s-%d.json" % (C.VERIF, prop, name, t)
            os.makedirs(C.VERIF + "/replays", exist_ok=True)
            json.dump({"property": prop, "kind": "gate", "check": name, "scenario": scs[t], "failing_step": ln - a, "trace": [json.loads(x) for x in tf.lines[a - 1:ln]]}, open(rp, "w"))
            violations.append(rp)
        samples.append({"gate_scenario": {k: scs[0][k] for k in ("name", "point", "id", "gated", "during")}})
        # ---- (2) concurrent sessions with the race detector
        profiles = ["core", "gang", "preempt", "quota"] if tier == "quick" else ["core", "gang", "preempt", "preempt2", "quota", "reload", "limits", "dyn"]
        reps = 2 if tier == "quick" else 6
        ms = 1500 if tier == "quick" else 4000
        jobs = [(pr, seed * 100 + i) for i in range(reps) for pr in profiles]

        def session(j):
            pr, sd = j
            out_f = os.path.join(work, "conc-%s-%d.ndjson" % (pr, sd))
            env = dict(C.ENV, GORACE="halt_on_error=0 exitcode=0")
            try:
                p = subprocess.run([C.VERIF + "/.build/ykh-race", "conc", "-profile", pr, "-seed", str(sd), "-ms", str(ms), "-workers", "4", "-out", out_f],
                                   cwd=work, env=env, stdout=subprocess.PIPE, stderr=subprocess.PIPE, text=True, timeout=420)
            except subprocess.TimeoutExpired as e:
                # the driver gives up on stuck goroutines after 2 x 30 s: a session that does not end at all is itself hung in the core
                return dict(job=j, crash="the concurrent session did not end within 420 s (session length %d ms): %s" % (ms, str(e.stderr or "")[-3000:]), res=None, races=[], file=None)
            if p.returncode != 0 or not os.path.exists(out_f):
                m = re.search(r"^(panic:|fatal error:)[^\n]*", p.stderr, re.M)
                if m and "yunikorn-core/pkg/" in p.stderr:
                    return dict(job=j, crash=p.stderr[-5000:], res=None, races=[], file=None)
                raise C.Infra("concurrent session failed (%s): %s" % (p.returncode, (p.stderr or p.stdout)[-1500:]))
            res = json.loads(p.stdout.strip().splitlines()[-1])
            return dict(job=j, crash=None, res=res, races=race_signatures(p.stderr), file=out_f)
        sess = C.pmap(session, jobs, 4)
        tot_ops = sum(s["res"]["ops"] for s in sess if s["res"])
        tot_allocs = sum(s["res"]["allocs"] for s in sess if s["res"])
        # race reports
        race_kf = [k for k in kf_all if k.get("status") == "known" and prop in k.get("properties", []) and k.get("race")]
        seen = {}
        for s in sess:
            for sig, rep in s["races"]:
                seen.setdefault(sig, (s["job"], rep))
        for sig, (job, rep) in seen.items():
            hit = [k for k in race_kf if tuple(sorted(k["race"])) == sig]
            if hit:
                kf_obs[hit[0]["id"]] = kf_obs.get(hit[0]["id"], 0) + 1
                continue
            rp = "%s/replays/%s-race-%s-%d.json" % (C.VERIF, prop, job[0], job[1])
            os.makedirs(C.VERIF + "/replays", exist_ok=True)
            json.dump({"property": prop, "kind": "race", "signature": list(sig), "profile": job[0], "seed": job[1], "ms": ms, "report": rep}, open(rp, "w"))
            violations.append(rp)
        for s in sess:
            if s["crash"]:
                rp = "%s/replays/%s-crash-%s-%d.json" % (C.VERIF, prop, s["job"][0], s["job"][1])
                json.dump({"property": prop, "kind": "crash", "profile": s["job"][0], "seed": s["job"][1], "ms": ms, "report": s["crash"]}, open(rp, "w"))
                violations.append(rp)
        # final states: one trace file (reset + final per session)
        allf = os.path.join(work, "finals.ndjson")
        with open(allf, "w") as f:
            for s in sess:
                if s["file"]:
                    f.write(open(s["file"]).read())
        ffails, fkfs, fn = T.validate(work, allf, enabled)
        ftf = T.TraceFile(allf)
        done = set()
        okjobs = [s for s in sess if s["file"]]
        observed = {}
        for name, ln in ffails:
            if any(name.startswith(x) for x in FINAL_OBSERVED):
                observed[name] = observed.get(name, 0) + 1
            if not any(name.startswith(x) for x in FINAL_PREFIXES):
                continue
            t = ftf.trace_of(ln)
            if (t, name) in done:
                continue
            done.add((t, name))
            job = okjobs[t]["job"]
            rec = json.loads(ftf.lines[ln - 1])
            if name == "C13_NoPanic":
                # every panic of the session must match a known finding by its innermost frames
                unknown = []
                for pn in [x for x in rec.get("panic", "").split(" || ") if x]:
                    hit = [k for k in kf_all if k.get("status") == "known" and k.get("panic") and all(f in pn for f in k["panic"])]
                    if hit:
                        kf_obs[hit[0]["id"]] = kf_obs.get(hit[0]["id"], 0) + 1
                    else:
                        unknown.append(pn)
                if not unknown:
                    continue
            rp = "%s/replays/%s-final-%s-%s-%d.json" % (C.VERIF, prop, name, job[0], job[1])
            json.dump({"property": prop, "kind": "final", "check": name, "profile": job[0], "seed": job[1], "ms": ms, "panic": rec.get("panic"), "blocked": rec.get("blocked"),
                       "trace": [json.loads(ftf.lines[ln - 2]), rec]}, open(rp, "w"))
            violations.append(rp)
        unsettled = sum(1 for s in okjobs if not s["res"]["settled"])
        # ---- (3) lock order
        lock_jobs = [("core", seed), ("gang", seed + 1)] if tier == "quick" else [(pr, seed + i) for i, pr in enumerate(profiles)]
        edges_tot, class_edges = 0, []
        for pr, sd in lock_jobs:
            lf = os.path.join(work, "locks-%s-%d.ndjson" % (pr, sd))
            env = dict(C.ENV, DEADLOCK_DETECTION_ENABLED="false")
            p = subprocess.run([C.VERIF + "/.build/ykh", "conc", "-profile", pr, "-seed", str(sd), "-ms", str(ms), "-workers", "4", "-locks", "-out", lf], cwd=work, env=env,
                               stdout=subprocess.PIPE, stderr=subprocess.PIPE, text=True, timeout=900)
            if p.returncode != 0:
                raise C.Infra("lock recording session failed: " + (p.stderr or p.stdout)[-1200:])
            cfg = "LockOrder-%s-%d.cfg" % (pr, sd)
            open(os.path.join(work, cfg), "w").write('SPECIFICATION Spec\nCONSTANT EdgeFile = "%s"\nINVARIANT Inv\nCHECK_DEADLOCK FALSE\n' % (os.path.basename(lf) + ".locks.json"))
            rc, lout = C.tlc(work, "LockOrder.tla", cfg, timeout=900)
            if "No error has been found" not in lout:
                raise C.Infra("LockOrder.tla did not run: " + lout[-1500:])
            m = re.search(r'<<\s*"LOCKS",\s*(\d+),\s*(\d+),\s*(\{.*?\})\s*>>', lout, re.S)
            if m:
                edges_tot += int(m.group(1))
                class_edges = sorted(set(class_edges) | set(re.findall(r'<<\s*"([\w.]+)",\s*"([\w.]+)"\s*>>', m.group(3))))
            for fm in re.finditer(r'<<\s*"FAIL",\s*"(C14_LockOrder\w+)",\s*(.*?)>>\n', lout, re.S):
                rp = "%s/replays/%s-%s-%s-%d.json" % (C.VERIF, prop, fm.group(1), pr, sd)
                json.dump({"property": prop, "kind": "lockorder", "check": fm.group(1), "profile": pr, "seed": sd, "ms": ms, "cycle_residue": fm.group(2)[:4000]}, open(rp, "w"))
                violations.append(rp)
        if edges_tot == 0:
            raise C.Infra("no lock acquisition edge was recorded")
        if tot_ops == 0 or tot_allocs == 0:
            raise C.Infra("vacuous concurrent sessions (ops=%d allocs=%d)" % (tot_ops, tot_allocs))
        samples.append({"concurrent_session": {"profile": jobs[0][0], "seed": jobs[0][1], "result": okjobs[0]["res"] if okjobs else None}})
        cov.update(traces_validated_against_impl=len(okjobs) + len(scs), samples=samples,
                   evaluations=tot_ops, distinct_nontrivial=len([s for s in okjobs if s["res"]["allocs"] > 0]),
                   rule="one evaluation = one RM request issued by a request stream in a concurrent session; a session is non-trivial when the scheduler made allocations while requests, node churn, confirmations, timers, quota ticks and DAO readers ran concurrently; sessions differ by profile and seed",
                   concurrent_sessions=len(okjobs), concurrent_ops=tot_ops, concurrent_allocations=tot_allocs, race_reports=sum(len(s["races"]) for s in sess), distinct_race_signatures=len(seen),
                   sessions_not_settled=unsettled, final_state_ledger_failures_observed_not_judged=observed, lock_edges_recorded=edges_tot, lock_class_edges=[list(e) for e in class_edges], exhaustive=False,
                   explanation="states/transitions: exhaustive TLC run of spec/YKConc.tla (MC_YKConc_intended.cfg); its interleaving classes were forced on the real code through gates and validated step by step; seeded concurrent sessions under the race detector add schedule sampling; LockOrder.tla checks the recorded lock order graph")
    finally:
        if not os.environ.get("VERIF_KEEP"):
            shutil.rmtree(work, ignore_errors=True)
        else:
            print("scratch kept:", work)
    kf_lines = []
    for k in kf_all:
        if k.get("status") == "known" and prop in k.get("properties", []) and (k.get("race") or k.get("conc")):
            kf_lines.append("KNOWN-FINDING: property=%s %s [%s] observed_in_this_run=%d" % (prop, k["what"], k["id"], kf_obs.get(k["id"], 0)))
    C.write_evidence(prop, tier, seed, "model_checking", cov, time.time() - t0, len(violations),
                     ["schedules are sampled by the Go scheduler and by seeds: absence of a race report is not a proof of race freedom",
                      "the gate replay covers the interleavings at the three gate points compiled into the verif build",
                      "the final state of a concurrent session is judged by the state invariants only (the protocol monitor and step guards need the sequential order)"])
    C.finish(prop, violations, kf_lines)


def replay(prop, path):
    d = json.load(open(path))
    C.build(race=True)
    work = C.scratch(prop + "-replay")
    try:
        C.copy_spec(work)
        kf = [k["id"] for k in C.known_findings() if k.get("status") == "known"]
        if d["kind"] == "gate":
            open(os.path.join(work, "sc.json"), "w").write(json.dumps([d["scenario"]]))
            C.sh([C.VERIF + "/.build/ykh", "gate", "-scenarios", "sc.json", "-out", "g.ndjson"], cwd=work, timeout=300)
            fails, kfs, n = T.validate(work, os.path.join(work, "g.ndjson"), kf)
            bad = [f for f in fails if f[0] == d["check"]]
            print("gate scenario %s re-run: %s fails at %s" % (d["scenario"]["name"], d["check"], [l - 1 for c, l in bad][:5]))
            hit = bool(bad)
        else:
            hits = 0
            for i in range(5):
                env = dict(C.ENV, GORACE="halt_on_error=0 exitcode=0")
                binf = "ykh-race" if d["kind"] in ("race", "final", "crash") else "ykh"
                extra = ["-locks"] if d["kind"] == "lockorder" else []
                p = subprocess.run([C.VERIF + "/.build/" + binf, "conc", "-profile", d["profile"], "-seed", str(d["seed"]), "-ms", str(d.get("ms", 1500)), "-workers", "4", "-out", os.path.join(work, "r.ndjson")] + extra,
                                   cwd=work, env=env, stdout=subprocess.PIPE, stderr=subprocess.PIPE, text=True, timeout=900)
                if d["kind"] == "race":
                    hits += any(list(sig) == d["signature"] for sig, _ in race_signatures(p.stderr))
                elif d["kind"] == "crash":
                    hits += p.returncode != 0
                elif d["kind"] == "final":
                    fails, kfs, n = T.validate(work, os.path.join(work, "r.ndjson"), kf)
                    hits += any(c == d["check"] for c, l in fails)
                else:
                    cfg = "LO.cfg"
                    open(os.path.join(work, cfg), "w").write('SPECIFICATION Spec\nCONSTANT EdgeFile = "r.ndjson.locks.json"\nINVARIANT Inv\nCHECK_DEADLOCK FALSE\n')
                    rc, lout = C.tlc(work, "LockOrder.tla", cfg, timeout=900)
                    hits += d["check"] in lout
            print("concurrent session %s/%s re-run 5 times: reproduced %d times (schedules are not deterministic)" % (d["profile"], d["seed"], hits))
            hit = hits > 0
        if hit:
            print("VIOLATION property=%s replay=%s" % (prop, path))
            sys.exit(1)
        sys.exit(0)
    finally:
        shutil.rmtree(work, ignore_errors=True)
